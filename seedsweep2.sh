#!/bin/bash
# usage: seedsweep2.sh [seed-name ...]  -- like seedsweep.sh, but works on a scratch clone of /repo (or $VP_RUN_REPO) and
# on the /verif copy it is started from, so it can run beside other checks (e.g. under `vp run --with-repo`).
set -u
V=$(cd "$(dirname "$0")" && pwd)
if [ "$V" = /verif ]; then
  # never let a run against a changed tree touch /verif/evidence or /verif/replay: work on a copy
  W=/tmp/sweepverif_$$; rm -rf $W; mkdir -p $W; rsync -a --exclude .git --exclude replay /verif/ $W/; V=$W; trap "rm -rf $W" EXIT
fi
R=${VP_RUN_REPO:-}
if [ -z "$R" ]; then R=/tmp/sweeprepo_$$; git clone -q /repo $R; trap "rm -rf $R ${W:-}" EXIT; fi
cd $V
seeds=("$@"); [ ${#seeds[@]} -eq 0 ] && seeds=($(ls seeded | grep -v "^_"))
for s in "${seeds[@]}"; do
  SD=$V/seeded/$s
  PID=$(python3 -c "import json;print(json.load(open('$SD/meta.json'))['property'])")
  git -C $R checkout -q -- . 
  git -C $R apply "$SD/patch.diff" || { echo "$s $PID patch-does-not-apply"; continue; }
  t0=$(date +%s)
  timeout 3000 ./check "$PID" --repo $R --verif $V > /tmp/seedsweep_$s.log 2>&1; rc=$?
  git -C $R checkout -q -- .
  nv=$(grep -c "^VIOLATION" /tmp/seedsweep_$s.log)
  h=$(grep -m1 "^  harness" /tmp/seedsweep_$s.log | cut -c1-150)
  inc=$(grep -c "^INCONCLUSIVE" /tmp/seedsweep_$s.log)
  if [ $rc -eq 1 ] && [ $nv -gt 0 ]; then v=caught; else v=MISSED; fi
  echo "$s $PID $v exit=$rc violations=$nv inconclusive=$inc $(( $(date +%s)-t0 ))s $h"
done
