#!/usr/bin/env python3
"""seedstore.py <seed-dir> <name> <caught: first|after|missed> <notes>: copies a confirmed seeded change to /verif/seeded/<name>/"""
import sys, os, json, shutil, glob
sd, name, caught, notes = sys.argv[1:5]
dst = f"/verif/seeded/{name}"
os.makedirs(dst, exist_ok=True)
shutil.copy(f"{sd}/patch.diff", dst)
for f in glob.glob(f"{sd}/*_test.go"):
    shutil.copy(f, dst)
meta = json.load(open(f"{sd}/meta.json"))
out = {
    "property": meta.get("property"),
    "summary": meta.get("summary"),
    "needs": meta.get("needs"),
    "demo_cmd": meta.get("demo_cmd"),
    "confirmed": "seedverify.sh in a scratch worktree: demonstration passes without the patch, fails with it; go build and the full existing suite pass with it",
    "ran": f"git -C /repo apply patch.diff; ./check {meta.get('property')}; git -C /repo checkout -- .",
    "detected": caught,
    "notes": notes,
}
json.dump(out, open(f"{dst}/meta.json", "w"), indent=1)
print("stored", dst)
