#!/bin/bash
# usage: seedsweep.sh [seed-name ...]  -- applies each seeded change to /repo in turn, runs the quick check of its
# property, reverts, and prints one line per seed (caught / MISSED). Development aid; not registered in MANIFEST.json.
set -u
cd /verif
seeds=("$@"); [ ${#seeds[@]} -eq 0 ] && seeds=($(ls seeded | grep -v "^_"))
for s in "${seeds[@]}"; do
  SD=/verif/seeded/$s
  PID=$(python3 -c "import json;print(json.load(open('$SD/meta.json'))['property'])")
  if ! git -C /repo diff --quiet; then echo "/repo dirty"; exit 2; fi
  git -C /repo apply "$SD/patch.diff" || { echo "$s $PID patch-does-not-apply"; continue; }
  t0=$(date +%s)
  timeout 3000 ./check "$PID" > /tmp/seedsweep_$s.log 2>&1; rc=$?
  git -C /repo checkout -- .
  nv=$(grep -c "^VIOLATION" /tmp/seedsweep_$s.log)
  h=$(grep -m1 "^  harness" /tmp/seedsweep_$s.log | cut -c1-150)
  inc=$(grep -c "^INCONCLUSIVE" /tmp/seedsweep_$s.log)
  if [ $rc -eq 1 ] && [ $nv -gt 0 ]; then v=caught; else v=MISSED; fi
  echo "$s $PID $v exit=$rc violations=$nv inconclusive=$inc $(( $(date +%s)-t0 ))s $h"
done
