//go:build verif

package tokens

import "encoding/base64"

// vp:check C20 quick configs=start:0|30|58|59;duration:1|2;gap:0|1|2 K=16 timeout=900 nowitness clock=fixed
// vp:check C20 thorough configs=start:0|1|29|30|56|57|58|59;duration:1|2|3;gap:0|1|2|3 K=16 timeout=900 nowitness clock=fixed
// vp_C20_expiry: a token validates against the issuing key and user until the requested number of seconds has elapsed.
// The clock is aligned to a chosen second of the minute (natively by waiting for it), the token is issued, a chosen
// number of whole seconds passes, the token is validated.
func vp_C20_expiry() {
	secret := []byte("secret-key-0001")
	op := TokenOptions{ServerPrivateKey: secret, ServerName: "x", UserID: "@a:x", Duration: vpConfigInt("duration")}
	start := vpConfigInt("start")
	gap := vpConfigInt("gap")
	vpClockAlign(start)
	tok, err := GenerateLoginToken(op)
	vpAssert("issue-succeeds", err == nil)
	if err != nil {
		return
	}
	vpSleep(gap)
	got := ValidateToken(op, tok) == nil
	want := gap < op.Duration
	// (fixed: KF-C20-1 - the comparison used the second within the minute and broke across minute boundaries)
	vpAssert("expiry", got == want)
	// an expired token cannot be revived by its holder appending a more generous time caveat
	if mac, derr := deSerializeMacaroon(tok); derr == nil && mac.AddFirstPartyCaveat([]byte(TimePrefix+"99999999999")) == nil {
		if tok2, serr := serializeMacaroon(mac); serr == nil {
			vpSleep(0)
			vpAssert("appended-time-caveat-does-not-extend-the-lifetime", ValidateToken(op, tok2) != nil)
		}
	}
	vpReach("valid", got)
	vpReach("expired", !got)
}

// vp:check C20 both K=16 timeout=900 clock=fixed
// vp_C20_binding: within its lifetime a token validates only for the issuing secret and user; GetUserFromToken reveals
// the user; a token with an added caveat (of any kind, appended by its holder), or minted under another key, is
// refused for everybody; garbage does not parse.
func vp_C20_binding() {
	secret := []byte("secret-key-0001")
	// an arbitrary two-character local name (printable ASCII), with or without the usual sigil
	un := vpNondetStringN("user", 2)
	vpAssume(un[0] >= 0x20 && un[0] < 0x7F && un[1] >= 0x20 && un[1] < 0x7F)
	user := un + ":x"
	op := TokenOptions{ServerPrivateKey: secret, ServerName: "x", UserID: user, Duration: 10}
	vpClockAlign(5) // away from the minute boundary (see KF-C20-1)
	tok, err := GenerateLoginToken(op)
	vpAssume(err == nil)
	u, err := GetUserFromToken(tok)
	vpAssert("user-revealed", err == nil && u == user)
	vpSleep(0)
	vpAssert("validates", ValidateToken(op, tok) == nil)
	other := op
	un2 := vpNondetStringN("user2", 2)
	vpAssume(un2[0] >= 0x20 && un2[0] < 0x7F && un2[1] >= 0x20 && un2[1] < 0x7F)
	other.UserID = un2 + ":x"
	vpSleep(0)
	vpAssert("other-user-refused", (ValidateToken(other, tok) == nil) == (other.UserID == user))
	wrongKey := op
	wrongKey.ServerPrivateKey = []byte("secret-key-0002")
	vpSleep(0)
	vpAssert("other-key-refused", ValidateToken(wrongKey, tok) != nil)
	// caveat-level alteration: anyone holding the token can append caveats
	mac, err := deSerializeMacaroon(tok)
	vpAssume(err == nil)
	extra := vpChoice("extra", "foo = bar", "gen = 10", "gen = 2", "gen =1", "time <5", "user_id= @a:x", "gen = 1", "time < 99999999999", UserPrefix+"@z:x")
	vpAssume(mac.AddFirstPartyCaveat([]byte(extra)) == nil)
	tok2, err := serializeMacaroon(mac)
	vpAssume(err == nil)
	vpSleep(0)
	err2 := ValidateToken(op, tok2)
	// any additional caveat - unknown, malformed, or a well-formed duplicate of a known kind - makes the token invalid
	// (fixed: KF-C20-2 - the three caveat kinds were treated as alternatives, so an appended "user_id = <other>" made the
	// token validate for that other user and an appended far-future "time <" caveat revived an expired token)
	vpAssert("additional-caveat-refused", err2 != nil)
	asZ := op
	asZ.UserID = "@z:x"
	vpSleep(0)
	vpAssert("appended-user-caveat-does-not-transfer-the-token", ValidateToken(asZ, tok2) != nil)
	vpSleep(0)
	vpAssert("garbage-refused", ValidateToken(op, "AAAA") != nil)
	vpReach("done", true)
}

// vp:check C20 both K=400 timeout=900 clock=fixed codec=real
// vp_C20_bytes: byte-level alterations of a token that leave its macaroon intact. The token text is the unpadded
// URL-safe base64 of the macaroon's binary form; with the real codec interpreted (not the ideal one of the other
// harnesses), a line break inserted at an arbitrary position, a line break appended, bytes appended behind the
// macaroon (re-encoded), or a change to the unused low bits of the last character produce a different text that must
// not validate: "any token that was altered is refused".
func vp_C20_bytes() {
	secret := []byte("secret-key-0001")
	op := TokenOptions{ServerPrivateKey: secret, ServerName: "x", UserID: "@a:x", Duration: 60}
	tok, err := GenerateLoginToken(op)
	vpAssume(err == nil)
	vpAssert("pristine-token-validates", ValidateToken(op, tok) == nil)
	altered := tok
	switch vpChoice("alteration", "newline-appended", "crlf-inserted", "bytes-appended", "padding-appended") {
	case "newline-appended":
		altered = tok + "\n"
	case "crlf-inserted":
		// any position: 4*q + r (two small solver-chosen numbers, so that each is enumerable)
		q := vpNondetInt("position_quad", 0, len(tok)/4)
		head, rest := tok[:4*q], tok[4*q:]
		r := vpNondetInt("position_rest", 0, 3)
		vpAssume(r <= len(rest))
		altered = head + rest[:r] + "\r\n" + rest[r:]
	case "bytes-appended":
		bin, derr := base64.RawURLEncoding.DecodeString(tok)
		vpAssume(derr == nil)
		altered = base64.RawURLEncoding.EncodeToString(append(bin, []byte("junk")...))
	case "padding-appended":
		altered = tok + "="
	}
	vpAssume(altered != tok)
	vpAssert("altered-token-refused", ValidateToken(op, altered) != nil)
	vpReach("done", true)
}
