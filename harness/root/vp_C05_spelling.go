//go:build verif

package gomatrixserverlib

import (
	"time"

	"golang.org/x/crypto/ed25519"
)

// vp:check C05 both configs=version:1|3|6|9|11|12 spelling=1 K=12 timeout=600
// vp_C05_spelling: redaction keeps the origin's signature valid and (v3+) the event ID unchanged also when a field that
// survives redaction (event type, state key) or one that does not (a content string) contains a character that
// encoding/json.Marshal spells differently from canonical JSON: RedactEventJSON and PDU.Redact re-marshal the event, and
// the signature / reference hash are taken over the canonical spelling on both sides. spelling=1 as in vp_C03_spelling.
func vp_C05_spelling() {
	ver := RoomVersion(vpConfig("version"))
	verImpl, err := GetRoomVersion(ver)
	vpAssume(err == nil)
	pubB, privB := vpKey("origin")
	pub, priv := ed25519.PublicKey(pubB), ed25519.PrivateKey(privB)
	now := time.Unix(1700000000, 0)
	room := vpRoomIDFor(ver, vpCreateID12)
	special := vpChoice("special", "<", ">", "&", " ", " ", "plain")
	body, typ, sk := "text", "m.room.message", ""
	switch vpChoice("where", "content-string", "type", "state_key") {
	case "content-string":
		body = "a" + special + "b"
	case "type":
		typ = "org.example." + special
	case "state_key":
		sk = special
	}
	prev := []string{"$p1:x"}
	auth := []string{"$a1:x"}
	if vpSpecTraits(ver).idFormat != EventIDFormatV1 {
		prev = []string{"$0123456789012345678901234567890123456789abc"}
		auth = []string{"$0123456789012345678901234567890123456789abd"}
	}
	eb := verImpl.NewEventBuilderFromProtoEvent(&ProtoEvent{
		SenderID: vpAlice, RoomID: room, Type: typ, StateKey: &sk, PrevEvents: prev, AuthEvents: auth,
		Depth: 7, Content: vpJObj("body", body),
	})
	ev, err := eb.Build(now, "x", "ed25519:1", priv)
	vpAssert("build-succeeds", err == nil)
	if err != nil {
		return
	}
	id := ev.EventID()
	// (event signatures are made over the redacted form, so the unredacted JSON is not expected to verify with VerifyJSON)
	red, err := verImpl.RedactEventJSON(ev.JSON())
	vpAssert("redact-succeeds", err == nil)
	if err == nil {
		vpAssert("redacted-json-verifies", VerifyJSON("x", "ed25519:1", pub, red) == nil)
		red2, err := verImpl.RedactEventJSON(red)
		vpAssert("redact-twice-succeeds", err == nil)
		if err == nil {
			vpAssert("redacted-twice-verifies", VerifyJSON("x", "ed25519:1", pub, red2) == nil)
		}
		if vpSpecTraits(ver).idFormat != EventIDFormatV1 {
			re, err := verImpl.NewEventFromTrustedJSON(red, true)
			vpAssert("redacted-parses", err == nil)
			if err == nil {
				vpAssert("redacted-json:same-id", re.EventID() == id)
				vpAssert("redacted-json:type", re.Type() == typ)
				vpAssert("redacted-json:state_key", re.StateKey() != nil && *re.StateKey() == sk)
			}
		}
	}
	ev.Redact()
	vpAssert("in-place:redacted", ev.Redacted())
	vpAssert("in-place:same-id", ev.EventID() == id)
	vpAssert("in-place:type", ev.Type() == typ)
	vpAssert("in-place:verifies", VerifyJSON("x", "ed25519:1", pub, ev.JSON()) == nil)
}
