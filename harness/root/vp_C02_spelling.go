//go:build verif

package gomatrixserverlib

import (
	"golang.org/x/crypto/ed25519"
)

// vp:check C02 both spelling=1 K=12 timeout=600
// vp_C02_spelling: an object whose signed members contain a character that encoding/json.Marshal spells differently
// from canonical JSON ('<', '>', '&', U+2028, U+2029; in a value, a nested value or a member name) verifies after
// signing, also after a second signer: signer and verifier take the signature over the same (canonical) spelling. With
// spelling=1 a J2 document remembers that encoding/json.Marshal wrote it and the ideal ed25519 tells that spelling
// from the canonical one (DESIGN.md 12.1 round 7).
func vp_C02_spelling() {
	special := vpChoice("special", "<", ">", "&", " ", " ", "plain")
	var obj []byte
	switch vpChoice("where", "value", "nested", "name", "unsigned") {
	case "value":
		obj = vpJObj("a", "x"+special+"y", "b", "z")
	case "nested":
		obj = vpJObj("a", vpJObj("deep", vpJArr("x"+special)), "b", "z")
	case "name":
		obj = vpJObj("k"+special, "x", "b", "z")
	case "unsigned":
		obj = vpJObj("a", "x", "unsigned", vpJObj("note", special))
	}
	pubB, privB := vpKey("signer")
	pub, priv := ed25519.PublicKey(pubB), ed25519.PrivateKey(privB)
	pub2B, priv2B := vpKey("second")
	pub2, priv2 := ed25519.PublicKey(pub2B), ed25519.PrivateKey(priv2B)
	signed, err := SignJSON("signer.example", "ed25519:k1", priv, obj)
	vpAssert("sign-succeeds", err == nil)
	if err != nil {
		return
	}
	vpAssert("verifies", VerifyJSON("signer.example", "ed25519:k1", pub, signed) == nil)
	vpAssert("wrong-key-fails", VerifyJSON("signer.example", "ed25519:k1", pub2, signed) != nil)
	signed2, err := SignJSON("second.example", "ed25519:k9", priv2, signed)
	vpAssert("second-sign-succeeds", err == nil)
	if err == nil {
		vpAssert("first-still-verifies", VerifyJSON("signer.example", "ed25519:k1", pub, signed2) == nil)
		vpAssert("second-verifies", VerifyJSON("second.example", "ed25519:k9", pub2, signed2) == nil)
	}
	// the canonical form of the signed object verifies too (what another server re-serialises)
	if canon, err := CanonicalJSON(signed); err == nil {
		vpAssert("canonical-verifies", VerifyJSON("signer.example", "ed25519:k1", pub, canon) == nil)
	}
}
