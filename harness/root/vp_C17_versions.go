//go:build verif

package gomatrixserverlib

import (
	"github.com/matrix-org/gomatrixserverlib/spec"
)

// vpTraits: what the Matrix specification (and, for the unstable identifiers, the MSC on top of its base version)
// assigns to a room version. Written from the specification's room-version pages, not from eventversion.go.
type vpTraits struct {
	stable          bool
	stateRes        StateResAlgorithm
	eventFormat     EventFormat
	idFormat        EventIDFormat
	redactAlgo      int  // see vpRedactAlgo
	strictValidity  bool // v5+
	enforceCanon    bool // v6+
	notifLevels     bool // v6+: notifications levels are checked in power_levels changes
	integerLevels   bool // v10+ (MSC3667): power levels must be JSON integers
	knock           bool // v7+
	restricted      bool // v8+
	creatorOptional bool // v11+: the create event need not carry `creator`
	privileged      bool // v12: creators are privileged, domainless room IDs, state resolution v2.1
}

func vpSpecTraits(ver RoomVersion) vpTraits {
	n, _ := vpVerNum(ver)
	t := vpTraits{stable: len(ver) <= 2}
	switch {
	case n == 1:
		t.stateRes = StateResV1
	case n >= 12:
		t.stateRes = StateResV2_1
	default:
		t.stateRes = StateResV2
	}
	t.eventFormat, t.idFormat = EventFormatV1, EventIDFormatV1
	if n >= 3 {
		t.eventFormat, t.idFormat = EventFormatV2, EventIDFormatV2
	}
	if n >= 4 {
		t.idFormat = EventIDFormatV3
	}
	t.redactAlgo = vpRedactAlgo(ver)
	t.strictValidity = n >= 5
	t.enforceCanon = n >= 6
	t.notifLevels = n >= 6
	t.integerLevels = n >= 10 || ver == "org.matrix.msc3667"
	t.knock = n >= 7
	t.restricted = n >= 8
	t.creatorOptional = n >= 11
	t.privileged = n >= 12
	return t
}

// vp:check C17 both configs=version:ALLVERSIONS K=24 timeout=900
// vp_C17_version_table: every registered room version reports - through its getters and through the behaviour of its
// per-version functions - the traits the specification assigns to it: state-resolution algorithm, event format,
// event-ID format, key-validity rule, canonical-JSON enforcement, power-level parsing (string levels), notification
// levels in power-level changes, knocking, restricted joins (incl. the authorising server taken from the content),
// `creator` requirement of the create event, creator privileges / domainless room IDs. (The redaction algorithm per
// version is the subject of vp_C05_redact.) The table of registered versions itself is checked too.
func vp_C17_version_table() {
	ver := RoomVersion(vpConfig("version"))
	v, err := GetRoomVersion(ver)
	vpAssert("registered", err == nil)
	if err != nil {
		return
	}
	want := vpSpecTraits(ver)
	vpAssert("version", v.Version() == ver)
	vpAssert("stable", v.Stable() == want.stable && StableRoomVersion(ver) == want.stable && KnownRoomVersion(ver))
	vpAssert("state-res", v.StateResAlgorithm() == want.stateRes)
	vpAssert("event-format", v.EventFormat() == want.eventFormat)
	vpAssert("event-id-format", v.EventIDFormat() == want.idFormat)
	vpAssert("domainless", v.DomainlessRoomIDs() == want.privileged)
	vpAssert("privileged-creators", v.PrivilegedCreators() == want.privileged)
	// key validity: the lenient rule accepts a key whose valid_until_ts is 0 ("not valid"), the strict one never does
	vpAssert("key-validity", v.SignatureValidityCheck(1000, PublicKeyNotValid) == !want.strictValidity)
	// canonical JSON enforcement
	vpAssert("canonical-enforced", (v.CheckCanonicalJSON([]byte(`{"a":1.5}`)) != nil) == want.enforceCanon)
	vpAssert("canonical-integers-ok", v.CheckCanonicalJSON([]byte(`{"a":15}`)) == nil)
	// power levels given as strings
	var plc PowerLevelContent
	plc.Defaults()
	perr := v.ParsePowerLevels([]byte(`{"users_default":"5"}`), &plc)
	vpAssert("string-levels", (perr != nil) == want.integerLevels)
	if perr == nil {
		vpAssert("string-level-value", plc.UsersDefault == 5)
	}
	var plc2 PowerLevelContent
	plc2.Defaults()
	vpAssert("integer-levels-parse", v.ParsePowerLevels([]byte(`{"users_default":7,"users":{"@a:x":9}}`), &plc2) == nil && plc2.UsersDefault == 7 && plc2.Users["@a:x"] == 9)
	// knocking
	kerr := v.CheckKnockingAllowed(string(ver), vpAlice, vpAlice, spec.Knock, spec.Leave)
	vpAssert("knock", (kerr == nil) == want.knock)
	// restricted joins
	vpAssert("restricted-joins", (v.CheckRestrictedJoinsAllowed() == nil) == want.restricted)
	srv, serr := v.RestrictedJoinServername(vpJObj("membership", spec.Join, "join_authorised_via_users_server", "@c:y"))
	if want.restricted {
		vpAssert("authorising-server", serr == nil && srv == "y")
	} else {
		vpAssert("no-authorising-server", srv == "")
	}
	// notification levels in power-level changes: raising notifications.room above the sender's level
	oldPL, newPL := PowerLevelContent{}, PowerLevelContent{}
	oldPL.Defaults()
	newPL.Defaults()
	oldPL.Users = map[string]int64{vpAlice: 50}
	newPL.Users = map[string]int64{vpAlice: 50}
	oldPL.Notifications = map[string]int64{"room": 50}
	newPL.Notifications = map[string]int64{"room": 60}
	cr := vpMkEvent(ver, vpCreateID(ver), "", vpCarol, spec.MRoomCreate, vpStrPtr(""), vpJObj("creator", vpCarol, "room_version", string(ver)))
	nerr := v.CheckPowerLevelEvent(vpAlice, cr, oldPL, newPL)
	vpAssert("notification-levels-checked", (nerr != nil) == want.notifLevels)
	vpReach("done", true)
}
