//go:build verif

package gomatrixserverlib

import (
	"crypto/sha256"
	"encoding/base64"
	"encoding/json"
	"time"

	"github.com/matrix-org/gomatrixserverlib/spec"
	"golang.org/x/crypto/ed25519"
)

func vpSameStrings(a, b []string) bool {
	if len(a) != len(b) {
		return false
	}
	for i := range a {
		if a[i] != b[i] {
			return false
		}
	}
	return true
}

func vpSameStateKey(a, b *string) bool {
	if a == nil || b == nil {
		return a == nil && b == nil
	}
	return *a == *b
}

// vpSameEvent compares every accessor the property names.
func vpSameEvent(label string, a, b PDU) {
	vpAssert(label+":id", a.EventID() == b.EventID())
	vpAssert(label+":type", a.Type() == b.Type())
	vpAssert(label+":sender", a.SenderID() == b.SenderID())
	vpAssert(label+":room", a.RoomID().String() == b.RoomID().String())
	vpAssert(label+":state_key", vpSameStateKey(a.StateKey(), b.StateKey()))
	vpAssert(label+":depth", a.Depth() == b.Depth())
	vpAssert(label+":ts", a.OriginServerTS() == b.OriginServerTS())
	vpAssert(label+":prev", vpSameStrings(a.PrevEventIDs(), b.PrevEventIDs()))
	vpAssert(label+":auth", vpSameStrings(a.AuthEventIDs(), b.AuthEventIDs()))
	vpAssert(label+":redacts", a.Redacts() == b.Redacts())
	vpAssert(label+":not-redacted", !b.Redacted())
}

// vpProto: a proto-event with symbolic type-independent fields; the event type and state key shape are enumerated.
func vpProtoBuilder(verImpl IRoomVersion, name string) *EventBuilder {
	ver := verImpl.Version()
	room := vpRoomIDFor(ver, vpCreateID12)
	// event type and state key vary independently (a state key on a message, a create-typed event without one, ...)
	typ := vpChoice(name+".type", "m.room.message", spec.MRoomMember, spec.MRoomName, spec.MRoomCreate)
	var sk *string
	switch vpChoice(name+".state_key", "nil", "empty", "user") {
	case "empty":
		sk = vpStrPtr("")
	case "user":
		sk = vpStrPtr(vpBob)
	}
	if typ == spec.MRoomCreate && sk != nil && vpIsV12(ver) {
		// a genuine v12 create event carries no room_id and no prev/auth events; covered by vp_C03_create12
		sk = nil
	}
	content := vpJObj("membership", vpChoice(name+".membership", spec.Join, spec.Leave), "body", vpNondetStringN(name+".body", 2))
	if vpNondetBool(name + ".minimal") {
		// only content that survives redaction for member events: the redacted form of such an event is the event itself
		content = vpJObj("membership", vpChoice(name+".membership2", spec.Join, spec.Leave))
	}
	prev := []string{"$p1:x"}
	auth := []string{"$a1:x"}
	if vpSpecTraits(ver).idFormat != EventIDFormatV1 {
		prev = []string{"$0123456789012345678901234567890123456789abc"}
		auth = []string{"$0123456789012345678901234567890123456789abd"}
	}
	// shape of the auth-event list: one, none, two, and (for rooms whose ID names the create event) lists that name
	// the create event themselves, in second or in first place
	switch vpChoice(name+".auth_shape", "one", "none", "two", "create-second", "create-first") {
	case "none":
		auth = []string{}
	case "two":
		auth = append(auth, prev[0])
	case "create-second":
		if vpIsV12(ver) {
			auth = append(auth, "$"+room[1:])
		}
	case "create-first":
		if vpIsV12(ver) {
			auth = append([]string{"$" + room[1:]}, auth...)
		}
	}
	eb := verImpl.NewEventBuilderFromProtoEvent(&ProtoEvent{
		SenderID: vpAlice, RoomID: room, Type: typ, StateKey: sk, PrevEvents: prev, AuthEvents: auth,
		Depth: int64(vpNondetBits(name+".depth", 20)), Content: content,
	})
	return eb
}

// vp:check C03 both configs=version:ALLVERSIONS K=12 timeout=900
// vp:check C17 both configs=version:1|3|4|11|12 K=12 timeout=900
// vp_C03_roundtrip: a built event re-parses (untrusted, trusted, headered) to the same event, passes its field checks,
// and in v3+ its ID is unchanged by edits to unsigned, by an extra signature and by redaction, and has the version's
// alphabet; two builds differing in a hashed field get different IDs.
func vp_C03_roundtrip() {
	ver := RoomVersion(vpConfig("version"))
	verImpl, err := GetRoomVersion(ver)
	vpAssume(err == nil)
	_, privB := vpKey("origin")
	priv := ed25519.PrivateKey(privB)
	now := time.Unix(1700000000, 0)
	eb := vpProtoBuilder(verImpl, "e")
	ev, err := eb.Build(now, "x", "ed25519:1", priv)
	vpObserve("build-err", err)
	vpAssert("build-succeeds", err == nil)
	if err != nil {
		return
	}
	vpAssert("check-fields", CheckFields(ev) == nil)
	// the built event shows what the proto-event said
	vpAssert("built:type", ev.Type() == eb.Type)
	vpAssert("built:sender", string(ev.SenderID()) == eb.SenderID)
	vpAssert("built:room", ev.RoomID().String() == eb.RoomID)
	vpAssert("built:state_key", vpSameStateKey(ev.StateKey(), eb.StateKey))
	vpAssert("built:depth", ev.Depth() == eb.Depth)
	vpAssert("built:prev", vpSameStrings(ev.PrevEventIDs(), eb.PrevEvents.([]string)))
	wantAuth := eb.AuthEvents.([]string)
	if vpIsV12(ver) {
		// every non-create event of a v12 room reports the create event (room ID with the sigil swapped) first, then
		// the listed auth events (whether a listed create event is repeated is left open)
		createID := "$" + eb.RoomID[1:]
		gotAuth := ev.AuthEventIDs()
		vpAssert("built:create-event-first", len(gotAuth) > 0 && gotAuth[0] == createID)
		without := func(l []string) []string {
			out := []string{}
			for _, x := range l {
				if x != createID {
					out = append(out, x)
				}
			}
			return out
		}
		vpAssert("built:auth", vpSameStrings(without(gotAuth), without(wantAuth)))
	} else {
		vpAssert("built:auth", vpSameStrings(ev.AuthEventIDs(), wantAuth))
	}
	vpAssert("built-not-redacted", !ev.Redacted())
	// the JSON has the event format of the room version (the harness's own table): format 1 carries its event_id and
	// refers to other events by [id, hashes] pairs; format 2 carries no event_id and refers to them by ID
	var top map[string]spec.RawJSON
	vpAssert("built-json-parses", json.Unmarshal(ev.JSON(), &top) == nil)
	_, hasEventID := top["event_id"]
	vpAssert("format:event_id-key", hasEventID == (vpSpecTraits(ver).eventFormat == EventFormatV1))
	var prevRefs []interface{}
	vpAssert("format:prev_events-is-a-list", json.Unmarshal(top["prev_events"], &prevRefs) == nil && len(prevRefs) == 1)
	if len(prevRefs) == 1 {
		_, isID := prevRefs[0].(string)
		vpAssert("format:prev_events-by-id", isID == (vpSpecTraits(ver).eventFormat == EventFormatV2))
	}

	un, err := verImpl.NewEventFromUntrustedJSON(ev.JSON())
	vpAssert("untrusted-parse", err == nil)
	if err == nil {
		vpSameEvent("untrusted", ev, un)
	}
	tr, err := verImpl.NewEventFromTrustedJSON(ev.JSON(), false)
	vpAssert("trusted-parse", err == nil)
	if err == nil {
		vpSameEvent("trusted", ev, tr)
	}
	hj, err := ev.ToHeaderedJSON()
	vpAssert("headered", err == nil)
	if err == nil {
		he, err := NewEventFromHeaderedJSON(hj, false)
		vpAssert("headered-parse", err == nil)
		if err == nil {
			vpSameEvent("headered", ev, he)
			vpAssert("headered-version", he.Version() == ver)
		}
	}

	if vpSpecTraits(ver).idFormat != EventIDFormatV1 {
		id := ev.EventID()
		vpAssert("id-shape", len(id) == 44 && id[0] == '$')
		urlSafe := vpSpecTraits(ver).idFormat == EventIDFormatV3
		for i := 1; i < len(id); i++ {
			c := id[i]
			alnum := (c >= 'A' && c <= 'Z') || (c >= 'a' && c <= 'z') || (c >= '0' && c <= '9')
			if urlSafe {
				vpAssert("id-alphabet", alnum || c == '-' || c == '_')
			} else {
				vpAssert("id-alphabet", alnum || c == '+' || c == '/')
			}
		}
		// the ID is the base64 (alphabet of the version, chosen by the harness's own table) of the SHA-256 of the
		// canonical redacted event without signatures, unsigned and age_ts
		if red, rerr := verImpl.RedactEventJSON(ev.JSON()); rerr == nil {
			var m map[string]spec.RawJSON
			if json.Unmarshal(red, &m) == nil {
				delete(m, "signatures")
				delete(m, "unsigned")
				delete(m, "age_ts")
				if b, merr := json.Marshal(m); merr == nil {
					if c, cerr := CanonicalJSON(b); cerr == nil {
						h := sha256.Sum256(c)
						wantID := "$" + base64.RawStdEncoding.EncodeToString(h[:])
						if urlSafe {
							wantID = "$" + base64.RawURLEncoding.EncodeToString(h[:])
						}
						vpAssert("id-is-reference-hash", id == wantID)
					}
				}
			}
		}
		// unsigned edit
		e2, err := ev.SetUnsigned(map[string]interface{}{"age": int64(5)})
		vpAssert("set-unsigned", err == nil)
		if err == nil {
			vpAssert("id-after-unsigned", e2.EventID() == id)
			vpSameEvent("after-unsigned", ev, e2) // an unsigned edit changes nothing else the property names (room, first auth event, ...)
		}
		// extra signature
		_, priv2B := vpKey("other")
		e3 := ev.Sign("y", "ed25519:2", ed25519.PrivateKey(priv2B))
		vpAssert("id-after-signature", e3.EventID() == id)
		vpSameEvent("after-signature", ev, e3)
		// redaction
		r, err := verImpl.NewEventFromTrustedJSON(ev.JSON(), false)
		if err == nil {
			r.Redact()
			vpAssert("redacted-flag", r.Redacted())
			vpAssert("id-after-redaction", r.EventID() == id)
			vpAssert("redaction-keeps-type", r.Type() == ev.Type() && r.SenderID() == ev.SenderID())
		}
		// a second build that differs in depth gets a different ID; same fields get the same ID
		eb2 := *eb
		eb2.Depth = int64(vpNondetBits("e2.depth", 20))
		ev2, err := eb2.Build(now, "x", "ed25519:1", priv)
		if err == nil {
			vpAssert("id-injective-depth", (ev2.EventID() == id) == (eb2.Depth == eb.Depth))
		}
	}
	vpReach("done", true)
}
