//go:build verif

package gomatrixserverlib

import (
	"encoding/json"
	"errors"
	"time"

	"github.com/matrix-org/gomatrixserverlib/spec"
	"golang.org/x/crypto/ed25519"
)

// vp:check C04 both configs=version:ALLVERSIONS K=12 timeout=900
// vp_C04_hashfail: an untrusted event whose content hash fails surfaces only its redacted form (flag set, nothing
// outside the keep-lists visible through Content() or JSON()), with the ID and signature validity of the original; an
// event whose hash matches, also after keys that are stripped on receipt were added, is returned intact.
func vp_C04_hashfail() {
	ver := RoomVersion(vpConfig("version"))
	verImpl, err := GetRoomVersion(ver)
	vpAssume(err == nil)
	algo := vpRedactAlgo(ver)
	pubB, privB := vpKey("origin")
	pub, priv := ed25519.PublicKey(pubB), ed25519.PrivateKey(privB)
	eb := vpProtoBuilder(verImpl, "e")
	ev, err := eb.Build(time.Unix(1700000000, 0), "x", "ed25519:1", priv)
	vpAssume(err == nil)

	var m map[string]spec.RawJSON
	vpAssume(json.Unmarshal(ev.JSON(), &m) == nil)
	tamper := vpChoice("tamper", "none", "content-key", "extra-top-key", "top-level-redacts", "stripped-key", "hash")
	switch tamper {
	case "content-key":
		var c map[string]spec.RawJSON
		_ = json.Unmarshal(m["content"], &c)
		nb := vpNondetStringN("newbody", 2)
		var old string
		if _, has := c["body"]; has {
			_ = json.Unmarshal(c["body"], &old)
			vpAssume(nb != old)
		}
		c["body"] = vpJVal(nb)
		m["content"], _ = json.Marshal(c)
	case "extra-top-key":
		m["foo"] = vpJVal("bar")
	case "stripped-key":
		strippedKinds := []string{"unsigned", "age_ts", "outlier", "destinations"}
		if vpSpecTraits(ver).idFormat != EventIDFormatV1 {
			// where the ID is the reference hash, an event_id sent on the wire is stripped too
			strippedKinds = append(strippedKinds, "event_id")
		}
		switch vpChoice("stripped", strippedKinds...) {
		case "event_id":
			m["event_id"] = vpJVal("$forged:elsewhere")
		case "unsigned":
			m["unsigned"] = vpJObj("age", int64(3))
		case "age_ts":
			m["age_ts"] = vpJVal(int64(99))
		case "outlier":
			m["outlier"] = vpJVal(true)
		default:
			m["destinations"] = vpJArr("y")
		}
	case "top-level-redacts":
		// a redactable top-level key that has an accessor of its own
		m["redacts"] = vpJVal("$victim:x")
	case "hash":
		m["hashes"] = vpJObj("sha256", "AAAAAAAAAAAAAAAAAAAAAAAAAAAAAAAAAAAAAAAAAAA")
	}
	raw, err := json.Marshal(m)
	vpAssume(err == nil)
	got, err := verImpl.NewEventFromUntrustedJSON(raw)
	vpAssert("parses", err == nil)
	if err != nil {
		return
	}
	wantRedacted := tamper == "content-key" || tamper == "extra-top-key" || tamper == "hash" || tamper == "top-level-redacts"
	// material kept by redaction (hashes; in v11+ every content key of m.room.create) is covered by the event ID and the
	// signatures: altering it legitimately changes both
	protectedAltered := tamper == "hash" || (tamper == "content-key" && vpKeepContent(algo, ev.Type(), "body"))
	vpAssert("redacted-flag", got.Redacted() == wantRedacted)
	vpAssert("type", got.Type() == ev.Type())
	vpAssert("sender", got.SenderID() == ev.SenderID())
	vpAssert("room", got.RoomID().String() == ev.RoomID().String())
	vpAssert("state-key", vpSameStateKey(got.StateKey(), ev.StateKey()))
	// `hashes` itself is kept by redaction, so replacing it legitimately changes the ID and breaks the signature;
	// the "same ID / same signature validity" clause concerns alterations of redactable material only.
	if vpSpecTraits(ver).idFormat != EventIDFormatV1 && !protectedAltered {
		vpAssert("id-of-original", got.EventID() == ev.EventID())
	}
	if tamper == "top-level-redacts" && algo < 5 {
		vpAssert("tampered-redacts-not-observable", got.Redacts() == "")
	}
	vpAssert("sticky-not-observable", !got.IsSticky(time.Unix(1700000000, 0), time.Unix(1700000000, 0)))
	// visible content
	var c map[string]spec.RawJSON
	vpAssert("content-parses", json.Unmarshal(got.Content(), &c) == nil)
	_, hasBody := c["body"]
	_, hasMembership := c["membership"]
	var origC map[string]spec.RawJSON
	_ = json.Unmarshal(ev.Content(), &origC)
	_, origHasBody := origC["body"]
	if wantRedacted {
		bodyInInput := origHasBody || tamper == "content-key"
		vpAssert("body-hidden", hasBody == (bodyInInput && vpKeepContent(algo, got.Type(), "body")))
		vpAssert("membership-per-keeplist", hasMembership == vpKeepContent(algo, got.Type(), "membership"))
	} else {
		vpAssert("body-intact", hasBody == origHasBody && hasMembership)
	}
	var top map[string]spec.RawJSON
	vpAssert("json-parses", json.Unmarshal(got.JSON(), &top) == nil)
	_, hasFoo := top["foo"]
	vpAssert("extra-top-key-hidden", !hasFoo)
	for _, k := range []string{"unsigned", "age_ts", "outlier", "destinations"} {
		_, has := top[k]
		vpAssert("stripped-on-receipt", !has)
	}
	if vpSpecTraits(ver).idFormat != EventIDFormatV1 {
		_, has := top["event_id"]
		vpAssert("wire-event-id-stripped", !has)
	}
	// the origin's signature verifies on the redacted form of whatever was returned
	red, err := verImpl.RedactEventJSON(got.JSON())
	vpAssert("redactable", err == nil)
	if err == nil {
		vpAssert("signature-of-original", (VerifyJSON("x", "ed25519:1", pub, red) == nil) == !protectedAltered)
	}
	vpReach("redacted", got.Redacted())
	vpReach("intact", !got.Redacted())
}

// vp:check C04 both configs=version:1|4|10|12 K=12 timeout=900
// vp_C04_wide_field: the same guarantee for events that are "too large but persistable": a type or state key of more
// than 255 bytes but at most 255 code points (150 two-byte characters) makes parsing return the event together with a
// persistable validation error - and when the content hash fails, that event must still be the redacted form.
func vp_C04_wide_field() {
	ver := RoomVersion(vpConfig("version"))
	verImpl, err := GetRoomVersion(ver)
	vpAssume(err == nil)
	_, privB := vpKey("origin")
	eb := vpProtoBuilder(verImpl, "e")
	ev, err := eb.Build(time.Unix(1700000000, 0), "x", "ed25519:1", ed25519.PrivateKey(privB))
	vpAssume(err == nil)
	var m map[string]spec.RawJSON
	vpAssume(json.Unmarshal(ev.JSON(), &m) == nil)
	wide := ""
	for i := 0; i < 150; i++ {
		wide += "ä"
	}
	field := vpChoice("wide_field", "type", "state_key")
	m[field] = vpJVal(wide) // alters hashed material: the content hash fails
	m["foo"] = vpJVal("bar")
	var c map[string]spec.RawJSON
	_ = json.Unmarshal(m["content"], &c)
	c["body"] = vpJVal("injected")
	m["content"], _ = json.Marshal(c)
	raw, err := json.Marshal(m)
	vpAssume(err == nil)
	got, err := verImpl.NewEventFromUntrustedJSON(raw)
	var verr EventValidationError
	persistable := err != nil && errors.As(err, &verr) && verr.Persistable
	vpAssert("too-large-but-persistable", persistable && got != nil)
	if !persistable || got == nil {
		return
	}
	vpAssert("redacted-flag", got.Redacted())
	var gc map[string]spec.RawJSON
	vpAssert("content-parses", json.Unmarshal(got.Content(), &gc) == nil)
	_, hasBody := gc["body"]
	vpAssert("injected-content-hidden", hasBody == vpKeepContent(vpRedactAlgo(ver), got.Type(), "body"))
	var top map[string]spec.RawJSON
	vpAssert("json-parses", json.Unmarshal(got.JSON(), &top) == nil)
	_, hasFoo := top["foo"]
	vpAssert("extra-top-key-hidden", !hasFoo)
	vpReach("done", true)
}
