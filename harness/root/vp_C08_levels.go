//go:build verif

package gomatrixserverlib

import "github.com/matrix-org/gomatrixserverlib/spec"

// vpAnyLevelMap: a map with up to m entries; keys are arbitrary 2-byte strings (so keys of different maps may coincide
// or differ), levels arbitrary int64.
func vpAnyLevelMap(name string, m int) map[string]int64 {
	mp := map[string]int64{}
	for i := 0; i < m; i++ {
		if vpNondetBool(name + ".has" + string(rune('0'+i))) {
			mp[vpNondetStringN(name+".key"+string(rune('0'+i)), 2)] = vpNondetI64(name + ".lvl" + string(rune('0'+i)))
		}
	}
	return mp
}

// vpAnyPowerLevels: all scalar thresholds arbitrary; the map named by focus ("users", "events", "notif") has up to m
// arbitrary entries, the other two maps are empty (each focus is its own harness run, see configs).
func vpAnyPowerLevels(name string, m int, focus string) PowerLevelContent {
	mu, me, mn := 0, 0, 0
	switch focus {
	case "users":
		mu = m
	case "events":
		me = m
	case "notif":
		mn = m
	}
	return PowerLevelContent{
		Ban:           vpNondetI64(name + ".ban"),
		Invite:        vpNondetI64(name + ".invite"),
		Kick:          vpNondetI64(name + ".kick"),
		Redact:        vpNondetI64(name + ".redact"),
		UsersDefault:  vpNondetI64(name + ".users_default"),
		EventsDefault: vpNondetI64(name + ".events_default"),
		StateDefault:  vpNondetI64(name + ".state_default"),
		Users:         vpAnyLevelMap(name+".users", mu),
		Events:        vpAnyLevelMap(name+".events", me),
		Notifications: vpAnyLevelMap(name+".notif", mn),
	}
}

// vpLevelOK: a threshold may change only if both the old and the new value are <= the sender's level.
func vpLevelOK(old, new, senderLevel int64) bool {
	return old == new || (old <= senderLevel && new <= senderLevel)
}

// vp:check C08 quick configs=plcheck:v1|v2;focus:users|events|notif;m:1 K=12
// vp:check C08 both configs=plcheck:v3;focus:users;m:2 K=12 timeout=1200
// vp:check C08 thorough configs=plcheck:v1|v2;focus:users|events|notif;m:2 K=12 timeout=1800
// vp_C08_levels: whenever the three power-level checks accept (as powerLevelsEventAllowed chains them), no threshold
// and no user level has been raised above, or changed from above, the sender's current level.
func vp_C08_levels() {
	m := vpConfigInt("m")
	focus := vpConfig("focus")
	old := vpAnyPowerLevels("old", m, focus)
	new := vpAnyPowerLevels("new", m, focus)
	sender := vpNondetStringN("sender", 2)
	senderLevel := old.UserLevel(spec.SenderID(sender))

	err := checkEventLevels(senderLevel, old, new)
	creator, extraCreator := vpNondetStringN("creator", 2), vpNondetStringN("additional_creator", 2)
	if err == nil && vpConfig("plcheck") == "v2" {
		// versions 6-11: whoever sent the create event (possibly the sender itself) has no special standing
		create := vpMkEvent(RoomVersionV10, "$create:x", vpRoom, creator, spec.MRoomCreate, vpStrPtr(""), vpJObj("room_version", "10"))
		err = checkPowerLevelEventV2(sender, create, old, new)
	}
	// v3 (room version 12): additionally no creator - the sender of the create event or an additional creator - may
	// be named in the new users map, whatever the old content looked like
	if err == nil && vpConfig("plcheck") == "v3" {
		create := vpMkEvent(RoomVersionV12, vpCreateID12, "", creator, spec.MRoomCreate, vpStrPtr(""), vpJObj("room_version", "12", "additional_creators", vpJArr(extraCreator)))
		err = checkPowerLevelEventV3(sender, create, old, new)
	}
	if err == nil {
		err = checkUserLevels(senderLevel, spec.SenderID(sender), old, new)
	}
	accepted := err == nil
	vpReach("accepted-with-change", accepted && old.Ban != new.Ban)
	vpReach("rejected", !accepted)
	if !accepted {
		return
	}
	if vpConfig("plcheck") == "v3" {
		for u := range new.Users {
			vpAssert("no-creator-in-users", u != creator && u != extraCreator)
		}
	}
	vpAssert("ban", vpLevelOK(old.Ban, new.Ban, senderLevel))
	vpAssert("kick", vpLevelOK(old.Kick, new.Kick, senderLevel))
	vpAssert("invite", vpLevelOK(old.Invite, new.Invite, senderLevel))
	vpAssert("redact", vpLevelOK(old.Redact, new.Redact, senderLevel))
	vpAssert("events_default", vpLevelOK(old.EventsDefault, new.EventsDefault, senderLevel))
	vpAssert("state_default", vpLevelOK(old.StateDefault, new.StateDefault, senderLevel))
	// (fixed: KF-C08-1 - users_default was not among the levels the library compares)
	vpAssert("users_default", vpLevelOK(old.UsersDefault, new.UsersDefault, senderLevel))
	for k := range old.Events {
		vpAssert("events-old-key", vpLevelOK(old.EventLevel(k, false), new.EventLevel(k, false), senderLevel))
	}
	for k := range new.Events {
		vpAssert("events-new-key", vpLevelOK(old.EventLevel(k, false), new.EventLevel(k, false), senderLevel))
	}
	if vpConfig("plcheck") != "v1" {
		for k := range old.Notifications {
			vpAssert("notif-old-key", vpLevelOK(old.NotificationLevel(k), new.NotificationLevel(k), senderLevel))
		}
		for k := range new.Notifications {
			vpAssert("notif-new-key", vpLevelOK(old.NotificationLevel(k), new.NotificationLevel(k), senderLevel))
		}
	}
	// user levels: listed users only (the effect of users_default on unlisted users is KF-C08-1)
	checkUser := func(u string) {
		o, n := old.UserLevel(spec.SenderID(u)), new.UserLevel(spec.SenderID(u))
		if o == n {
			return
		}
		vpAssert("user-new-level", n <= senderLevel)
		if u != sender {
			vpAssert("user-old-level", o < senderLevel)
		}
	}
	for u := range old.Users {
		checkUser(u)
	}
	for u := range new.Users {
		checkUser(u)
	}
}

// vp:check C08 both configs=version:1|6|9|10|11|12|org.matrix.hydra.11 K=12 timeout=900
// vp_C08_integer_levels: from room version 10 on, a power-levels event is accepted only if every level in it is a
// JSON integer. One level of an otherwise harmless change (Alice, level 100, lowers / sets something to 5) is given
// as null, a string, a fraction, an exponent spelling, a boolean, an object - in each of the places a level can stand.
// Before version 10 levels are read the way Python's int() reads them: strings, fractions and exponent spellings count
// with their integer value (5), null / booleans / objects are refused - and a number beyond every level (1e19, which
// does not fit 64 bits) is a level above the sender's and must be refused too, not wrapped around.
func vp_C08_integer_levels() {
	ver := RoomVersion(vpConfig("version"))
	room, create := vpRoom, "$create:x"
	createContent := vpJObj("creator", vpCarol, "room_version", string(ver))
	if vpIsV12(ver) {
		room, create = vpRoomIDFor(ver, vpCreateID12), vpCreateID12
		createContent = vpJObj("room_version", string(ver))
	}
	auth, _ := NewAuthEvents(nil)
	createRoom := room
	if vpIsV12(ver) {
		createRoom = ""
	}
	_ = auth.AddEvent(vpMkEvent(ver, create, createRoom, vpCarol, spec.MRoomCreate, vpStrPtr(""), createContent))
	oldPL := vpJObj("users", vpJObj(vpAlice, int64(100), vpBob, int64(10)), "ban", int64(50), "events", vpJObj("m.room.name", int64(50)), "notifications", vpJObj("room", int64(50)))
	_ = auth.AddEvent(vpMkEvent(ver, "$pl:x", room, vpCarol, spec.MRoomPowerLevels, vpStrPtr(""), oldPL))
	_ = auth.AddEvent(vpMkEvent(ver, "$ma:x", room, vpAlice, spec.MRoomMember, vpStrPtr(vpAlice), vpJObj("membership", spec.Join)))

	kind := vpChoice("kind", "integer", "null", "string", "fraction", "exponent", "boolean", "object", "huge-exponent", "huge-negative-exponent")
	var lvl interface{}
	switch kind {
	case "integer":
		lvl = int64(5)
	case "null":
		lvl = nil
	case "string":
		lvl = "5"
	case "fraction":
		lvl = vpJNumLit("5.5")
	case "exponent":
		lvl = vpJNumLit("5e0")
	case "boolean":
		lvl = true
	case "huge-exponent":
		lvl = vpJNumLit("1e19")
	case "huge-negative-exponent":
		lvl = vpJNumLit("-1e19")
	default:
		lvl = vpJObj()
	}
	users, ban, events, notif := vpJObj(vpAlice, int64(100), vpBob, int64(10)), interface{}(int64(50)), vpJObj("m.room.name", int64(50)), vpJObj("room", int64(50))
	var extra []interface{}
	where := vpChoice("where", "ban", "users", "events", "notifications", "users_default", "state_default", "invite")
	switch where {
	case "ban":
		ban = lvl
	case "users":
		users = vpJObj(vpAlice, int64(100), vpBob, lvl)
	case "events":
		events = vpJObj("m.room.name", lvl)
	case "notifications":
		notif = vpJObj("room", lvl)
	default:
		extra = []interface{}{where, lvl}
	}
	kv := append([]interface{}{"users", users, "ban", ban, "events", events, "notifications", notif}, extra...)
	ev := vpMkEvent(ver, "$npl:x", room, vpAlice, spec.MRoomPowerLevels, vpStrPtr(""), vpJObj(kv...))
	got := Allowed(ev, auth, vpUserIDForSender) == nil
	if n, _ := vpVerNum(ver); n >= 10 || vpIsV12(ver) {
		vpAssert("accepted-iff-integer", got == (kind == "integer"))
	} else {
		switch kind {
		case "integer", "string", "fraction", "exponent":
			vpAssert("lenient-spellings-count-as-5", got)
		case "huge-exponent":
			vpAssert("level-beyond-64-bits-is-above-the-sender", !got)
		case "huge-negative-exponent":
			// far below every level: lowering something to it is allowed by the rules; refusing it as unrepresentable is fine too
		default:
			vpAssert("not-a-number-refused", !got)
		}
	}
	vpReach("accepted", got)
	vpReach("rejected", !got)
}
