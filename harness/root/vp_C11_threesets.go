//go:build verif

package gomatrixserverlib

import "github.com/matrix-org/gomatrixserverlib/spec"

var vpPerms3x = [][]int{{0, 1, 2}, {0, 2, 1}, {1, 0, 2}, {1, 2, 0}, {2, 0, 1}, {2, 1, 0}}

// vp:check C10 both configs=version:2|10 K=24 timeout=1200 maporder=github.com/matrix-org/gomatrixserverlib.ResolveStateConflictsV2New|github.com/matrix-org/gomatrixserverlib.splitConflictedUnconflicted|github.com/matrix-org/gomatrixserverlib.eventMapFromEvents|github.com/matrix-org/gomatrixserverlib.kahnsAlgorithmUsingAuthEvents|github.com/matrix-org/gomatrixserverlib.kahnsAlgorithmUsingPrevEvents
// vp:check C11 both configs=version:2|10 K=24 timeout=1200 maporder=github.com/matrix-org/gomatrixserverlib.ResolveStateConflictsV2New|github.com/matrix-org/gomatrixserverlib.splitConflictedUnconflicted|github.com/matrix-org/gomatrixserverlib.eventMapFromEvents|github.com/matrix-org/gomatrixserverlib.kahnsAlgorithmUsingAuthEvents|github.com/matrix-org/gomatrixserverlib.kahnsAlgorithmUsingPrevEvents
// vp_C11_three_sets: three state sets. Alice's PL2 (in no state set, only in auth chains) promotes Bob and Charlie; set 1
// holds Bob's PL3B, set 3 Charlie's PL3C (both authorised by PL2), set 2 forked earlier and holds Alice's PL1B. The
// auth difference must contain PL2 (it is missing from set 2's chain only), so PL3B/PL3C pass their auth checks; the
// result is the same for all six orders of the sets and equals the power-levels event the v2 algorithm defines (the
// topologically last authorised one: PL3C, given the timestamps).
func vp_C11_three_sets() {
	ver := RoomVersion(vpConfig("version"))
	h := vpBaseRoom(ver)
	mk := func(id, sender, typ string, sk *string, content []byte, auth []string, ts uint64, depth int64) PDU {
		return vpSetAuth(vpMkEvent(ver, id, h.room, sender, typ, sk, content), auth, ts, depth)
	}
	pl1 := h.pl.EventID()
	bj := mk("$bj:x", vpBob, spec.MRoomMember, vpStrPtr(vpBob), vpJObj("membership", spec.Join), []string{h.createID, pl1}, 4, 4)
	cj := mk("$cj:y", vpCarol, spec.MRoomMember, vpStrPtr(vpCarol), vpJObj("membership", spec.Join), []string{h.createID, pl1}, 5, 5)
	// join rules public so that Bob and Carol may join
	jr := mk("$jr:x", vpAlice, spec.MRoomJoinRules, vpStrPtr(""), vpJObj("join_rule", spec.Public), []string{h.createID, "$join:x", pl1}, 3, 3)
	bj = vpSetAuth(bj, []string{h.createID, pl1, "$jr:x"}, 4, 4)
	cj = vpSetAuth(cj, []string{h.createID, pl1, "$jr:x"}, 5, 5)
	users := func(a, b, c int64) []byte { return vpJObj("users", vpJObj(vpAlice, a, vpBob, b, vpCarol, c), "state_default", int64(50)) }
	pl2 := mk("$pl2:x", vpAlice, spec.MRoomPowerLevels, vpStrPtr(""), users(100, 100, 100), []string{h.createID, "$join:x", pl1}, 21, 6)
	pl1b := mk("$pl1b:x", vpAlice, spec.MRoomPowerLevels, vpStrPtr(""), users(100, 0, 0), []string{h.createID, "$join:x", pl1}, 20, 6)
	withKey := func(k string) []byte {
		return vpJObj("users", vpJObj(vpAlice, int64(100), vpBob, int64(100), vpCarol, int64(100)), "state_default", int64(50), k, int64(60))
	}
	pl3b := mk("$pl3b:x", vpBob, spec.MRoomPowerLevels, vpStrPtr(""), withKey("ban"), []string{h.createID, "$bj:x", "$pl2:x"}, 30, 7)
	pl3c := mk("$pl3c:y", vpCarol, spec.MRoomPowerLevels, vpStrPtr(""), withKey("kick"), []string{h.createID, "$cj:y", "$pl2:x"}, 31, 7)
	common := []PDU{h.create, h.join, jr, bj, cj}
	s1 := append(append([]PDU{}, common...), pl3b)
	s2 := append(append([]PDU{}, common...), pl1b)
	s3 := append(append([]PDU{}, common...), pl3c)
	sets := [][]PDU{s1, s2, s3}
	auth := append(append([]PDU{}, common...), h.pl, pl2)

	resolve := func(p []int) (map[string]bool, bool) {
		vpMapOrderReset()
		r, err := ResolveConflictsNew(ver, [][]PDU{sets[p[0]], sets[p[1]], sets[p[2]]}, auth, vpUserIDForSender, vpNotRejected)
		return vpIDSet(r), err == nil
	}
	ref, ok := resolve(vpPerms3x[0])
	vpAssert("no-error", ok)
	for k := range ref {
		vpObserve("resolved", k)
	}
	p := vpPerms3x[vpNondetInt("perm", 1, 5)]
	got, ok2 := resolve(p)
	vpAssert("no-error-2", ok2)
	same := len(ref) == len(got)
	for k := range ref {
		if !got[k] {
			same = false
		}
	}
	vpAssert("independent-of-set-order", same)
	vpAssert("auth-difference-applied", ref["$pl3c:y"] && !ref["$pl1b:x"] && !ref["$pl3b:x"])
	for _, e := range common {
		vpAssert("agreed-events-kept", ref[e.EventID()])
	}
	vpReach("done", true)
}

// vp:check C10 both K=24 timeout=900
// vp:check C11 both K=24 timeout=900
// vp_C10_v1_block: state resolution v1 on three state sets that differ in the power-levels event. The candidates are
// taken in order of depth; the first one is the starting point, each further one is adopted if it passes the auth
// check against the state built so far, and the scan stops at the first candidate that fails. Candidate B (by a user
// of level 0, or by Alice) sits between A and C in depth. The result does not depend on the order of the sets.
func vp_C10_v1_block() {
	ver := RoomVersionV1
	h := vpBaseRoom(ver)
	bobJoin := vpSetAuth(vpMkEvent(ver, "$bj:x", h.room, vpBob, spec.MRoomMember, vpStrPtr(vpBob), vpJObj("membership", spec.Join)), []string{h.createID, "$pl:x"}, 4, 4)
	agreed := []PDU{h.create, h.join, bobJoin}
	mk := func(id, sender string, depth int64, note string) PDU {
		c := vpJObj("users", vpJObj(vpAlice, int64(100)), "state_default", int64(50), "events_default", int64(0), "note", note)
		return vpSetAuth(vpMkEvent(ver, id, h.room, sender, spec.MRoomPowerLevels, vpStrPtr(""), c), []string{h.createID, "$join:x", "$pl:x", "$bj:x"}, uint64(depth), depth)
	}
	bBy := vpChoice("middle_candidate_by", vpBob, vpAlice) // Bob has level 0: his candidate fails the auth check
	pa := h.pl                                              // depth 3, by Alice: the base power levels
	pb := mk("$plb:x", bBy, 5, "b")
	pc := mk("$plc:x", vpAlice, 6, "c")
	sets := [][]PDU{append(append([]PDU{}, agreed...), pa), append(append([]PDU{}, agreed...), pb), append(append([]PDU{}, agreed...), pc)}
	auth := append(append([]PDU{}, agreed...), pa)
	perm := vpChoice("set_order", "abc", "cba", "bca")
	ordered := sets
	switch perm {
	case "cba":
		ordered = [][]PDU{sets[2], sets[1], sets[0]}
	case "bca":
		ordered = [][]PDU{sets[1], sets[2], sets[0]}
	}
	res, err := ResolveConflictsNew(ver, ordered, auth, vpUserIDForSender, vpNotRejected)
	vpAssert("no-error", err == nil)
	got := vpIDSet(res)
	want := "$plc:x" // A, then B (passes), then C (passes)
	if bBy == vpBob {
		want = "$pl:x" // B fails: the scan stops, C is never considered
	}
	n := 0
	for _, id := range []string{"$pl:x", "$plb:x", "$plc:x"} {
		if got[id] {
			n++
		}
	}
	vpAssert("one-power-levels-event", n == 1)
	vpAssert("v1-stops-at-first-failing-candidate", got[want])
	for _, e := range agreed {
		vpAssert("agreed-events-kept", got[e.EventID()])
	}
	vpReach("b-fails", bBy == vpBob)
	vpReach("all-pass", bBy == vpAlice)
}
