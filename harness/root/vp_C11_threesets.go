//go:build verif

package gomatrixserverlib

import "github.com/matrix-org/gomatrixserverlib/spec"

var vpPerms3x = [][]int{{0, 1, 2}, {0, 2, 1}, {1, 0, 2}, {1, 2, 0}, {2, 0, 1}, {2, 1, 0}}

// vp:check C10 both configs=version:2|10 K=24 timeout=1200 maporder=github.com/matrix-org/gomatrixserverlib.ResolveStateConflictsV2New|github.com/matrix-org/gomatrixserverlib.splitConflictedUnconflicted|github.com/matrix-org/gomatrixserverlib.eventMapFromEvents|github.com/matrix-org/gomatrixserverlib.kahnsAlgorithmUsingAuthEvents|github.com/matrix-org/gomatrixserverlib.kahnsAlgorithmUsingPrevEvents
// vp:check C11 both configs=version:2|10 K=24 timeout=1200 maporder=github.com/matrix-org/gomatrixserverlib.ResolveStateConflictsV2New|github.com/matrix-org/gomatrixserverlib.splitConflictedUnconflicted|github.com/matrix-org/gomatrixserverlib.eventMapFromEvents|github.com/matrix-org/gomatrixserverlib.kahnsAlgorithmUsingAuthEvents|github.com/matrix-org/gomatrixserverlib.kahnsAlgorithmUsingPrevEvents
// vp_C11_three_sets: three state sets. Alice's PL2 (in no state set, only in auth chains) promotes Bob and Charlie; set 1
// holds Bob's PL3B, set 3 Charlie's PL3C (both authorised by PL2), set 2 forked earlier and holds Alice's PL1B. The
// auth difference must contain PL2 (it is missing from set 2's chain only), so PL3B/PL3C pass their auth checks; the
// result is the same for all six orders of the sets and equals the power-levels event the v2 algorithm defines (the
// topologically last authorised one: PL3C, given the timestamps).
func vp_C11_three_sets() {
	ver := RoomVersion(vpConfig("version"))
	h := vpBaseRoom(ver)
	mk := func(id, sender, typ string, sk *string, content []byte, auth []string, ts uint64, depth int64) PDU {
		return vpSetAuth(vpMkEvent(ver, id, h.room, sender, typ, sk, content), auth, ts, depth)
	}
	pl1 := h.pl.EventID()
	bj := mk("$bj:x", vpBob, spec.MRoomMember, vpStrPtr(vpBob), vpJObj("membership", spec.Join), []string{h.createID, pl1}, 4, 4)
	cj := mk("$cj:y", vpCarol, spec.MRoomMember, vpStrPtr(vpCarol), vpJObj("membership", spec.Join), []string{h.createID, pl1}, 5, 5)
	// join rules public so that Bob and Carol may join
	jr := mk("$jr:x", vpAlice, spec.MRoomJoinRules, vpStrPtr(""), vpJObj("join_rule", spec.Public), []string{h.createID, "$join:x", pl1}, 3, 3)
	bj = vpSetAuth(bj, []string{h.createID, pl1, "$jr:x"}, 4, 4)
	cj = vpSetAuth(cj, []string{h.createID, pl1, "$jr:x"}, 5, 5)
	users := func(a, b, c int64) []byte { return vpJObj("users", vpJObj(vpAlice, a, vpBob, b, vpCarol, c), "state_default", int64(50)) }
	pl2 := mk("$pl2:x", vpAlice, spec.MRoomPowerLevels, vpStrPtr(""), users(100, 100, 100), []string{h.createID, "$join:x", pl1}, 21, 6)
	pl1b := mk("$pl1b:x", vpAlice, spec.MRoomPowerLevels, vpStrPtr(""), users(100, 0, 0), []string{h.createID, "$join:x", pl1}, 20, 6)
	withKey := func(k string) []byte {
		return vpJObj("users", vpJObj(vpAlice, int64(100), vpBob, int64(100), vpCarol, int64(100)), "state_default", int64(50), k, int64(60))
	}
	pl3b := mk("$pl3b:x", vpBob, spec.MRoomPowerLevels, vpStrPtr(""), withKey("ban"), []string{h.createID, "$bj:x", "$pl2:x"}, 30, 7)
	pl3c := mk("$pl3c:y", vpCarol, spec.MRoomPowerLevels, vpStrPtr(""), withKey("kick"), []string{h.createID, "$cj:y", "$pl2:x"}, 31, 7)
	common := []PDU{h.create, h.join, jr, bj, cj}
	s1 := append(append([]PDU{}, common...), pl3b)
	s2 := append(append([]PDU{}, common...), pl1b)
	s3 := append(append([]PDU{}, common...), pl3c)
	sets := [][]PDU{s1, s2, s3}
	auth := append(append([]PDU{}, common...), h.pl, pl2)

	resolve := func(p []int) (map[string]bool, bool) {
		vpMapOrderReset()
		r, err := ResolveConflictsNew(ver, [][]PDU{sets[p[0]], sets[p[1]], sets[p[2]]}, auth, vpUserIDForSender, vpNotRejected)
		return vpIDSet(r), err == nil
	}
	ref, ok := resolve(vpPerms3x[0])
	vpAssert("no-error", ok)
	for k := range ref {
		vpObserve("resolved", k)
	}
	p := vpPerms3x[vpNondetInt("perm", 1, 5)]
	got, ok2 := resolve(p)
	vpAssert("no-error-2", ok2)
	same := len(ref) == len(got)
	for k := range ref {
		if !got[k] {
			same = false
		}
	}
	vpAssert("independent-of-set-order", same)
	vpAssert("auth-difference-applied", ref["$pl3c:y"] && !ref["$pl1b:x"] && !ref["$pl3b:x"])
	for _, e := range common {
		vpAssert("agreed-events-kept", ref[e.EventID()])
	}
	vpReach("done", true)
}
