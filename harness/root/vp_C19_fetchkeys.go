//go:build verif

package gomatrixserverlib

import (
	"context"
	"errors"

	"github.com/matrix-org/gomatrixserverlib/spec"
)

// vpC19Client: scripted key client. A server's direct fetch and its notary fall-back each fail or succeed as scripted.
type vpC19Client struct {
	keys       map[spec.ServerName]ServerKeys
	directFail map[spec.ServerName]bool
	notaryFail map[spec.ServerName]bool
}

func (c *vpC19Client) GetServerKeys(ctx context.Context, s spec.ServerName) (ServerKeys, error) {
	if c.directFail[s] {
		return ServerKeys{}, errors.New("unreachable")
	}
	return c.keys[s], nil
}

func (c *vpC19Client) LookupServerKeys(ctx context.Context, s spec.ServerName, reqs map[PublicKeyLookupRequest]spec.Timestamp) ([]ServerKeys, error) {
	if c.notaryFail[s] {
		return nil, errors.New("notary unreachable")
	}
	return []ServerKeys{c.keys[s]}, nil
}

// vp:check C19 quick configs=servers:1|2 K=24 timeout=1200 maporder=(*github.com/matrix-org/gomatrixserverlib.DirectKeyFetcher).FetchKeys
// vp:check C19 thorough configs=servers:1|2|3 K=24 timeout=2400 maporder=(*github.com/matrix-org/gomatrixserverlib.DirectKeyFetcher).FetchKeys
// vp_C19_fetchkeys: DirectKeyFetcher.FetchKeys over its worker pool returns exactly the union of the per-server
// results that succeeded (direct fetch, else notary fall-back), plus the local key for local requests, for every
// failure pattern (two symbolic flags per server) and every order in which the workers run (goroutines
// sequentialised: each worker runs to completion, all orders; map iteration of the job queue in three orders).
// No deadlock, no panic, WaitGroup balanced.
func vp_C19_fetchkeys() {
	n := vpConfigInt("servers")
	names := []spec.ServerName{"a", "b", "c"}[:n]
	cl := &vpC19Client{keys: map[spec.ServerName]ServerKeys{}, directFail: map[spec.ServerName]bool{}, notaryFail: map[spec.ServerName]bool{}}
	reqs := map[PublicKeyLookupRequest]spec.Timestamp{}
	pubs := map[spec.ServerName]string{}
	for _, s := range names {
		sk, pub := vpServerKeys(s, true, "none")
		cl.keys[s] = sk
		pubs[s] = string(pub)
		cl.directFail[s] = vpNondetBool("direct_fail." + string(s))
		cl.notaryFail[s] = vpNondetBool("notary_fail." + string(s))
		reqs[PublicKeyLookupRequest{s, "ed25519:1"}] = 0
	}
	withLocal := vpNondetBool("with_local")
	if withLocal {
		reqs[PublicKeyLookupRequest{"local", "ed25519:l"}] = 0
	}
	lpub, _ := vpKey("local")
	f := &DirectKeyFetcher{Client: cl, IsLocalServerName: func(s spec.ServerName) bool { return s == "local" }, LocalPublicKey: spec.Base64Bytes(lpub)}
	res, err := f.FetchKeys(context.Background(), reqs)
	vpAssert("no-error", err == nil)
	want := 0
	for _, s := range names {
		r, ok := res[PublicKeyLookupRequest{s, "ed25519:1"}]
		fetched := !(cl.directFail[s] && cl.notaryFail[s])
		vpAssert("present-iff-fetched", ok == fetched)
		if ok {
			vpAssert("right-key", string(r.Key) == pubs[s])
		}
		if fetched {
			want++
		}
	}
	lr, lok := res[PublicKeyLookupRequest{"local", "ed25519:l"}]
	vpAssert("local-iff-requested", lok == withLocal)
	if lok {
		vpAssert("local-key", string(lr.Key) == string(lpub))
		want++
	}
	vpAssert("nothing-else", len(res) == want)
	vpReach("some-failed", want < n)
	vpReach("all-fetched", want == n && n > 0)
}

// vp:check C19 both configs=pattern:first-fail|last-fail|alternate K=80 timeout=1800 maporder=(*github.com/matrix-org/gomatrixserverlib.DirectKeyFetcher).FetchKeys
// vp_C19_fetchkeys_pool: the same claim beyond the size of the worker pool (64): 66 remote servers of which 64 fail
// both ways (concrete pattern), so that some worker must outlive a failure for the two reachable servers to be
// fetched whatever their position in the queue. Workers run in three rotations of their spawn order, the queue is
// filled in three map orders.
func vp_C19_fetchkeys_pool() {
	const n = 66
	pattern := vpConfig("pattern")
	cl := &vpC19Client{keys: map[spec.ServerName]ServerKeys{}, directFail: map[spec.ServerName]bool{}, notaryFail: map[spec.ServerName]bool{}}
	reqs := map[PublicKeyLookupRequest]spec.Timestamp{}
	pubs := map[spec.ServerName]string{}
	digits := "0123456789"
	good := 0
	for i := 0; i < n; i++ {
		s := spec.ServerName("s" + digits[i/10:i/10+1] + digits[i%10:i%10+1])
		var fail bool
		switch pattern {
		case "first-fail":
			fail = i < 64
		case "last-fail":
			fail = i >= 2
		default:
			fail = i != 21 && i != 44
		}
		cl.directFail[s], cl.notaryFail[s] = fail, fail
		if !fail {
			sk, pub := vpServerKeys(s, true, "none")
			cl.keys[s] = sk
			pubs[s] = string(pub)
			good++
		}
		reqs[PublicKeyLookupRequest{s, "ed25519:1"}] = 0
	}
	f := &DirectKeyFetcher{Client: cl, IsLocalServerName: func(s spec.ServerName) bool { return false }}
	res, err := f.FetchKeys(context.Background(), reqs)
	vpAssert("no-error", err == nil)
	vpAssert("exactly-the-reachable-servers", len(res) == good)
	for s, pub := range pubs {
		r, ok := res[PublicKeyLookupRequest{s, "ed25519:1"}]
		vpAssert("reachable-server-fetched", ok && string(r.Key) == pub)
	}
	vpReach("done", good == 2)
}
