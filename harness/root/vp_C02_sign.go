//go:build verif

package gomatrixserverlib

import (
	"bytes"
	"encoding/json"

	"github.com/matrix-org/gomatrixserverlib/spec"
	"golang.org/x/crypto/ed25519"
)

// vpC02Object: an object with two ordinary members (one with an arbitrary 3-byte name, so it may or may not be called
// anything special), optionally a number member (see below), optionally `unsigned` and optionally pre-existing signatures of another entity.
func vpC02Object(k string, hasUnsigned, hasOldSig bool) []byte {
	args := []interface{}{"a", vpNondetStringN("a.val", 2), k, vpNondetStringN("k.val", 2)}
	// a number among the signed members, in spellings that do not survive a trip through float64 / re-printing
	// (signing and verifying must work on the text as given), at the top level or nested
	var num interface{}
	switch vpChoice("number", "none", "small", "2^53+1", "max-u64", "1.0", "1e2", "0.10") {
	case "small":
		num = int64(vpNondetBits("n.small", 20))
	case "2^53+1":
		num = vpJNumLit("9007199254740993")
	case "max-u64":
		num = vpJNumLit("18446744073709551615")
	case "1.0":
		num = vpJNumLit("1.0")
	case "1e2":
		num = vpJNumLit("1e2")
	case "0.10":
		num = vpJNumLit("0.10")
	}
	if num != nil {
		if vpNondetBool("number_nested") {
			args = append(args, "n", vpJObj("deep", vpJArr(num)))
		} else {
			args = append(args, "n", num)
		}
	}
	if hasUnsigned {
		args = append(args, "unsigned", vpJObj("age", vpNondetI64("age")))
	}
	if hasOldSig {
		args = append(args, "signatures", vpJObj("other.example", vpJObj("ed25519:old", "b2xkc2ln")))
	}
	return vpJObj(args...)
}

// vp:check C02 both K=12 timeout=900
// vp_C02_sign_verify: completeness for the signer (also after a second signer and after `unsigned` changes; earlier
// signatures and `unsigned` are preserved) and soundness against a wrong name / key ID / key and against a change of,
// an addition to, or a removal from the signed members. Idealised ed25519; JSON as J2 values.
func vp_C02_sign_verify() {
	k := vpNondetStringN("k", 3)
	for i := 0; i < 3; i++ {
		vpAssume(k[i] >= 'a' && k[i] <= 'z') // member names: lower-case ASCII (bound); "a" and "n" are taken
	}
	hasUnsigned := vpNondetBool("has_unsigned")
	hasOldSig := vpNondetBool("has_old_sig")
	obj := vpC02Object(k, hasUnsigned, hasOldSig)
	pubB, privB := vpKey("signer")
	pub, priv := ed25519.PublicKey(pubB), ed25519.PrivateKey(privB)
	pub2B, priv2B := vpKey("second")
	pub2, priv2 := ed25519.PublicKey(pub2B), ed25519.PrivateKey(priv2B)

	signed, err := SignJSON("signer.example", "ed25519:k1", priv, obj)
	vpAssert("sign-succeeds", err == nil)
	if err != nil {
		return
	}
	vpAssert("verifies", VerifyJSON("signer.example", "ed25519:k1", pub, signed) == nil)
	ids, err := ListKeyIDs("signer.example", signed)
	vpAssert("key-id-listed", err == nil && len(ids) == 1 && ids[0] == "ed25519:k1")
	// wrong name / key id / key
	// every other name: unrelated, differing only in letter case, with a trailing dot, and one whose first and last
	// byte are solver-chosen (anything but the signer's)
	for _, other := range []string{"other.example", "Signer.example", "SIGNER.EXAMPLE", "signer.examplE", "signer.example."} {
		vpAssert("wrong-name-fails", VerifyJSON(other, "ed25519:k1", pub, signed) != nil)
	}
	first, last := vpNondetU8("othername.first"), vpNondetU8("othername.last")
	vpAssume(first >= 0x21 && first < 0x7F && last >= 0x21 && last < 0x7F && (first != 's' || last != 'e'))
	vpAssert("wrong-name-fails", VerifyJSON(string([]byte{first})+"igner.exampl"+string([]byte{last}), "ed25519:k1", pub, signed) != nil)
	vpAssert("wrong-keyid-fails", VerifyJSON("signer.example", "ed25519:k2", pub, signed) != nil)
	vpAssert("wrong-key-fails", VerifyJSON("signer.example", "ed25519:k1", pub2, signed) != nil)

	// preserved material
	var view map[string]spec.RawJSON
	vpAssert("signed-parses", json.Unmarshal(signed, &view) == nil)
	if hasUnsigned {
		var orig map[string]spec.RawJSON
		_ = json.Unmarshal(obj, &orig)
		vpAssert("unsigned-preserved", bytes.Equal(view["unsigned"], orig["unsigned"]))
	}
	if hasOldSig {
		oldIDs, _ := ListKeyIDs("other.example", signed)
		vpAssert("old-signature-preserved", len(oldIDs) == 1 && oldIDs[0] == "ed25519:old")
	}

	// a second signer
	signed2, err := SignJSON("second.example", "ed25519:k9", priv2, signed)
	vpAssert("second-sign-succeeds", err == nil)
	if err == nil {
		vpAssert("first-still-verifies", VerifyJSON("signer.example", "ed25519:k1", pub, signed2) == nil)
		vpAssert("second-verifies", VerifyJSON("second.example", "ed25519:k9", pub2, signed2) == nil)
	}

	// the same entity signs again with a rotated key: the signature under the first key ID stays
	pub3B, priv3B := vpKey("signer-rotated")
	signed3, err := SignJSON("signer.example", "ed25519:k2", ed25519.PrivateKey(priv3B), signed)
	vpAssert("rotated-sign-succeeds", err == nil)
	if err == nil {
		vpAssert("first-key-still-verifies-after-rotation", VerifyJSON("signer.example", "ed25519:k1", pub, signed3) == nil)
		vpAssert("rotated-key-verifies", VerifyJSON("signer.example", "ed25519:k2", ed25519.PublicKey(pub3B), signed3) == nil)
		ids3, _ := ListKeyIDs("signer.example", signed3)
		vpAssert("both-key-ids-listed", len(ids3) == 2)
	}
	// re-signing with the same key ID replaces that signature only
	signed4, err := SignJSON("signer.example", "ed25519:k1", priv, signed)
	vpAssert("re-sign-same-key", err == nil && VerifyJSON("signer.example", "ed25519:k1", pub, signed4) == nil)

	// mutations of the signed object (as a member map re-serialised)
	mut := vpChoice("mutation", "change-unsigned", "change-member", "add-member", "delete-member")
	var m map[string]spec.RawJSON
	_ = json.Unmarshal(signed, &m)
	switch mut {
	case "change-unsigned":
		m["unsigned"] = vpJObj("age", vpNondetI64("age2"), "x", "y")
	case "change-member":
		nv := vpNondetStringN("a.newval", 2)
		var old string
		_ = json.Unmarshal(m["a"], &old)
		vpAssume(nv != old)
		m["a"] = vpJVal(nv)
	case "add-member":
		vpAssume(k != "zzz")
		m["zzz"] = vpJVal("new")
	case "delete-member":
		delete(m, "a")
	}
	mutated, err := json.Marshal(m)
	vpAssume(err == nil)
	verr := VerifyJSON("signer.example", "ed25519:k1", pub, mutated)
	if mut == "change-unsigned" {
		vpAssert("unsigned-change-still-verifies", verr == nil)
	} else {
		vpAssert("tamper-detected", verr != nil)
	}
	vpReach("done", true)
}
