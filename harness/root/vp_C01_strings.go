//go:build verif

package gomatrixserverlib

import "bytes"

// vpUTF8 appends the UTF-8 encoding of a code point (written out by hand: independent of unicode/utf8).
func vpUTF8(out []byte, cp int) []byte {
	switch {
	case cp < 0x80:
		return append(out, byte(cp))
	case cp < 0x800:
		return append(out, byte(0xC0|cp>>6), byte(0x80|cp&0x3F))
	case cp < 0x10000:
		return append(out, byte(0xE0|cp>>12), byte(0x80|(cp>>6)&0x3F), byte(0x80|cp&0x3F))
	}
	return append(out, byte(0xF0|cp>>18), byte(0x80|(cp>>12)&0x3F), byte(0x80|(cp>>6)&0x3F), byte(0x80|cp&0x3F))
}

// vpCanonChar appends the canonical spelling of one code point inside a JSON string: the two-character escapes for
// quote, backslash, \b \t \n \f \r; \u00XX (lower-case hex) for other control characters; raw UTF-8 otherwise.
func vpCanonChar(out []byte, cp int) []byte {
	const hex = "0123456789abcdef"
	switch {
	case cp == '"' || cp == '\\':
		return append(out, '\\', byte(cp))
	case cp == 8:
		return append(out, '\\', 'b')
	case cp == 9:
		return append(out, '\\', 't')
	case cp == 10:
		return append(out, '\\', 'n')
	case cp == 12:
		return append(out, '\\', 'f')
	case cp == 13:
		return append(out, '\\', 'r')
	case cp < 0x20:
		return append(out, '\\', 'u', '0', '0', hex[cp>>4], hex[cp&0xF])
	}
	return vpUTF8(out, cp)
}

// vpHex4 reads four symbolic hex digits named by prefix and returns their bytes and value (assumed to be hex digits).
func vpHex4(name string) ([]byte, int) {
	b := vpNondetBytes(name, 4)
	v := 0
	for k := 0; k < 4; k++ {
		d, ok := vpHexDigit(b[k])
		vpAssume(ok)
		v = v<<4 | d
	}
	return b, v
}

// vpStringPiece returns one piece of a JSON string body: its source spelling and the canonical spelling of the code
// point it denotes.
func vpStringPiece(name, kind string) (src []byte, canon []byte) {
	switch kind {
	case "ascii":
		c := vpNondetU8(name + ".c")
		vpAssume(c >= 0x20 && c < 0x7F && c != '"' && c != '\\')
		return []byte{c}, vpCanonChar(nil, int(c))
	case "simple-escape":
		e := vpChoice(name+".esc", `"`, `\`, "/", "b", "f", "n", "r", "t")
		cp := map[string]int{`"`: '"', `\`: '\\', "/": '/', "b": 8, "f": 12, "n": 10, "r": 13, "t": 9}[e]
		return []byte{'\\', e[0]}, vpCanonChar(nil, cp)
	case "u-escape":
		// \uXXXX for any code point of the basic plane that is not a surrogate
		h, v := vpHex4(name + ".hex")
		vpAssume(v < 0xD800 || v > 0xDFFF)
		return append([]byte{'\\', 'u'}, h...), vpCanonChar(nil, v)
	case "surrogate-pair":
		h1, hi := vpHex4(name + ".hi")
		h2, lo := vpHex4(name + ".lo")
		vpAssume(hi >= 0xD800 && hi <= 0xDBFF && lo >= 0xDC00 && lo <= 0xDFFF)
		cp := 0x10000 + (hi-0xD800)<<10 + (lo - 0xDC00)
		s := append([]byte{'\\', 'u'}, h1...)
		s = append(s, '\\', 'u')
		return append(s, h2...), vpCanonChar(nil, cp)
	case "utf8-2":
		b := vpNondetBytes(name+".raw", 2)
		vpAssume(b[0] >= 0xC2 && b[0] <= 0xDF && b[1] >= 0x80 && b[1] <= 0xBF)
		return b, []byte{b[0], b[1]}
	}
	// utf8-4: a raw four-byte sequence of plane 1 (F0 90..BF 80..BF 80..BF)
	b := vpNondetBytes(name+".raw", 3)
	vpAssume(b[0] >= 0x90 && b[0] <= 0xBF && b[1] >= 0x80 && b[1] <= 0xBF && b[2] >= 0x80 && b[2] <= 0xBF)
	return []byte{0xF0, b[0], b[1], b[2]}, []byte{0xF0, b[0], b[1], b[2]}
}

// vp:check C01 quick configs=shape:value|key;first:ascii|simple-escape|u-escape|surrogate-pair|utf8-2|utf8-4;second:ascii K=60 timeout=1500
// vp:check C01 quick configs=shape:key-and-value;first:simple-escape|u-escape;second:ascii K=60 timeout=1500
// vp:check C01 quick configs=shape:value;first:ascii;second:simple-escape|u-escape|surrogate-pair|utf8-2 K=60 timeout=1500
// vp:check C18 both configs=shape:value|key;first:u-escape|surrogate-pair;second:ascii K=60 timeout=1500
// vp:check C01 thorough configs=shape:value|key|key-and-value;first:ascii|simple-escape|u-escape|surrogate-pair|utf8-2|utf8-4;second:ascii|simple-escape|u-escape|surrogate-pair|utf8-2 K=60 timeout=3000
// vp_C01_strings: every spelling of a string canonicalises to the one canonical spelling, in values and in object
// keys. The string has two pieces; each is a raw ASCII character, a two-character escape, a \uXXXX escape with four
// arbitrary hex digits (any non-surrogate code point, either letter case), a surrogate-pair escape (any code point
// beyond the basic plane), or a raw 2- or 4-byte UTF-8 sequence. The reference spelling is computed independently
// (hand-written UTF-8 encoder and escape table). Also idempotence, and that the escaped and the raw spelling of the
// same text give identical bytes (both equal the reference).
func vp_C01_strings() {
	shape := vpConfig("shape")
	s1, c1 := vpStringPiece("p1", vpConfig("first"))
	s2, c2 := vpStringPiece("p2", vpConfig("second"))
	src := append(append([]byte{'"'}, s1...), s2...)
	src = append(src, '"')
	canon := append(append([]byte{'"'}, c1...), c2...)
	canon = append(canon, '"')
	var doc, want []byte
	switch shape {
	case "value":
		doc = append(append([]byte(`{"k":`), src...), '}')
		want = append(append([]byte(`{"k":`), canon...), '}')
	case "key":
		doc = append(append([]byte(`{`), src...), []byte(`:0}`)...)
		want = append(append([]byte(`{`), canon...), []byte(`:0}`)...)
	default:
		doc = append(append(append(append([]byte(`{`), src...), ':'), src...), '}')
		want = append(append(append(append([]byte(`{`), canon...), ':'), canon...), '}')
	}
	got, err := CanonicalJSON(append([]byte{}, doc...))
	vpAssert("accepted", err == nil)
	if err != nil {
		return
	}
	vpAssert("canonical-spelling", bytes.Equal(got, want))
	again, err2 := CanonicalJSON(append([]byte{}, got...))
	vpAssert("idempotent", err2 == nil && bytes.Equal(again, got))
	vpReach("done", true)
}

// vpKeyLess: strict order of two keys by their bytes (= by code point for UTF-8), written out by hand.
func vpKeyLess(a, b string) bool {
	for i := 0; i < len(a) && i < len(b); i++ {
		if a[i] != b[i] {
			return a[i] < b[i]
		}
	}
	return len(a) < len(b)
}

// vp:check C01 both configs=klen:1|2;depth:flat|nested|in-array|in-array-of-arrays|in-object-in-array;top:object|array-of-arrays K=60 timeout=1500
// vp_C01_sort: object members come out sorted by key (code-point order), at every nesting level, whatever order they
// were given in. Three keys of 1-2 arbitrary printable ASCII bytes (pairwise distinct; the solver also picks keys that
// are prefixes of each other and keys differing only in the second byte), values of different kinds; in the nested
// shape an inner object carries the same keys in another order.
func vp_C01_sort() {
	n := vpConfigInt("klen")
	keys := make([]string, 3)
	for i := range keys {
		var k string
		if n == 2 && vpNondetBool("short"+string(rune('0'+i))) {
			k = vpNondetStringN("key"+string(rune('0'+i)), 1)
		} else {
			k = vpNondetStringN("key"+string(rune('0'+i)), n)
		}
		for j := 0; j < len(k); j++ {
			vpAssume(k[j] >= 0x20 && k[j] < 0x7F && k[j] != '"' && k[j] != '\\')
		}
		keys[i] = k
	}
	vpAssume(keys[0] != keys[1] && keys[0] != keys[2] && keys[1] != keys[2])
	vals := []string{`1`, `"v"`, `[true,null]`}
	// where the inner object (same keys, another order) sits: directly as a member value, inside an array, inside
	// an array that is itself an array element, inside an object inside an array
	wrap := func(inner string) string {
		switch vpConfig("depth") {
		case "in-array":
			return `[` + inner + `]`
		case "in-array-of-arrays":
			return `[[` + inner + `],["s",` + inner + `]]`
		case "in-object-in-array":
			return `[1,{"o":` + inner + `}]`
		}
		return inner
	}
	if vpConfig("depth") != "flat" {
		vals[2] = wrap(`{"` + keys[1] + `":0,"` + keys[0] + `":[],"` + keys[2] + `":{}}`)
	}
	doc := `{"` + keys[0] + `":` + vals[0] + `,"` + keys[1] + `":` + vals[1] + `,"` + keys[2] + `":` + vals[2] + `}`
	// reference: selection sort of the three (key, value) pairs
	idx := []int{0, 1, 2}
	for i := 0; i < 3; i++ {
		for j := i + 1; j < 3; j++ {
			if vpKeyLess(keys[idx[j]], keys[idx[i]]) {
				idx[i], idx[j] = idx[j], idx[i]
			}
		}
	}
	wantVals := []string{vals[0], vals[1], vals[2]}
	if vpConfig("depth") != "flat" {
		inner := []string{`[]`, `0`, `{}`} // values of keys[0], keys[1], keys[2] inside the inner object
		wantVals[2] = wrap(`{"` + keys[idx[0]] + `":` + inner[idx[0]] + `,"` + keys[idx[1]] + `":` + inner[idx[1]] + `,"` + keys[idx[2]] + `":` + inner[idx[2]] + `}`)
	}
	want := `{"` + keys[idx[0]] + `":` + wantVals[idx[0]] + `,"` + keys[idx[1]] + `":` + wantVals[idx[1]] + `,"` + keys[idx[2]] + `":` + wantVals[idx[2]] + `}`
	if vpConfig("top") == "array-of-arrays" {
		// the document itself is an element of an array of arrays
		doc, want = `[[`+doc+`,2],[]]`, `[[`+want+`,2],[]]`
	}
	got, err := CanonicalJSON([]byte(doc))
	vpAssert("accepted", err == nil)
	if err != nil {
		return
	}
	vpAssert("members-sorted", string(got) == want)
	vpReach("reordered", idx[0] != 0)
	vpReach("done", true)
}

// vp:check C01 both configs=depth:flat|nested K=60 timeout=1500
// vp:check C02 both configs=depth:flat K=60 timeout=1500
// vp_C01_sort_escaped: member order when the names need escaping. Three two-character keys: an arbitrary printable
// first character and a second one that is, by choice, a plain character, a quote, a backslash, a tab or U+0001 - the
// last four are spelled with escapes in the text (the quote also as a u-escape), so the order of the spellings differs
// from the order of the names. Members must come out sorted by their names (code points), spelled canonically.
func vp_C01_sort_escaped() {
	keys := make([]string, 3)  // decoded names
	inSp := make([]string, 3)  // spelling in the input
	outSp := make([]string, 3) // canonical spelling
	for i := range keys {
		first := vpNondetStringN("first"+string(rune('0'+i)), 1)
		vpAssume(first[0] >= 0x20 && first[0] < 0x7F && first[0] != '"' && first[0] != '\\')
		switch vpChoice("second"+string(rune('0'+i)), "plain", "quote", "quote-u", "backslash", "tab", "ctrl") {
		case "plain":
			c := vpNondetStringN("plain"+string(rune('0'+i)), 1)
			vpAssume(c[0] >= 0x20 && c[0] < 0x7F && c[0] != '"' && c[0] != '\\')
			keys[i], inSp[i], outSp[i] = first+c, first+c, first+c
		case "quote":
			keys[i], inSp[i], outSp[i] = first+`"`, first+`\"`, first+`\"`
		case "quote-u":
			keys[i], inSp[i], outSp[i] = first+`"`, first+`\u00`+`22`, first+`\"`
		case "backslash":
			keys[i], inSp[i], outSp[i] = first+`\`, first+`\\`, first+`\\`
		case "tab":
			keys[i], inSp[i], outSp[i] = first+"\t", first+`\t`, first+`\t`
		default:
			keys[i], inSp[i], outSp[i] = first+"\x01", first+`\u0001`, first+`\u0001`
		}
	}
	vpAssume(keys[0] != keys[1] && keys[0] != keys[2] && keys[1] != keys[2])
	vals := []string{`1`, `"v"`, `[true,null]`}
	if vpConfig("depth") == "nested" {
		vals[2] = `{"` + inSp[1] + `":0,"` + inSp[0] + `":[],"` + inSp[2] + `":{}}`
	}
	doc := `{"` + inSp[0] + `":` + vals[0] + `,"` + inSp[1] + `":` + vals[1] + `,"` + inSp[2] + `":` + vals[2] + `}`
	idx := []int{0, 1, 2}
	for i := 0; i < 3; i++ {
		for j := i + 1; j < 3; j++ {
			if vpKeyLess(keys[idx[j]], keys[idx[i]]) {
				idx[i], idx[j] = idx[j], idx[i]
			}
		}
	}
	wantVals := []string{vals[0], vals[1], vals[2]}
	if vpConfig("depth") == "nested" {
		inner := []string{`[]`, `0`, `{}`}
		wantVals[2] = `{"` + outSp[idx[0]] + `":` + inner[idx[0]] + `,"` + outSp[idx[1]] + `":` + inner[idx[1]] + `,"` + outSp[idx[2]] + `":` + inner[idx[2]] + `}`
	}
	want := `{"` + outSp[idx[0]] + `":` + wantVals[idx[0]] + `,"` + outSp[idx[1]] + `":` + wantVals[idx[1]] + `,"` + outSp[idx[2]] + `":` + wantVals[idx[2]] + `}`
	got, err := CanonicalJSON([]byte(doc))
	vpAssert("accepted", err == nil)
	if err != nil {
		return
	}
	vpAssert("members-sorted-by-name", string(got) == want)
	vpReach("reordered", idx[0] != 0)
	vpReach("done", true)
}
