//go:build verif

package gomatrixserverlib

import (
	"errors"

	"github.com/matrix-org/gomatrixserverlib/spec"
)

// vpSized returns prefix + 'a' x (base+d) + "é" x k + suffix and its length in code points and bytes; d and k are small
// solver-chosen numbers, so the string straddles both 255 limits in both units.
func vpSized(name, prefix, suffix string, base, bits int) (s string, cps, bytes int) {
	d := int(vpNondetBits(name+".ascii_extra", bits))
	k := int(vpNondetBits(name+".two_byte_chars", bits))
	b := []byte(prefix)
	for i := 0; i < base+d; i++ {
		b = append(b, 'a')
	}
	for i := 0; i < k; i++ {
		b = append(b, 0xC3, 0xA9)
	}
	b = append(b, suffix...)
	return string(b), len(prefix) + base + d + k + len(suffix), len(prefix) + base + d + 2*k + len(suffix)
}

// vp:check C17 both configs=version:1|10|12|org.matrix.msc4014;long:type|state_key|sender|type+state_key|json K=300 timeout=1200
// vp_C17_limits: CheckFields refuses an event outright when its JSON exceeds 65 536 bytes or its type, state key or
// sender exceeds 255 code points, and reports it as too large but persistable when only the 255-byte limit is
// exceeded - whichever field carries which excess (two fields may be long at once). Lengths are solver-chosen around
// both limits, in ASCII and two-byte characters.
func vp_C17_limits() {
	ver := RoomVersion(vpConfig("version"))
	long := vpConfig("long")
	typ, tcp, tb := "m.room.message", 14, 14
	skS, scp, sb := "k", 1, 1
	sender, ucp, ub := vpAlice, len(vpAlice), len(vpAlice)
	base, bits := 246, 3
	if long == "type+state_key" {
		base, bits = 250, 2 // both fields long at once: 0..3 extra characters of each kind per field
	}
	if long == "type" || long == "type+state_key" {
		typ, tcp, tb = vpSized("type", "", "", base, bits)
	}
	if long == "state_key" || long == "type+state_key" {
		skS, scp, sb = vpSized("state_key", "", "", base, bits)
	}
	if long == "sender" {
		sender, ucp, ub = vpSized("sender", "@", ":x", 243, 3)
	}
	ev := vpMkEvent(ver, "$e:x", vpRoomIDFor(ver, vpCreateID12), sender, typ, &skS, vpJObj("body", "x"))
	vpSetAuth(ev, []string{"$a:x"}, 5, 5)
	vpSetPrev(ev, []string{"$p:x"})
	jsonLen := 100
	if long == "json" {
		jsonLen = 65535 + int(vpNondetBits("json_len_delta", 2)) // 65535 .. 65538
	}
	vpSetJSON(ev, make([]byte, jsonLen))
	err := CheckFields(ev)
	checkSender := ver != RoomVersionPseudoIDs
	hard := jsonLen > 65536 || tcp > 255 || scp > 255 || (checkSender && ucp > 255)
	soft := tb > 255 || sb > 255 || (checkSender && ub > 255)
	var ve EventValidationError
	isVE := errors.As(err, &ve)
	switch {
	case hard:
		vpAssert("refused-outright", err != nil && isVE && ve.Code == EventValidationTooLarge && !ve.Persistable)
	case soft:
		vpAssert("too-large-but-persistable", err != nil && isVE && ve.Code == EventValidationTooLarge && ve.Persistable)
	default:
		vpAssert("accepted", err == nil)
	}
	vpReach("hard", hard)
	vpReach("soft-only", !hard && soft)
	vpReach("fine", !hard && !soft)
	_ = spec.Join
}

func vpSetJSON(e PDU, raw []byte) {
	switch x := e.(type) {
	case *eventV1:
		x.eventJSON = raw
	case *eventV2:
		x.eventJSON = raw
	case *eventV3:
		x.eventJSON = raw
	}
}
