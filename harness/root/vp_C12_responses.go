//go:build verif

package gomatrixserverlib

import (
	"context"
	"encoding/json"
	"errors"

	"github.com/matrix-org/gomatrixserverlib/spec"
	"golang.org/x/crypto/ed25519"
)

type vpKeyClient struct {
	direct    map[spec.ServerName]ServerKeys
	notary    []ServerKeys
	directErr bool
}

func (c *vpKeyClient) GetServerKeys(ctx context.Context, s spec.ServerName) (ServerKeys, error) {
	if k, ok := c.direct[s]; ok && !c.directErr {
		return k, nil
	}
	return ServerKeys{}, errors.New("unreachable")
}

func (c *vpKeyClient) LookupServerKeys(ctx context.Context, s spec.ServerName, reqs map[PublicKeyLookupRequest]spec.Timestamp) ([]ServerKeys, error) {
	return c.notary, nil
}

// vpServerKeys builds a key response of server name for its key `keyName`: self-signed (or signed with another key),
// optionally counter-signed by the notary under the given key ID with the right or a wrong key.
func vpServerKeys(name spec.ServerName, selfOK bool, notarySig string) (ServerKeys, ed25519.PublicKey) {
	pubB, privB := vpKey("key-of-" + string(name))
	_, otherPriv := vpKey("not-the-key-of-" + string(name))
	_, notaryPriv := vpKey("notary")
	_, notaryWrong := vpKey("notary-impostor")
	doc := vpJObj("server_name", string(name), "valid_until_ts", int64(1<<41),
		"verify_keys", vpJObj("ed25519:1", vpJObj("key", spec.Base64Bytes(pubB).Encode())), "old_verify_keys", vpJObj())
	signer := ed25519.PrivateKey(privB)
	if !selfOK {
		signer = ed25519.PrivateKey(otherPriv)
	}
	doc, err := SignJSON(string(name), "ed25519:1", signer, doc)
	vpAssume(err == nil)
	switch notarySig {
	case "good":
		doc, err = SignJSON("notary", "ed25519:n1", ed25519.PrivateKey(notaryPriv), doc)
	case "bad":
		doc, err = SignJSON("notary", "ed25519:n1", ed25519.PrivateKey(notaryWrong), doc)
	case "unknown-key-id":
		doc, err = SignJSON("notary", "ed25519:zz", ed25519.PrivateKey(notaryPriv), doc)
	}
	vpAssume(err == nil)
	var sk ServerKeys
	vpAssume(json.Unmarshal(doc, &sk) == nil)
	return sk, ed25519.PublicKey(pubB)
}

// vp:check C12 both K=24 timeout=900
// vp_C12_notary: a batch of key responses obtained through a notary is accepted only if every response is signed by
// the server it names and counter-signed by the notary under a known notary key; the keys returned are exactly those of
// the accepted responses. Two responses, each independently well/ill signed.
func vp_C12_notary() {
	npubB, _ := vpKey("notary")
	selfA, selfB := vpNondetBool("a.self_ok"), vpNondetBool("b.self_ok")
	notA := vpChoice("a.notary_sig", "good", "bad", "unknown-key-id", "none")
	notB := vpChoice("b.notary_sig", "good", "bad", "unknown-key-id", "none")
	ka, pubA := vpServerKeys("a", selfA, notA)
	kb, pubBk := vpServerKeys("b", selfB, notB)
	f := &PerspectiveKeyFetcher{PerspectiveServerName: "notary", PerspectiveServerKeys: map[KeyID]ed25519.PublicKey{"ed25519:n1": ed25519.PublicKey(npubB)},
		Client: &vpKeyClient{notary: []ServerKeys{ka, kb}}}
	res, err := f.FetchKeys(context.Background(), map[PublicKeyLookupRequest]spec.Timestamp{{"a", "ed25519:1"}: 0, {"b", "ed25519:1"}: 0})
	want := selfA && selfB && notA == "good" && notB == "good"
	vpAssert("batch-accepted-iff-all-vouched", (err == nil) == want)
	if err == nil {
		ra, okA := res[PublicKeyLookupRequest{"a", "ed25519:1"}]
		rb, okB := res[PublicKeyLookupRequest{"b", "ed25519:1"}]
		vpAssert("keys-returned", okA && okB && string(ra.Key) == string(pubA) && string(rb.Key) == string(pubBk))
		vpAssert("nothing-else", len(res) == 2)
	} else {
		vpAssert("no-keys-on-failure", len(res) == 0)
	}
	vpReach("accepted", err == nil)
	vpReach("refused", err != nil)
}

// vp:check C12 both K=24 timeout=900
// vp_C12_checkkeys: CheckKeys passes exactly when the response names the requested server, its valid_until_ts lies after
// `now`, it has an ed25519 key, and every ed25519 key is 32 bytes long and has signed the response.
func vp_C12_checkkeys() {
	selfOK := vpNondetBool("self_ok")
	sk, _ := vpServerKeys("a", selfOK, "none")
	asked := spec.ServerName(vpChoice("asked", "a", "b"))
	validUntil := spec.Timestamp(vpNondetBits("valid_until_ms", 42))
	sk.ValidUntilTS = validUntil
	nowMs := vpNondetBits("now_ms", 42)
	now := spec.Timestamp(nowMs).Time()
	checks, keys := CheckKeys(asked, now, sk)
	want := asked == "a" && uint64(validUntil) > nowMs && selfOK
	vpAssert("checkkeys", checks.AllChecksOK == want)
	vpAssert("keys-only-when-ok", (keys != nil) == want)
	vpReach("ok", checks.AllChecksOK)
	vpReach("fails", !checks.AllChecksOK)
}
