//go:build verif

package gomatrixserverlib

import (
	"context"
	"errors"

	"github.com/matrix-org/gomatrixserverlib/spec"
)

// vpStateProv: scripted StateProvider: the state before the event is a fixed set of events.
type vpStateProv struct {
	ids    []string
	events map[string]PDU
	fail   string
}

func (p *vpStateProv) StateIDsBeforeEvent(ctx context.Context, event PDU) ([]string, error) {
	if p.fail == "ids" {
		return nil, errors.New("no state ids")
	}
	return p.ids, nil
}

func (p *vpStateProv) StateBeforeEvent(ctx context.Context, roomVer RoomVersion, event PDU, eventIDs []string) (map[string]PDU, error) {
	if p.fail == "state" {
		return nil, errors.New("no state")
	}
	out := map[string]PDU{}
	for _, id := range eventIDs {
		if e, ok := p.events[id]; ok {
			out[id] = e
		}
	}
	return out, nil
}

// vp:check C14 both configs=version:1|10 K=24 timeout=900
// vp_C14_at_state: VerifyAuthRulesAtState accepts exactly when the event is allowed by the state before it or, when
// validation by membership is permitted, when every one of its auth events belongs to that state. The state before the
// event is any subset of {create, power levels, Bob's join, Bob's leave}; the event (a message by Bob) cites create,
// power levels and one of Bob's two membership events, in any of three orders; provider failures are errors.
func vp_C14_at_state() {
	ver := RoomVersion(vpConfig("version"))
	h := vpBaseRoom(ver)
	bj := vpSetAuth(vpMkEvent(ver, "$bj:x", h.room, vpBob, spec.MRoomMember, vpStrPtr(vpBob), vpJObj("membership", spec.Join)), []string{h.createID, "$pl:x"}, 4, 4)
	bl := vpSetAuth(vpMkEvent(ver, "$bl:x", h.room, vpBob, spec.MRoomMember, vpStrPtr(vpBob), vpJObj("membership", spec.Leave)), []string{h.createID, "$pl:x", "$bj:x"}, 5, 5)
	all := map[string]PDU{h.createID: h.create, "$pl:x": h.pl, "$bj:x": bj, "$bl:x": bl}
	in := map[string]bool{}
	prov := &vpStateProv{events: all, fail: vpChoice("provider", "ok", "ids", "state")}
	for _, id := range []string{h.createID, "$pl:x", "$bj:x", "$bl:x"} {
		in[id] = vpNondetBool("in_state." + id)
		if in[id] {
			prov.ids = append(prov.ids, id)
		}
	}
	member := vpChoice("cited_member", "$bj:x", "$bl:x")
	var cited []string
	switch vpChoice("cited_order", "member-last", "member-first", "member-middle") {
	case "member-last":
		cited = []string{h.createID, "$pl:x", member}
	case "member-first":
		cited = []string{member, h.createID, "$pl:x"}
	default:
		cited = []string{h.createID, member, "$pl:x"}
	}
	ev := vpSetAuth(vpMkEvent(ver, "$msg:x", h.room, vpBob, "m.room.message", nil, vpJObj("body", "hi")), cited, 9, 9)
	allowValidation := vpNondetBool("allow_validation")
	err := VerifyAuthRulesAtState(context.Background(), prov, ev, allowValidation, vpUserIDForSender)
	allCitedInState := in[h.createID] && in["$pl:x"] && in[member]
	var want bool
	switch {
	case prov.fail == "ids":
		want = false
	case allowValidation && allCitedInState:
		want = true
	case prov.fail == "state":
		want = false
	default:
		// allowed by the cited events that are part of the state: the room exists and Bob is joined
		want = in[h.createID] && member == "$bj:x" && in["$bj:x"]
	}
	vpAssert("verdict", (err == nil) == want)
	vpReach("accepted-by-membership-of-auth-events", err == nil && allowValidation && allCitedInState)
	vpReach("accepted-by-auth-check", err == nil && !allowValidation)
	vpReach("refused", err != nil)
}

func vpSetPrev(e PDU, prev []string) PDU {
	switch x := e.(type) {
	case *eventV1:
		x.PrevEvents = nil
		for _, p := range prev {
			x.PrevEvents = append(x.PrevEvents, eventReference{EventID: p})
		}
	case *eventV2:
		x.PrevEvents = prev
	case *eventV3:
		x.PrevEvents = prev
	}
	return e
}

// vp:check C14 both configs=version:1|10 K=24 timeout=900
// vp_C14_auth_chain: VerifyEventAuthChain accepts exactly when the event and, recursively, every auth event fetched
// from the provider is allowed by its own auth events. Chain: message (Bob) -> Bob's membership -> join rules / power
// levels -> Alice's join -> create; a fault is planted at one depth of the chain (or the provider fails).
func vp_C14_auth_chain() {
	ver := RoomVersion(vpConfig("version"))
	h := vpBaseRoom(ver)
	vpSetPrev(h.join, []string{h.createID}) // the creator's first join: its only previous event is the create event
	fault := vpChoice("fault", "none", "power-levels-by-non-member", "join-under-invite-rule", "message-sender-left", "provider-error")
	pl := h.pl
	if fault == "power-levels-by-non-member" {
		// the power-levels event was sent by Carol, who never joined: not allowed by its auth events
		pl = vpSetAuth(vpMkEvent(ver, "$pl:x", h.room, vpCarol, spec.MRoomPowerLevels, vpStrPtr(""), vpJObj("users", vpJObj(vpCarol, int64(100)))), []string{h.createID, "$join:x"}, 3, 3)
	}
	rule := spec.Public
	if fault == "join-under-invite-rule" {
		rule = spec.Invite
	}
	jr := vpSetAuth(vpMkEvent(ver, "$jr:x", h.room, vpAlice, spec.MRoomJoinRules, vpStrPtr(""), vpJObj("join_rule", rule)), []string{h.createID, "$join:x", "$pl:x"}, 4, 4)
	bj := vpSetAuth(vpMkEvent(ver, "$bj:x", h.room, vpBob, spec.MRoomMember, vpStrPtr(vpBob), vpJObj("membership", spec.Join)), []string{h.createID, "$pl:x", "$jr:x"}, 5, 5)
	bl := vpSetAuth(vpMkEvent(ver, "$bl:x", h.room, vpBob, spec.MRoomMember, vpStrPtr(vpBob), vpJObj("membership", spec.Leave)), []string{h.createID, "$pl:x", "$bj:x"}, 6, 6)
	member := "$bj:x"
	if fault == "message-sender-left" {
		member = "$bl:x"
	}
	msg := vpSetAuth(vpMkEvent(ver, "$msg:x", h.room, vpBob, "m.room.message", nil, vpJObj("body", "hi")), []string{h.createID, "$pl:x", member}, 9, 9)
	store := map[string]PDU{h.createID: h.create, "$join:x": h.join, "$pl:x": pl, "$jr:x": jr, "$bj:x": bj, "$bl:x": bl}
	asked := map[string]int{}
	// provider behaviour: complete answers, or one event is left out of every answer to a request for several
	// events and only handed over when asked for on its own (it is then fetched late, during the auth check of the
	// event citing it, and must still be checked itself)
	bulkOmits := vpChoice("provider_omits_from_bulk_answers", "nothing", "$bj:x", "$jr:x", "$pl:x")
	provider := func(roomVer RoomVersion, ids []string) ([]PDU, error) {
		if fault == "provider-error" {
			return nil, errors.New("cannot fetch")
		}
		var out []PDU
		for _, id := range ids {
			asked[id]++
			if len(ids) > 1 && id == bulkOmits {
				continue
			}
			if e, ok := store[id]; ok {
				out = append(out, e)
			}
		}
		return out, nil
	}
	err := VerifyEventAuthChain(context.Background(), msg, provider, vpUserIDForSender)
	vpObserve("chain-error", err)
	vpAssert("verdict", (err == nil) == (fault == "none"))
	if err == nil {
		// every link of the chain was fetched (and therefore checked)
		for _, id := range []string{h.createID, "$join:x", "$pl:x", "$jr:x", "$bj:x"} {
			vpAssert("whole-chain-fetched", asked[id] >= 1)
		}
	}
	vpReach("accepted", err == nil)
	vpReach("refused", err != nil)
}
