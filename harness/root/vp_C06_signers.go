//go:build verif

package gomatrixserverlib

import (
	"bytes"
	"context"
	"errors"
	"time"

	"github.com/matrix-org/gomatrixserverlib/spec"
	"golang.org/x/crypto/ed25519"
)

// vpVerifier records which servers it was asked about and fails the servers named in bad.
type vpVerifier struct {
	asked    []spec.ServerName
	bad      map[spec.ServerName]bool
	msgOK    bool
	tsOK     bool
	wantMsg  []byte
	wantTS   spec.Timestamp
	failCall bool
	// the key-validity rule handed to the verifier: does it accept a key whose valid_until_ts is "not valid" (0)?
	lenientRule, strictRule bool
}

func (v *vpVerifier) VerifyJSONs(ctx context.Context, reqs []VerifyJSONRequest) ([]VerifyJSONResult, error) {
	if v.failCall {
		return nil, errors.New("key database unavailable")
	}
	res := make([]VerifyJSONResult, len(reqs))
	for i, r := range reqs {
		v.asked = append(v.asked, r.ServerName)
		if !bytes.Equal(r.Message, v.wantMsg) {
			v.msgOK = false
		}
		if r.AtTS != v.wantTS {
			v.tsOK = false
		}
		if r.ValidityCheckingFunc != nil {
			if r.ValidityCheckingFunc(1000, PublicKeyNotValid) {
				v.lenientRule = true
			} else {
				v.strictRule = true
			}
		}
		if v.bad[r.ServerName] {
			res[i].Error = errors.New("bad signature")
		}
	}
	return res, nil
}

func vpAsked(v *vpVerifier, s spec.ServerName) bool {
	for _, a := range v.asked {
		if a == s {
			return true
		}
	}
	return false
}

// vp:check C06 both configs=version:1|2|3|4|5|6|7|8|9|10|11|12|org.matrix.msc3787|org.matrix.msc3667|org.matrix.hydra.11 K=12 timeout=900
// vp_C06_signers: VerifyEventSignatures consults exactly the protocol-required servers (sender's; v1/v2: event ID's;
// invite: invited user's; join with join_authorised_via_users_server where restricted joins exist: that user's), each
// with the redacted event, its origin_server_ts and the key-validity rule of the room version (strict from version 5),
// and succeeds iff every one of them verifies.
func vp_C06_signers() {
	ver := RoomVersion(vpConfig("version"))
	verImpl, err := GetRoomVersion(ver)
	vpAssume(err == nil)
	_, privB := vpKey("origin")
	kind := vpChoice("kind", "message", "member-join", "member-join-via", "member-invite", "member-leave")
	typ, content := "m.room.message", vpJObj("body", "x")
	var sk *string
	target := vpChoice("target", vpBob, vpCarol)
	switch kind {
	case "member-join":
		typ, content, sk = spec.MRoomMember, vpJObj("membership", spec.Join), vpStrPtr(vpAlice)
	case "member-join-via":
		typ, content, sk = spec.MRoomMember, vpJObj("membership", spec.Join, "join_authorised_via_users_server", "@d:w"), vpStrPtr(vpAlice)
	case "member-invite":
		typ, content, sk = spec.MRoomMember, vpJObj("membership", spec.Invite), vpStrPtr(target)
	case "member-leave":
		typ, content, sk = spec.MRoomMember, vpJObj("membership", spec.Leave), vpStrPtr(target)
	}
	prev, auth := []string{"$p1:x"}, []string{"$a1:x"}
	if vpSpecTraits(ver).idFormat != EventIDFormatV1 {
		prev = []string{"$0123456789012345678901234567890123456789abc"}
		auth = []string{"$0123456789012345678901234567890123456789abd"}
	}
	eb := verImpl.NewEventBuilderFromProtoEvent(&ProtoEvent{SenderID: vpAlice, RoomID: vpRoomIDFor(ver, vpCreateID12), Type: typ, StateKey: sk,
		PrevEvents: prev, AuthEvents: auth, Depth: 3, Content: content})
	// the event is created by server "z" (v1/v2 event IDs name it) on behalf of @a:x
	ev, err := eb.Build(time.Unix(1700000000, 0), "z", "ed25519:1", ed25519.PrivateKey(privB))
	vpAssume(err == nil)

	red, err := verImpl.RedactEventJSON(ev.JSON())
	vpAssume(err == nil)
	v := &vpVerifier{bad: map[spec.ServerName]bool{}, msgOK: true, tsOK: true, wantMsg: red, wantTS: ev.OriginServerTS()}
	for _, s := range []spec.ServerName{"x", "y", "z", "w"} {
		if vpNondetBool("bad." + string(s)) {
			v.bad[s] = true
		}
	}
	v.failCall = vpNondetBool("verifier_error")
	got := VerifyEventSignatures(context.Background(), ev, v, vpUserIDForSender) == nil

	n, _ := vpVerNum(ver)
	need := map[spec.ServerName]bool{"x": true}
	if n <= 2 {
		need["z"] = true
	}
	if kind == "member-invite" {
		if target == vpCarol {
			need["y"] = true
		}
	}
	if kind == "member-join-via" && n >= 8 {
		need["w"] = true
	}
	want := !v.failCall
	for s := range need {
		if v.bad[s] {
			want = false
		}
	}
	vpAssert("verdict", got == want)
	if !v.failCall {
		for _, s := range []spec.ServerName{"x", "y", "z", "w"} {
			vpAssert("consulted-exactly-required", vpAsked(v, s) == need[s])
		}
		vpAssert("message-is-redacted-event", v.msgOK)
		vpAssert("timestamp-is-origin-server-ts", v.tsOK)
		// every request carries the key-validity rule of the room version: strict from version 5 on
		vpAssert("key-validity-rule-of-the-version", v.strictRule == (n >= 5) && v.lenientRule == (n < 5))
	}
	vpReach("accepted", got)
	vpReach("rejected", !got && !v.failCall)
}
