//go:build verif

package gomatrixserverlib

import (
	"context"
	"errors"
	"time"

	"github.com/matrix-org/gomatrixserverlib/spec"
	"golang.org/x/crypto/ed25519"
)

const vpHourMs = 3600 * 1000

// vpKeySource is a scripted key database / fetcher.
type vpKeySource struct {
	name     string
	answer   string // "none" | "error" | "good-current" | "good-stale" | "good-expired" | "wrong-current"
	good     ed25519.PublicKey
	wrong    ed25519.PublicKey
	now      spec.Timestamp
	asked    []PublicKeyLookupRequest
	stored   map[PublicKeyLookupRequest]PublicKeyLookupResult
	storeErr bool
}

func (s *vpKeySource) FetcherName() string { return s.name }

func (s *vpKeySource) result() (PublicKeyLookupResult, bool) {
	switch s.answer {
	case "good-current":
		return PublicKeyLookupResult{VerifyKey: VerifyKey{Key: spec.Base64Bytes(s.good)}, ValidUntilTS: s.now + vpHourMs}, true
	case "good-stale":
		return PublicKeyLookupResult{VerifyKey: VerifyKey{Key: spec.Base64Bytes(s.good)}, ValidUntilTS: s.now - vpHourMs}, true
	case "good-expired":
		return PublicKeyLookupResult{VerifyKey: VerifyKey{Key: spec.Base64Bytes(s.good)}, ExpiredTS: s.now - vpHourMs}, true
	case "wrong-current":
		return PublicKeyLookupResult{VerifyKey: VerifyKey{Key: spec.Base64Bytes(s.wrong)}, ValidUntilTS: s.now + vpHourMs}, true
	}
	return PublicKeyLookupResult{}, false
}

func (s *vpKeySource) FetchKeys(ctx context.Context, reqs map[PublicKeyLookupRequest]spec.Timestamp) (map[PublicKeyLookupRequest]PublicKeyLookupResult, error) {
	for r := range reqs {
		s.asked = append(s.asked, r)
	}
	if s.answer == "error" {
		return nil, errors.New("unreachable")
	}
	out := map[PublicKeyLookupRequest]PublicKeyLookupResult{}
	if res, ok := s.result(); ok {
		for r := range reqs {
			if r.ServerName == "x" && r.KeyID == "ed25519:1" {
				out[r] = res
			}
		}
	}
	return out, nil
}

func (s *vpKeySource) StoreKeys(ctx context.Context, results map[PublicKeyLookupRequest]PublicKeyLookupResult) error {
	s.stored = results
	if s.storeErr {
		return errors.New("disk full")
	}
	return nil
}

// vpValidAt: the documented validity of a scripted answer for a signature made atOff milliseconds from now (lenient rule:
// always valid unless expired before the signature; strict rule: also not after valid_until).
func vpValidAt(answer string, atOff int64, strict bool) bool {
	switch answer {
	case "good-current", "wrong-current":
		return !strict || atOff <= vpHourMs
	case "good-stale":
		return !strict || atOff <= -vpHourMs
	case "good-expired":
		return atOff < -vpHourMs
	}
	return false
}

// vp:check C12 both configs=db:none|good-current|good-stale|good-expired|wrong-current|error;strict:false|true K=24 timeout=600 clock=fixed
// vp_C12_flow: KeyRing.VerifyJSONs with a scripted database and two scripted fetchers. The request succeeds exactly when
// the key finally held for (server, key ID) - the database's if current, otherwise the first answering fetcher's, else
// the stale database entry - is the signer's key and was valid at the requested time; fetchers are consulted only when
// the database lacks the key or holds it past its validity; everything obtained is stored; an unsupported algorithm or
// an unsigned message fails without any lookup; a database error fails the batch.
func vp_C12_flow() {
	pubB, privB := vpKey("signer")
	wrongB, _ := vpKey("someone-else")
	good, wrong := ed25519.PublicKey(pubB), ed25519.PublicKey(wrongB)
	msgKind := vpChoice("message", "signed", "unsigned", "other-algorithm")
	msg := vpJObj("k", "v")
	switch msgKind {
	case "signed":
		var err error
		msg, err = SignJSON("x", "ed25519:1", ed25519.PrivateKey(privB), msg)
		vpAssume(err == nil)
	case "other-algorithm":
		msg = vpJObj("k", "v", "signatures", vpJObj("x", vpJObj("rsa:1", "c2ln")))
	}
	now := spec.AsTimestamp(time.Now())
	atOff := int64(0)
	switch vpChoice("at", "now", "two-hours-ago", "in-two-hours") {
	case "two-hours-ago":
		atOff = -2 * vpHourMs
	case "in-two-hours":
		atOff = 2 * vpHourMs
	}
	strict := vpConfig("strict") == "true"
	check := SignatureValidityCheckFunc(NoStrictValidityCheck)
	if strict {
		check = StrictValiditySignatureCheck
	}
	db := &vpKeySource{name: "db", answer: vpConfig("db"), good: good, wrong: wrong, now: now}
	f1 := &vpKeySource{name: "f1", answer: vpChoice("fetcher1", "none", "error", "good-current", "wrong-current", "good-expired"), good: good, wrong: wrong, now: now}
	f2 := &vpKeySource{name: "f2", answer: vpChoice("fetcher2", "none", "good-current"), good: good, wrong: wrong, now: now}
	ring := KeyRing{KeyFetchers: []KeyFetcher{f1, f2}, KeyDatabase: db}
	vpSleep(0) // the key ring reads the clock again: same second
	results, err := ring.VerifyJSONs(context.Background(), []VerifyJSONRequest{{ServerName: "x", AtTS: spec.Timestamp(int64(now) + atOff), Message: msg, ValidityCheckingFunc: check}})

	if msgKind != "signed" {
		vpAssert("unsigned-fails", err == nil && len(results) == 1 && results[0].Error != nil)
		vpAssert("unsigned-no-lookup", len(db.asked) == 0 && len(f1.asked) == 0 && len(f2.asked) == 0)
		return
	}
	if db.answer == "error" {
		vpAssert("database-error-fails-batch", err != nil)
		return
	}
	vpAssert("one-result", err == nil && len(results) == 1)
	if err != nil {
		return
	}
	// expected behaviour: a database key (current, stale or expired) that verifies the request settles it at once;
	// otherwise fetchers are consulted in order, but only for keys the database lacks or holds past their validity
	dbHasKey := db.answer == "good-current" || db.answer == "good-stale" || db.answer == "good-expired" || db.answer == "wrong-current"
	dbVerifies := dbHasKey && db.answer != "wrong-current" && vpValidAt(db.answer, atOff, strict)
	stillWanted := db.answer == "none" || db.answer == "good-stale"
	final := db.answer
	askF1, askF2 := false, false
	if !dbVerifies && stillWanted {
		askF1 = true
		if f1.answer != "none" && f1.answer != "error" {
			final = f1.answer
		} else {
			askF2 = true
			if f2.answer != "none" {
				final = f2.answer
			}
		}
	}
	want := final != "none" && final != "error" && final != "wrong-current" && vpValidAt(final, atOff, strict)
	vpAssert("verdict", (results[0].Error == nil) == want)
	vpAssert("fetcher1-consulted-iff-needed", (len(f1.asked) > 0) == askF1)
	vpAssert("fetcher2-consulted-iff-needed", (len(f2.asked) > 0) == askF2)
	if askF1 {
		_, stored := db.stored[PublicKeyLookupRequest{"x", "ed25519:1"}]
		vpAssert("fetched-keys-stored", stored == (final != "none" && final != "error"))
	}
	vpReach("success", results[0].Error == nil)
	vpReach("failure", results[0].Error != nil)
}

// vpBatchSource: scripted database / fetcher for two servers "x" and "y" (key ID ed25519:1 each).
type vpBatchSource struct {
	name   string
	keys   map[spec.ServerName]ed25519.PublicKey // what it answers when asked for that server
	extra  map[spec.ServerName]ed25519.PublicKey // keys it adds to every non-empty answer without being asked
	now    spec.Timestamp
	asked  map[spec.ServerName]int
	stored map[PublicKeyLookupRequest]PublicKeyLookupResult
}

func (s *vpBatchSource) FetcherName() string { return s.name }

func (s *vpBatchSource) FetchKeys(ctx context.Context, reqs map[PublicKeyLookupRequest]spec.Timestamp) (map[PublicKeyLookupRequest]PublicKeyLookupResult, error) {
	out := map[PublicKeyLookupRequest]PublicKeyLookupResult{}
	for r := range reqs {
		s.asked[r.ServerName]++
		if k, ok := s.keys[r.ServerName]; ok && r.KeyID == "ed25519:1" {
			out[r] = PublicKeyLookupResult{VerifyKey: VerifyKey{Key: spec.Base64Bytes(k)}, ValidUntilTS: s.now + vpHourMs}
		}
	}
	if len(reqs) > 0 {
		for srv, k := range s.extra {
			r := PublicKeyLookupRequest{srv, "ed25519:1"}
			if _, asked := reqs[r]; !asked {
				out[r] = PublicKeyLookupResult{VerifyKey: VerifyKey{Key: spec.Base64Bytes(k)}, ValidUntilTS: s.now + vpHourMs}
			}
		}
	}
	return out, nil
}

func (s *vpBatchSource) StoreKeys(ctx context.Context, results map[PublicKeyLookupRequest]PublicKeyLookupResult) error {
	if s.stored == nil {
		s.stored = map[PublicKeyLookupRequest]PublicKeyLookupResult{}
	}
	for k, v := range results {
		s.stored[k] = v
	}
	return nil
}

// vp:check C12 both K=24 timeout=600 clock=fixed
// vp_C12_batch: a batch of two requests from different servers. For each server the database either holds the
// signer's current key, a wrong key, or nothing; the one fetcher holds the signer's key, a wrong key or nothing, and may
// add to its answers an unrequested key (the signer's or a wrong one) for the other server. One result per request, in
// request order; a request succeeds when the database holds the signer's valid key for it - whatever a fetcher says
// about keys it was not asked for - or, the database lacking the key, when the fetcher supplies the signer's key.
func vp_C12_batch() {
	now := spec.AsTimestamp(time.Now())
	wrongB, _ := vpKey("someone-else")
	wrong := ed25519.PublicKey(wrongB)
	servers := []spec.ServerName{"x", "y"}
	good := map[spec.ServerName]ed25519.PublicKey{}
	var reqs []VerifyJSONRequest
	for _, srv := range servers {
		pub, priv := vpKey("signer-" + string(srv))
		good[srv] = ed25519.PublicKey(pub)
		msg, err := SignJSON(string(srv), "ed25519:1", ed25519.PrivateKey(priv), vpJObj("a", string(srv)))
		vpAssume(err == nil)
		reqs = append(reqs, VerifyJSONRequest{ServerName: srv, AtTS: now, Message: msg, ValidityCheckingFunc: StrictValiditySignatureCheck})
	}
	if vpNondetBool("requests_swapped") {
		reqs[0], reqs[1] = reqs[1], reqs[0]
	}
	db := &vpBatchSource{name: "db", keys: map[spec.ServerName]ed25519.PublicKey{}, now: now, asked: map[spec.ServerName]int{}}
	f := &vpBatchSource{name: "f", keys: map[spec.ServerName]ed25519.PublicKey{}, extra: map[spec.ServerName]ed25519.PublicKey{}, now: now, asked: map[spec.ServerName]int{}}
	dbHas, fHas := map[spec.ServerName]string{}, map[spec.ServerName]string{}
	for _, srv := range servers {
		dbHas[srv] = vpChoice("db."+string(srv), "good", "wrong", "none")
		switch dbHas[srv] {
		case "good":
			db.keys[srv] = good[srv]
		case "wrong":
			db.keys[srv] = wrong
		}
		fHas[srv] = vpChoice("fetcher."+string(srv), "good", "wrong", "none")
		switch fHas[srv] {
		case "good":
			f.keys[srv] = good[srv]
		case "wrong":
			f.keys[srv] = wrong
		}
	}
	extraFor := spec.ServerName(vpChoice("fetcher_adds_unrequested_key_for", "nobody", "x", "y"))
	if extraFor != "nobody" {
		if vpNondetBool("unrequested_key_is_wrong") {
			f.extra[extraFor] = wrong
		} else {
			f.extra[extraFor] = good[extraFor]
		}
	}
	ring := KeyRing{KeyFetchers: []KeyFetcher{f}, KeyDatabase: db}
	results, err := ring.VerifyJSONs(context.Background(), reqs)
	vpAssert("one-result-per-request", err == nil && len(results) == 2)
	if err != nil || len(results) != 2 {
		return
	}
	for i, r := range reqs {
		srv := r.ServerName
		switch {
		case dbHas[srv] == "good":
			vpAssert("database-key-suffices", results[i].Error == nil)
			vpAssert("fetcher-not-asked-for-a-key-the-database-holds", f.asked[srv] == 0)
		case dbHas[srv] == "none" && fHas[srv] == "good":
			vpAssert("fetched-key-suffices", results[i].Error == nil)
		case dbHas[srv] == "none" && fHas[srv] == "wrong":
			vpAssert("wrong-fetched-key-fails", results[i].Error != nil)
		case dbHas[srv] == "wrong":
			// the database's (current) key does not verify the message; the fetcher is not asked for it (whether a key
			// it volunteers is then used is left open: success "only if some obtained key verifies" allows both)
			vpAssert("fetcher-not-asked-for-a-key-the-database-holds", f.asked[srv] == 0)
		}
	}
	vpReach("mixed", results[0].Error == nil && results[1].Error != nil)
	vpReach("both-succeed", results[0].Error == nil && results[1].Error == nil)
}
