//go:build verif

package gomatrixserverlib

import (
	"crypto/sha256"
	"encoding/base64"
	"encoding/json"
	"time"

	"github.com/matrix-org/gomatrixserverlib/spec"

	"golang.org/x/crypto/ed25519"
)

// vp:check C03 both configs=version:1|3|4|10|11|12 spelling=1 K=12 timeout=600
// vp_C03_spelling: a built event whose hashed fields (content string, content key, event type, state key) contain a
// character that encoding/json.Marshal spells differently from canonical JSON ('<', '>', '&', U+2028, U+2029) re-parses
// as untrusted input to the same, unredacted event: the content hash written by Build and the one recomputed on receipt
// are taken over the same spelling. With spelling=1 a J2 document remembers that encoding/json.Marshal wrote it, and the
// ideal sha256 / ed25519 tell that spelling from the canonical one when the value contains such a character.
func vp_C03_spelling() {
	ver := RoomVersion(vpConfig("version"))
	verImpl, err := GetRoomVersion(ver)
	vpAssume(err == nil)
	_, privB := vpKey("origin")
	priv := ed25519.PrivateKey(privB)
	now := time.Unix(1700000000, 0)
	room := vpRoomIDFor(ver, vpCreateID12)
	special := vpChoice("special", "<", ">", "&", " ", " ", "plain")
	body, key, typ, sk := "text", "body", "m.room.message", ""
	switch vpChoice("where", "content-string", "content-key", "type", "state_key") {
	case "content-string":
		body = "a" + special + "b"
	case "content-key":
		key = "k" + special
	case "type":
		typ = "org.example." + special
	case "state_key":
		sk = special
	}
	prev := []string{"$p1:x"}
	auth := []string{"$a1:x"}
	if vpSpecTraits(ver).idFormat != EventIDFormatV1 {
		prev = []string{"$0123456789012345678901234567890123456789abc"}
		auth = []string{"$0123456789012345678901234567890123456789abd"}
	}
	eb := verImpl.NewEventBuilderFromProtoEvent(&ProtoEvent{
		SenderID: vpAlice, RoomID: room, Type: typ, StateKey: &sk, PrevEvents: prev, AuthEvents: auth,
		Depth: 7, Content: vpJObj(key, body),
	})
	ev, err := eb.Build(now, "x", "ed25519:1", priv)
	vpAssert("build-succeeds", err == nil)
	if err != nil {
		return
	}
	vpAssert("built-not-redacted", !ev.Redacted())
	un, err := verImpl.NewEventFromUntrustedJSON(ev.JSON())
	vpAssert("untrusted-parse", err == nil)
	if err == nil {
		vpSameEvent("untrusted", ev, un)
	}
	tr, err := verImpl.NewEventFromTrustedJSON(ev.JSON(), false)
	vpAssert("trusted-parse", err == nil)
	if err == nil {
		vpSameEvent("trusted", ev, tr)
	}
	hj, err := ev.ToHeaderedJSON()
	vpAssert("headered", err == nil)
	if err == nil {
		he, err := NewEventFromHeaderedJSON(hj, false)
		vpAssert("headered-parse", err == nil)
		if err == nil {
			vpSameEvent("headered", ev, he)
		}
	}
	if vpSpecTraits(ver).idFormat != EventIDFormatV1 {
		// the ID is the base64 of the SHA-256 of the *canonical* spelling of the redacted event without signatures,
		// unsigned and age_ts (the harness canonicalises itself: under spelling=1 a hash over the marshalled spelling
		// is a different digest)
		id := ev.EventID()
		if red, rerr := verImpl.RedactEventJSON(ev.JSON()); rerr == nil {
			var m map[string]spec.RawJSON
			if json.Unmarshal(red, &m) == nil {
				delete(m, "signatures")
				delete(m, "unsigned")
				delete(m, "age_ts")
				if b, merr := json.Marshal(m); merr == nil {
					if c, cerr := CanonicalJSON(b); cerr == nil {
						h := sha256.Sum256(c)
						wantID := "$" + base64.RawStdEncoding.EncodeToString(h[:])
						if vpSpecTraits(ver).idFormat == EventIDFormatV3 {
							wantID = "$" + base64.RawURLEncoding.EncodeToString(h[:])
						}
						vpAssert("id-is-reference-hash", id == wantID)
					}
				}
			}
		}
		e2, err := ev.SetUnsigned(map[string]interface{}{"note": "<&>"})
		vpAssert("set-unsigned", err == nil)
		if err == nil {
			vpAssert("id-after-unsigned", e2.EventID() == id)
		}
		_, priv2B := vpKey("other")
		e3 := ev.Sign("y", "ed25519:2", ed25519.PrivateKey(priv2B))
		vpAssert("id-after-signature", e3.EventID() == id)
		r, err := verImpl.NewEventFromTrustedJSON(ev.JSON(), false)
		if err == nil {
			r.Redact()
			vpAssert("id-after-redaction", r.EventID() == id)
		}
	}
}
