//go:build verif

package gomatrixserverlib

import (
	"time"

	"github.com/matrix-org/gomatrixserverlib/spec"
)

const vpSevenDaysMs = 7 * 24 * 3600 * 1000

// vpStrictOracle: valid_until != 0 and at <= min(valid_until, now+7d), in unsigned millisecond arithmetic.
func vpStrictOracle(at, validUntil, nowMs uint64) bool {
	if validUntil == 0 {
		return false
	}
	limit := validUntil
	if nowMs+vpSevenDaysMs < limit {
		limit = nowMs + vpSevenDaysMs
	}
	return at <= limit
}

// vp:check C12 both timeout=900
// vp:check C06 both timeout=900
// vp_C12_validity: WasValidAt over the full 64-bit range of timestamps, strict and lenient rule.
// Timestamps are expressed as offsets from the clock reading so that a counterexample replays under the real clock.
func vp_C12_validity() {
	before := uint64(spec.AsTimestamp(time.Now()))
	expired := spec.Timestamp(before + vpNondetU64("expired_delta"))
	isExpired := vpNondetBool("is_expired")
	if !isExpired {
		expired = PublicKeyNotExpired
	}
	vu := spec.Timestamp(before + vpNondetU64("valid_until_delta"))
	if vpNondetBool("valid_until_zero") {
		vu = 0
	}
	at := spec.Timestamp(before + vpNondetU64("at_delta"))
	strict := vpNondetBool("strict")
	r := PublicKeyLookupResult{ExpiredTS: expired, ValidUntilTS: vu}
	var got bool
	if strict {
		got = r.WasValidAt(at, StrictValiditySignatureCheck)
	} else {
		got = r.WasValidAt(at, NoStrictValidityCheck)
	}
	after := uint64(spec.AsTimestamp(time.Now()))
	var wantLo, wantHi bool
	switch {
	case expired != PublicKeyNotExpired:
		wantLo = at < expired
		wantHi = wantLo
	case strict:
		wantLo = vpStrictOracle(uint64(at), uint64(vu), before)
		wantHi = vpStrictOracle(uint64(at), uint64(vu), after)
	default:
		wantLo, wantHi = true, true
	}
	// (fixed: KF-C12-1 - instants >= 2^63 ms used to compare as dates before 1970; the whole range is asserted now)
	vpAssert("validity-equivalence", got == wantLo || got == wantHi)
	vpReach("strict-accept", strict && expired == PublicKeyNotExpired && got)
	vpReach("strict-reject", strict && expired == PublicKeyNotExpired && !got && vu != 0)
	vpReach("expired-accept", expired != PublicKeyNotExpired && got)
}

// vp:check C12 both K=12 timeout=600
// vp_C12_wrap: timestamps at or above 2^63 ms (fixed: KF-C12-1): the strict rule must refuse a signature time far beyond
// valid_until_ts; inputs are independent of the clock so the finding replays deterministically.
func vp_C12_wrap() {
	at := spec.Timestamp(1<<63 + vpNondetBits("at_low", 20))
	vu := spec.Timestamp(uint64(spec.AsTimestamp(time.Now())) + 1000 + vpNondetBits("vu_low", 10))
	got := StrictValiditySignatureCheck(at, vu)
	vpAssert("late-signature-refused", !got)
	vpReach("done", true)
}
