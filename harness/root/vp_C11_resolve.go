//go:build verif

package gomatrixserverlib

import "github.com/matrix-org/gomatrixserverlib/spec"

func vpSetAuth(e PDU, auth []string, ts uint64, depth int64) PDU {
	switch x := e.(type) {
	case *eventV1:
		for _, a := range auth {
			x.AuthEvents = append(x.AuthEvents, eventReference{EventID: a})
		}
		x.eventFields.OriginServerTS = spec.Timestamp(ts)
		x.eventFields.Depth = depth
	case *eventV2:
		x.AuthEvents = auth
		x.eventFields.OriginServerTS = spec.Timestamp(ts)
		x.eventFields.Depth = depth
	case *eventV3:
		// v12: the create event is implicit in auth_events
		var rest []string
		for _, a := range auth {
			if a != vpCreateID12 {
				rest = append(rest, a)
			}
		}
		x.AuthEvents = rest
		x.eventFields.OriginServerTS = spec.Timestamp(ts)
		x.eventFields.Depth = depth
	}
	return e
}

type vpRoomHistory struct {
	ver              RoomVersion
	room, createID   string
	create, join, pl PDU
	base             []PDU
}

// vpBaseRoom: create (Alice), Alice's join, power levels (Alice 100) - the agreed part of every state set.
func vpBaseRoom(ver RoomVersion) *vpRoomHistory {
	h := &vpRoomHistory{ver: ver, createID: vpCreateID(ver)}
	h.room = vpRoomIDFor(ver, h.createID)
	createRoom := h.room
	if vpIsV12(ver) {
		createRoom = ""
	}
	h.create = vpSetAuth(vpMkEvent(ver, h.createID, createRoom, vpAlice, spec.MRoomCreate, vpStrPtr(""), vpJObj("creator", vpAlice, "room_version", string(ver))), nil, 1, 1)
	h.join = vpSetAuth(vpMkEvent(ver, "$join:x", h.room, vpAlice, spec.MRoomMember, vpStrPtr(vpAlice), vpJObj("membership", spec.Join)), []string{h.createID}, 2, 2)
	plContent := vpJObj("users", vpJObj(vpAlice, int64(100)), "state_default", int64(50), "events_default", int64(0))
	if vpIsV12(ver) {
		plContent = vpJObj("users", vpJObj(vpBob, int64(10)), "state_default", int64(50), "events_default", int64(0)) // creators must not be listed in v12
	}
	h.pl = vpSetAuth(vpMkEvent(ver, "$pl:x", h.room, vpAlice, spec.MRoomPowerLevels, vpStrPtr(""), plContent), []string{h.createID, "$join:x"}, 3, 3)
	h.base = []PDU{h.create, h.join, h.pl}
	return h
}

func vpIDSet(evs []PDU) map[string]bool {
	m := map[string]bool{}
	for _, e := range evs {
		m[e.EventID()] = true
	}
	return m
}

func vpSameIDSet(a, b []PDU) bool {
	ma, mb := vpIDSet(a), vpIDSet(b)
	if len(ma) != len(mb) {
		return false
	}
	for k := range ma {
		if !mb[k] {
			return false
		}
	}
	return true
}

func vpNotRejected(string) bool { return false }

// vp:check C10 both configs=version:10|12;shape:topic|ban-vs-name|ban-vs-invite|stale-topic|topic-cites-message K=24 timeout=1200 maporder=github.com/matrix-org/gomatrixserverlib.ResolveStateConflictsV2New|github.com/matrix-org/gomatrixserverlib.splitConflictedUnconflicted|github.com/matrix-org/gomatrixserverlib.eventMapFromEvents|github.com/matrix-org/gomatrixserverlib.kahnsAlgorithmUsingAuthEvents|github.com/matrix-org/gomatrixserverlib.kahnsAlgorithmUsingPrevEvents
// vp:check C11 both configs=version:1|10|12;shape:topic|ban-vs-name|ban-vs-invite|stale-topic|topic-cites-message K=24 timeout=1200 maporder=github.com/matrix-org/gomatrixserverlib.ResolveStateConflictsV2New|github.com/matrix-org/gomatrixserverlib.splitConflictedUnconflicted|github.com/matrix-org/gomatrixserverlib.eventMapFromEvents|github.com/matrix-org/gomatrixserverlib.kahnsAlgorithmUsingAuthEvents|github.com/matrix-org/gomatrixserverlib.kahnsAlgorithmUsingPrevEvents
// vp:check C11 both configs=version:1|2|10;shape:two-members K=24 timeout=1200 maporder=github.com/matrix-org/gomatrixserverlib.ResolveStateConflictsV2New|github.com/matrix-org/gomatrixserverlib.splitConflictedUnconflicted|github.com/matrix-org/gomatrixserverlib.eventMapFromEvents|github.com/matrix-org/gomatrixserverlib.kahnsAlgorithmUsingAuthEvents|github.com/matrix-org/gomatrixserverlib.kahnsAlgorithmUsingPrevEvents
// vp:check C18 both configs=version:2|10|12;shape:topic-cites-message|topic K=24 timeout=1200
// vp_C11_resolve: ResolveConflictsNew on two state sets forked after an agreed base (create, join, power levels):
// the result set is the same for both orders of the state sets, for permuted events inside the sets, for every map
// iteration order, with auth events listed twice; it has one event per (type, state_key), consists of supplied events,
// keeps the agreed events, and resolving two equal sets returns that state. Timestamps of the forked events are
// symbolic.
func vp_C11_resolve() {
	ver := RoomVersion(vpConfig("version"))
	h := vpBaseRoom(ver)
	authIDs := []string{h.createID, "$join:x", "$pl:x"}
	var fa, fb PDU
	tsA, tsB := 10+vpNondetBits("tsA", 4), 10+vpNondetBits("tsB", 4)
	extraAuth := []PDU{}
	switch vpConfig("shape") {
	case "topic-cites-message":
		// as "topic", but one of the two topics lists an ordinary message (no state key) among its auth events and that
		// message is supplied with the auth events: it ends up in the auth difference and goes through the same
		// machinery as state events
		msg := vpSetAuth(vpMkEvent(ver, "$msg:x", h.room, vpAlice, "m.room.message", nil, vpJObj("body", "hi")), authIDs, 5, 4)
		extraAuth = append(extraAuth, msg)
		fa = vpSetAuth(vpMkEvent(ver, "$ta:x", h.room, vpAlice, "m.room.topic", vpStrPtr(""), vpJObj("topic", "A")), append(append([]string{}, authIDs...), "$msg:x"), tsA, 6)
		fb = vpSetAuth(vpMkEvent(ver, "$tb:x", h.room, vpAlice, "m.room.topic", vpStrPtr(""), vpJObj("topic", "B")), authIDs, tsB, 4)
	case "topic":
		fa = vpSetAuth(vpMkEvent(ver, "$ta:x", h.room, vpAlice, "m.room.topic", vpStrPtr(""), vpJObj("topic", "A")), authIDs, tsA, 4)
		fb = vpSetAuth(vpMkEvent(ver, "$tb:x", h.room, vpAlice, "m.room.topic", vpStrPtr(""), vpJObj("topic", "B")), authIDs, tsB, 4)
	default:
		// Bob joined (agreed); branch A: Alice bans Bob; branch B: Bob (member) sets the room name... needs level 50: refused
		// unless the ban is not applied first; both results must still agree across presentations.
		bobJoin := vpSetAuth(vpMkEvent(ver, "$bj:x", h.room, vpBob, spec.MRoomMember, vpStrPtr(vpBob), vpJObj("membership", spec.Join)), []string{h.createID, "$pl:x"}, 4, 4)
		h.base = append(h.base, bobJoin)
		extraAuth = append(extraAuth, bobJoin)
		fa = vpSetAuth(vpMkEvent(ver, "$ban:x", h.room, vpAlice, spec.MRoomMember, vpStrPtr(vpBob), vpJObj("membership", spec.Ban)), append(authIDs, "$bj:x"), tsA, 5)
		fb = vpSetAuth(vpMkEvent(ver, "$tb:x", h.room, vpBob, "m.room.topic", vpStrPtr(""), vpJObj("topic", "B")), []string{h.createID, "$pl:x", "$bj:x"}, tsB, 5)
		if vpConfig("shape") == "ban-vs-invite" {
			// branch B: Bob invites Zara, who has no membership anywhere (invite level 0). Zara's key is missing from the
			// partial state when the invite is auth-checked, so the fall-back to the event's own auth events is taken
			// while Bob's key is already resolved (to the ban)
			fb = vpSetAuth(vpMkEvent(ver, "$inv:x", h.room, vpBob, spec.MRoomMember, vpStrPtr("@z:x"), vpJObj("membership", spec.Invite)), []string{h.createID, "$pl:x", "$bj:x"}, tsB, 5)
		}
	}
	setA := append(append([]PDU{}, h.base...), fa)
	setB := append(append([]PDU{}, h.base...), fb)
	agreed := h.base
	if vpConfig("shape") == "topic-cites-message" {
		// nothing else differs from "topic"
	} else if vpConfig("shape") == "stale-topic" {
		// Bob (level 50) joined and was later banned; the ban is part of both state sets (unconflicted). One set still
		// carries a topic Bob set while he was a member, the other a topic set by Alice. Algorithm v2 checks the
		// conflicted events on top of the unconflicted state (Bob is banned there: his topic is dropped); v2.1 starts
		// from the empty state, so Bob's topic is judged by its own auth events and competes on the mainline order.
		plc := vpJObj("users", vpJObj(vpAlice, int64(100), vpBob, int64(50)), "state_default", int64(50), "events_default", int64(0))
		if vpIsV12(ver) {
			plc = vpJObj("users", vpJObj(vpBob, int64(50)), "state_default", int64(50), "events_default", int64(0))
		}
		h.pl = vpSetAuth(vpMkEvent(ver, "$pl:x", h.room, vpAlice, spec.MRoomPowerLevels, vpStrPtr(""), plc), []string{h.createID, "$join:x"}, 3, 3)
		bobJoin := vpSetAuth(vpMkEvent(ver, "$bj:x", h.room, vpBob, spec.MRoomMember, vpStrPtr(vpBob), vpJObj("membership", spec.Join)), []string{h.createID, "$pl:x"}, 4, 4)
		ban := vpSetAuth(vpMkEvent(ver, "$ban:x", h.room, vpAlice, spec.MRoomMember, vpStrPtr(vpBob), vpJObj("membership", spec.Ban)), append(append([]string{}, authIDs...), "$bj:x"), 6, 6)
		h.base = []PDU{h.create, h.join, h.pl, ban}
		agreed = h.base
		extraAuth = append(extraAuth, bobJoin)
		fa = vpSetAuth(vpMkEvent(ver, "$ta:x", h.room, vpAlice, "m.room.topic", vpStrPtr(""), vpJObj("topic", "A")), authIDs, tsA, 7)
		fb = vpSetAuth(vpMkEvent(ver, "$tb:x", h.room, vpBob, "m.room.topic", vpStrPtr(""), vpJObj("topic", "B")), []string{h.createID, "$pl:x", "$bj:x"}, tsB, 5)
		setA = append(append([]PDU{}, h.base...), fa)
		setB = append(append([]PDU{}, h.base...), fb)
	} else if vpConfig("shape") == "two-members" {
		// two membership keys conflicted at once, the sender of one candidate being the user of the other key:
		// invite-only room; set A: Alice invites Bob, Alice invites Carol; set B: Bob has joined on that invite and
		// Bob invites Carol. The blocks of one type must be resolved against the same auth state whatever their order.
		jr := vpSetAuth(vpMkEvent(ver, "$jr:x", h.room, vpAlice, spec.MRoomJoinRules, vpStrPtr(""), vpJObj("join_rule", spec.Invite)), authIDs, 4, 4)
		h.base = append(h.base[:3:3], jr)
		agreed = h.base
		ids := append(append([]string{}, authIDs...), "$jr:x")
		bobInvite := vpSetAuth(vpMkEvent(ver, "$bi:x", h.room, vpAlice, spec.MRoomMember, vpStrPtr(vpBob), vpJObj("membership", spec.Invite)), ids, 10+vpNondetBits("ts.bi", 3), 5)
		bobJoin := vpSetAuth(vpMkEvent(ver, "$bj:x", h.room, vpBob, spec.MRoomMember, vpStrPtr(vpBob), vpJObj("membership", spec.Join)), append(append([]string{}, ids...), "$bi:x"), 20+vpNondetBits("ts.bj", 3), 6)
		carolByAlice := vpSetAuth(vpMkEvent(ver, "$ca:x", h.room, vpAlice, spec.MRoomMember, vpStrPtr(vpCarol), vpJObj("membership", spec.Invite)), ids, tsA+30, 7)
		carolByBob := vpSetAuth(vpMkEvent(ver, "$cb:x", h.room, vpBob, spec.MRoomMember, vpStrPtr(vpCarol), vpJObj("membership", spec.Invite)), append(append([]string{}, ids...), "$bj:x"), tsB+30, 8)
		fa, fb = carolByAlice, carolByBob
		extraAuth = append(extraAuth, bobInvite)
		setA = append(append([]PDU{}, h.base...), bobInvite, carolByAlice)
		setB = append(append([]PDU{}, h.base...), bobJoin, carolByBob)
	} else if vpConfig("shape") != "topic" {
		// branch A replaces Bob's join by the ban: the (member, Bob) key is not agreed
		setA = append(append([]PDU{}, h.base[:len(h.base)-1]...), fa)
		agreed = h.base[:len(h.base)-1]
	}
	// presentation 2: sets swapped, events reversed, auth events duplicated
	rev := func(s []PDU) []PDU {
		r := make([]PDU, len(s))
		for i := range s {
			r[len(s)-1-i] = s[i]
		}
		return r
	}
	auth := append(append([]PDU{}, h.base...), extraAuth...)
	if vpIsV12(ver) && !vpNondetBool("auth_lacks_forked_events") {
		// state resolution v2.1 looks the conflicted events themselves up among the auth events (see KF-C11-1)
		auth = append(auth, fa, fb)
	}
	// KF-C11-1: with algorithm v2.1 a conflicted event that is not also listed among the auth events makes
	// calculateFullAuthChainAndConflictedSubgraph insert a nil PDU into a set, which panics
	// (fixed: KF-C11-1 - a conflicted event absent from the auth events made v2.1 insert a nil PDU into a set)
	// KF-C11-2: v2.1 starts from the empty state, so when the conflicted power events are ordered the create event has
	// not been applied yet and getPowerLevelFromAuthEvents (privileged creators) panics
	// (fixed: KF-C11-2)
	auth2 := append(rev(auth), auth...)
	r1, err1 := ResolveConflictsNew(ver, [][]PDU{setA, setB}, auth, vpUserIDForSender, vpNotRejected)
	vpMapOrderReset()
	r2, err2 := ResolveConflictsNew(ver, [][]PDU{rev(setB), rev(setA)}, auth2, vpUserIDForSender, vpNotRejected)
	vpEndExpect()
	vpAssert("no-error", err1 == nil && err2 == nil)
	vpAssert("order-independent", vpSameIDSet(r1, r2))
	// well-formedness
	supplied := vpIDSet(append(append([]PDU{}, setA...), setB...))
	seen := map[StateKeyTuple]bool{}
	for _, e := range r1 {
		vpAssert("only-supplied-events", supplied[e.EventID()])
		t := StateKeyTuple{e.Type(), *e.StateKey()}
		vpAssert("one-event-per-key", !seen[t])
		seen[t] = true
	}
	got := vpIDSet(r1)
	for _, e := range agreed {
		vpAssert("agreed-events-kept", got[e.EventID()])
	}
	// equal sets resolve to themselves
	vpMapOrderReset()
	r3, err3 := ResolveConflictsNew(ver, [][]PDU{setA, rev(setA)}, auth, vpUserIDForSender, vpNotRejected)
	vpAssert("fixed-point", err3 == nil && vpSameIDSet(r3, setA))
	// the state the v2 / v2.1 algorithm defines for these shapes (C10)
	n, _ := vpVerNum(ver)
	if n >= 2 && vpConfig("shape") != "two-members" {
		if vpConfig("shape") == "stale-topic" {
			if vpIsV12(ver) {
				// v2.1: both topics pass their own auth events; the later one on the mainline order is applied last
				bWins := tsB > tsA || (tsB == tsA && fb.EventID() > fa.EventID())
				vpAssert("v2.1-empty-start-topic-winner", got[fb.EventID()] == bWins && got[fa.EventID()] == !bWins)
			} else {
				// v2: the unconflicted ban is in force when Bob's topic is checked
				vpAssert("v2-unconflicted-ban-in-force", got[fa.EventID()] && !got[fb.EventID()])
			}
			vpAssert("ban-kept", got["$ban:x"])
		} else if vpConfig("shape") == "topic" || vpConfig("shape") == "topic-cites-message" {
			// two non-power events on the same mainline position: ordered by (timestamp, ID), the later one is applied last
			bWins := tsB > tsA || (tsB == tsA && fb.EventID() > fa.EventID())
			// KF-C10-1: in v2.1 the partial state is empty, the fallback to the event's own auth events adds the event itself
			// instead of the auth event, the auth check fails for want of a create event and both candidates are dropped
			// (fixed: KF-C10-1 - under v2.1 the auth fallback supplied the event itself, so both candidates were dropped)
			vpAssert("v2-topic-winner", got[fb.EventID()] == bWins && got[fa.EventID()] == !bWins)
		} else {
			// the ban is a power event and is applied first; Bob's topic / invite then fails the auth check
			vpAssert("v2-ban-applied", got[fa.EventID()])
			vpAssert("v2-banned-users-event-dropped", !got[fb.EventID()])
		}
	}
	// which branch wins under v1 depends on SHA-1 values (idealised in the engine), so the witness is the disjunction
	vpReach("a-fork-event-wins", got[fa.EventID()] || got[fb.EventID()])
}

// vp:check C10 both configs=version:2|10|12 K=24 timeout=1200 maporder=github.com/matrix-org/gomatrixserverlib.ResolveStateConflictsV2New|github.com/matrix-org/gomatrixserverlib.splitConflictedUnconflicted|github.com/matrix-org/gomatrixserverlib.eventMapFromEvents|github.com/matrix-org/gomatrixserverlib.kahnsAlgorithmUsingAuthEvents|github.com/matrix-org/gomatrixserverlib.kahnsAlgorithmUsingPrevEvents
// vp:check C11 both configs=version:10|12 K=24 timeout=1200 maporder=github.com/matrix-org/gomatrixserverlib.ResolveStateConflictsV2New|github.com/matrix-org/gomatrixserverlib.splitConflictedUnconflicted|github.com/matrix-org/gomatrixserverlib.eventMapFromEvents|github.com/matrix-org/gomatrixserverlib.kahnsAlgorithmUsingAuthEvents|github.com/matrix-org/gomatrixserverlib.kahnsAlgorithmUsingPrevEvents
// vp_C10_power_order: two power events for one key (join rules) in two branches, sent by users of different standing:
// the power ordering sorts by the sender's power (greatest first), then timestamp, then ID, and the event applied
// last wins. Branch A's sender is the room creator or a second user (in version 12: an additional creator, whose
// power is above every level; before: a user of symbolic level), branch B's sender has a symbolic level. Both orders
// of the state sets must give the same winner, and it must be the one the ordering defines.
func vp_C10_power_order() {
	ver := RoomVersion(vpConfig("version"))
	h := &vpRoomHistory{ver: ver, createID: vpCreateID(ver)}
	h.room = vpRoomIDFor(ver, h.createID)
	createRoom := h.room
	createContent := vpJObj("creator", vpAlice, "room_version", string(ver))
	if vpIsV12(ver) {
		createRoom = ""
		createContent = vpJObj("room_version", string(ver), "additional_creators", vpJArr(vpCarol))
	}
	const lim = int64(1)<<53 - 1
	b, c := vpNondetI64("level.bob"), vpNondetI64("level.carol")
	vpAssume(b >= 50 && b <= lim && c >= 50 && c <= lim)
	create := vpSetAuth(vpMkEvent(ver, h.createID, createRoom, vpAlice, spec.MRoomCreate, vpStrPtr(""), createContent), nil, 1, 1)
	join := vpSetAuth(vpMkEvent(ver, "$join:x", h.room, vpAlice, spec.MRoomMember, vpStrPtr(vpAlice), vpJObj("membership", spec.Join)), []string{h.createID}, 2, 2)
	users := vpJObj(vpAlice, int64(100), vpBob, b, vpCarol, c)
	if vpIsV12(ver) {
		users = vpJObj(vpBob, b) // creators are not listed
	}
	pl := vpSetAuth(vpMkEvent(ver, "$pl:x", h.room, vpAlice, spec.MRoomPowerLevels, vpStrPtr(""), vpJObj("users", users, "state_default", int64(50))), []string{h.createID, "$join:x"}, 3, 3)
	base3 := []string{h.createID, "$join:x", "$pl:x"}
	jr0 := vpSetAuth(vpMkEvent(ver, "$jr0:x", h.room, vpAlice, spec.MRoomJoinRules, vpStrPtr(""), vpJObj("join_rule", spec.Public)), base3, 4, 4)
	bobJoin := vpSetAuth(vpMkEvent(ver, "$bj:x", h.room, vpBob, spec.MRoomMember, vpStrPtr(vpBob), vpJObj("membership", spec.Join)), []string{h.createID, "$pl:x", "$jr0:x"}, 5, 5)
	carolJoin := vpSetAuth(vpMkEvent(ver, "$cj:x", h.room, vpCarol, spec.MRoomMember, vpStrPtr(vpCarol), vpJObj("membership", spec.Join)), []string{h.createID, "$pl:x", "$jr0:x"}, 6, 6)
	agreed := []PDU{create, join, pl, bobJoin, carolJoin}
	senderA := vpChoice("sender_a", vpAlice, vpCarol)
	memberA := "$join:x"
	if senderA == vpCarol {
		memberA = "$cj:x"
	}
	tsA, tsB := 10+vpNondetBits("tsA", 4), 10+vpNondetBits("tsB", 4)
	fa := vpSetAuth(vpMkEvent(ver, "$jra:x", h.room, senderA, spec.MRoomJoinRules, vpStrPtr(""), vpJObj("join_rule", spec.Invite)), []string{h.createID, "$pl:x", memberA}, tsA, 7)
	fb := vpSetAuth(vpMkEvent(ver, "$jrb:x", h.room, vpBob, spec.MRoomJoinRules, vpStrPtr(""), vpJObj("join_rule", spec.Knock)), []string{h.createID, "$pl:x", "$bj:x"}, tsB, 7)
	setA := append(append([]PDU{}, agreed...), fa)
	setB := append(append([]PDU{}, agreed...), fb)
	auth := append(append([]PDU{}, agreed...), jr0)
	if vpIsV12(ver) {
		auth = append(auth, fa, fb)
	}
	r1, err1 := ResolveConflictsNew(ver, [][]PDU{setA, setB}, auth, vpUserIDForSender, vpNotRejected)
	vpMapOrderReset()
	r2, err2 := ResolveConflictsNew(ver, [][]PDU{setB, setA}, auth, vpUserIDForSender, vpNotRejected)
	vpAssert("no-error", err1 == nil && err2 == nil)
	vpAssert("order-independent", vpSameIDSet(r1, r2))
	got := vpIDSet(r1)
	for _, e := range agreed {
		vpAssert("agreed-events-kept", got[e.EventID()])
	}
	// sender power: version 12 creators (Alice, Carol) are above every level; before, the level in the users map
	aAbove, equal := true, false
	if !vpIsV12(ver) {
		pa := int64(100)
		if senderA == vpCarol {
			pa = c
		}
		aAbove, equal = pa > b, pa == b
	}
	// greatest power first; on equal power the earlier (timestamp, ID) first; the event applied last wins
	bLast := aAbove || (equal && (tsB > tsA || (tsB == tsA && fb.EventID() > fa.EventID())))
	vpAssert("winner-is-the-last-in-power-order", got[fb.EventID()] == bLast && got[fa.EventID()] == !bLast)
	vpReach("b-wins", got[fb.EventID()])
	if !vpIsV12(ver) {
		vpReach("a-wins", got[fa.EventID()])
	}
}

// vp:check C10 both configs=version:2|10|12 K=24 timeout=1200 maporder=github.com/matrix-org/gomatrixserverlib.ResolveStateConflictsV2New|github.com/matrix-org/gomatrixserverlib.splitConflictedUnconflicted|github.com/matrix-org/gomatrixserverlib.eventMapFromEvents|github.com/matrix-org/gomatrixserverlib.kahnsAlgorithmUsingAuthEvents|github.com/matrix-org/gomatrixserverlib.kahnsAlgorithmUsingPrevEvents
// vp:check C11 both configs=version:10|12 K=24 timeout=1200 maporder=github.com/matrix-org/gomatrixserverlib.ResolveStateConflictsV2New|github.com/matrix-org/gomatrixserverlib.splitConflictedUnconflicted|github.com/matrix-org/gomatrixserverlib.eventMapFromEvents|github.com/matrix-org/gomatrixserverlib.kahnsAlgorithmUsingAuthEvents|github.com/matrix-org/gomatrixserverlib.kahnsAlgorithmUsingPrevEvents
// vp_C10_mainline: a fork of the power-levels event together with two conflicting topics that both cite one of the
// two forked power-levels events (the one that wins the fork and so lies on the mainline, or the one that loses and
// lies one step off it). Both topics have the same mainline position and distance, so they are ordered by timestamp
// and ID and the later one wins - for both orders of the state sets and of the events inside them.
func vp_C10_mainline() {
	ver := RoomVersion(vpConfig("version"))
	h := vpBaseRoom(ver)
	base3 := []string{h.createID, "$join:x", "$pl:x"}
	users := vpJObj(vpAlice, int64(100))
	if vpIsV12(ver) {
		users = vpJObj(vpBob, int64(10))
	}
	tsPA, tsPB := 10+vpNondetBits("ts.pla", 3), 10+vpNondetBits("ts.plb", 3)
	plA := vpSetAuth(vpMkEvent(ver, "$pla:x", h.room, vpAlice, spec.MRoomPowerLevels, vpStrPtr(""), vpJObj("users", users, "state_default", int64(50), "ban", int64(60))), base3, tsPA, 4)
	plB := vpSetAuth(vpMkEvent(ver, "$plb:x", h.room, vpAlice, spec.MRoomPowerLevels, vpStrPtr(""), vpJObj("users", users, "state_default", int64(50), "ban", int64(70))), base3, tsPB, 4)
	cited := vpChoice("topics_cite", "$pla:x", "$plb:x")
	tsA, tsB := 30+vpNondetBits("tsA", 4), 30+vpNondetBits("tsB", 4)
	ta := vpSetAuth(vpMkEvent(ver, "$ta:x", h.room, vpAlice, "m.room.topic", vpStrPtr(""), vpJObj("topic", "A")), []string{h.createID, "$join:x", cited}, tsA, 5)
	tb := vpSetAuth(vpMkEvent(ver, "$tb:x", h.room, vpAlice, "m.room.topic", vpStrPtr(""), vpJObj("topic", "B")), []string{h.createID, "$join:x", cited}, tsB, 5)
	agreed := []PDU{h.create, h.join}
	setA := []PDU{h.create, h.join, plA, ta}
	setB := []PDU{h.create, h.join, plB, tb}
	if vpNondetBool("topics_swapped") {
		setA, setB = []PDU{h.create, h.join, plA, tb}, []PDU{h.create, h.join, plB, ta}
	}
	auth := []PDU{h.create, h.join, h.pl}
	if vpIsV12(ver) {
		auth = append(auth, plA, plB, ta, tb)
	}
	rev := func(s []PDU) []PDU {
		r := make([]PDU, len(s))
		for i := range s {
			r[len(s)-1-i] = s[i]
		}
		return r
	}
	r1, err1 := ResolveConflictsNew(ver, [][]PDU{setA, setB}, auth, vpUserIDForSender, vpNotRejected)
	vpMapOrderReset()
	r2, err2 := ResolveConflictsNew(ver, [][]PDU{rev(setB), rev(setA)}, rev(auth), vpUserIDForSender, vpNotRejected)
	vpAssert("no-error", err1 == nil && err2 == nil)
	vpAssert("order-independent", vpSameIDSet(r1, r2))
	got := vpIDSet(r1)
	for _, e := range agreed {
		vpAssert("agreed-events-kept", got[e.EventID()])
	}
	// the power-levels fork: same sender, so (timestamp, ID) decides; the later one is applied last
	plBWins := tsPB > tsPA || (tsPB == tsPA && plB.EventID() > plA.EventID())
	vpAssert("power-levels-winner", got[plB.EventID()] == plBWins && got[plA.EventID()] == !plBWins)
	// the topics: same mainline position and distance whichever power-levels event they cite
	tbWins := tsB > tsA || (tsB == tsA && tb.EventID() > ta.EventID())
	vpAssert("topic-winner-by-timestamp-and-id", got[tb.EventID()] == tbWins && got[ta.EventID()] == !tbWins)
	vpReach("topics-cite-the-losing-power-levels", (cited == "$plb:x") == !plBWins)
	vpReach("topics-cite-the-winning-power-levels", (cited == "$plb:x") == plBWins)
}
