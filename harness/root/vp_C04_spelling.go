//go:build verif

package gomatrixserverlib

import (
	"encoding/json"
	"time"

	"github.com/matrix-org/gomatrixserverlib/spec"
	"golang.org/x/crypto/ed25519"
)

// vp:check C04 both configs=version:1|3|6|10|11|12 spelling=1 K=12 timeout=600
// vp_C04_spelling: the hash check on receipt with fields that contain a character encoding/json.Marshal spells
// differently from canonical JSON ('<', '>', '&', U+2028, U+2029 in the event type, state key or a content string): an
// untampered event, also with a receipt-only key added (`unsigned` holding such characters) and also when it arrives in
// the HTML-escaped spelling, is returned intact; a changed redactable content string yields the redacted form with the
// ID and the signature validity of the original. spelling=1 as in vp_C03_spelling (DESIGN.md 12.1 round 7).
func vp_C04_spelling() {
	ver := RoomVersion(vpConfig("version"))
	verImpl, err := GetRoomVersion(ver)
	vpAssume(err == nil)
	pubB, privB := vpKey("origin")
	pub, priv := ed25519.PublicKey(pubB), ed25519.PrivateKey(privB)
	room := vpRoomIDFor(ver, vpCreateID12)
	special := vpChoice("special", "<", ">", "&", " ", " ", "plain")
	body, typ, sk := "text", "m.room.message", ""
	switch vpChoice("where", "content-string", "type", "state_key") {
	case "content-string":
		body = "a" + special + "b"
	case "type":
		typ = "org.example." + special
	case "state_key":
		sk = special
	}
	prev := []string{"$p1:x"}
	auth := []string{"$a1:x"}
	if vpSpecTraits(ver).idFormat != EventIDFormatV1 {
		prev = []string{"$0123456789012345678901234567890123456789abc"}
		auth = []string{"$0123456789012345678901234567890123456789abd"}
	}
	eb := verImpl.NewEventBuilderFromProtoEvent(&ProtoEvent{
		SenderID: vpAlice, RoomID: room, Type: typ, StateKey: &sk, PrevEvents: prev, AuthEvents: auth,
		Depth: 7, Content: vpJObj("body", body),
	})
	ev, err := eb.Build(time.Unix(1700000000, 0), "x", "ed25519:1", priv)
	vpAssume(err == nil)

	raw := ev.JSON()
	tamper := vpChoice("tamper", "none", "remarshalled", "unsigned", "content-string")
	if tamper != "none" {
		var m map[string]spec.RawJSON
		vpAssume(json.Unmarshal(raw, &m) == nil)
		switch tamper {
		case "unsigned":
			m["unsigned"] = vpJObj("note", "<"+special+">")
		case "content-string":
			m["content"] = vpJObj("body", "other"+special)
		}
		// what encoding/json writes: the HTML-escaped spelling of the same value
		raw, err = json.Marshal(m)
		vpAssume(err == nil)
	}
	got, err := verImpl.NewEventFromUntrustedJSON(raw)
	vpAssert("parses", err == nil)
	if err != nil {
		return
	}
	vpAssert("redacted-flag", got.Redacted() == (tamper == "content-string"))
	vpAssert("type", got.Type() == typ)
	vpAssert("state-key", got.StateKey() != nil && *got.StateKey() == sk)
	if vpSpecTraits(ver).idFormat != EventIDFormatV1 {
		vpAssert("id-of-original", got.EventID() == ev.EventID())
	}
	var c map[string]spec.RawJSON
	vpAssert("content-parses", json.Unmarshal(got.Content(), &c) == nil)
	_, hasBody := c["body"]
	vpAssert("body-visibility", hasBody == (tamper != "content-string"))
	if hasBody {
		var b string
		vpAssert("body-intact", json.Unmarshal(c["body"], &b) == nil && b == body)
	}
	red, err := verImpl.RedactEventJSON(got.JSON())
	vpAssert("redactable", err == nil)
	if err == nil {
		vpAssert("signature-of-original", VerifyJSON("x", "ed25519:1", pub, red) == nil)
	}
	vpReach("redacted", got.Redacted())
	vpReach("intact", !got.Redacted())
}
