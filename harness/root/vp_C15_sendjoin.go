//go:build verif

package gomatrixserverlib

import (
	"context"
	"encoding/json"
	"errors"
	"time"

	"github.com/matrix-org/gomatrixserverlib/spec"
	"golang.org/x/crypto/ed25519"
)

type vpMembershipQuerier struct{ membership string }

func (q *vpMembershipQuerier) CurrentMembership(ctx context.Context, roomID spec.RoomID, senderID spec.SenderID) (string, error) {
	return q.membership, nil
}

func vpNoStore(ctx context.Context, senderID spec.SenderID, userID string, id spec.RoomID) error { return nil }

// vp:check C15 both configs=version:1|10|12 K=24 timeout=1200
// vp_C15_send_join: HandleSendJoin accepts exactly when the event is a join whose sender equals its state key, whose
// room and event ID match the request, whose sender belongs to the requesting server, which that server has validly
// signed, whose user is not banned and whose authorising user (if any) is local; the returned event carries a valid
// signature of the local server over the unmodified event.
func vp_C15_send_join() {
	ver := RoomVersion(vpConfig("version"))
	verImpl, err := GetRoomVersion(ver)
	vpAssume(err == nil)
	pubY, privY := vpKey("server-y")
	_, privBad := vpKey("intruder")
	pubL, privL := vpKey("local")
	room := vpRoomIDFor(ver, vpCreateID12)
	user := "@b:y"
	membership := vpChoice("membership", spec.Join, spec.Leave)
	skSame := vpNondetBool("state_key_is_sender")
	sk := user
	if !skSame {
		sk = "@c:y"
	}
	via := vpChoice("via", "", "@l:local", "@r:remote")
	content := vpJObj("membership", membership)
	if via != "" {
		content = vpJObj("membership", membership, "join_authorised_via_users_server", via)
	}
	// the event type: a "join" must be an m.room.member event, whatever its content says
	typ := vpChoice("type", spec.MRoomMember, spec.MRoomTopic, "m.room.message")
	goodSig := vpNondetBool("good_signature")
	key := ed25519.PrivateKey(privY)
	if !goodSig {
		key = ed25519.PrivateKey(privBad)
	}
	prev, auth := []string{"$p1:y"}, []string{"$a1:y"}
	if vpSpecTraits(ver).idFormat != EventIDFormatV1 {
		prev = []string{"$0123456789012345678901234567890123456789abc"}
		auth = []string{"$0123456789012345678901234567890123456789abd"}
	}
	eb := verImpl.NewEventBuilderFromProtoEvent(&ProtoEvent{SenderID: user, RoomID: room, Type: typ, StateKey: &sk, PrevEvents: prev, AuthEvents: auth, Depth: 5, Content: content})
	ev, err := eb.Build(time.Unix(1700000000, 0), "y", "ed25519:1", key)
	vpAssume(err == nil)

	reqRoomOK := vpNondetBool("request_room_matches")
	reqRoom := room
	if !reqRoomOK {
		reqRoom = "!other:y"
		if vpIsV12(ver) {
			reqRoom = "!1123456789012345678901234567890123456789012"
		}
	}
	rid, err := spec.NewRoomID(reqRoom)
	vpAssume(err == nil)
	reqIDOK := vpNondetBool("request_event_id_matches")
	reqID := ev.EventID()
	if !reqIDOK {
		reqID = "$nope"
	}
	origin := spec.ServerName(vpChoice("origin", "y", "z"))
	existing := vpChoice("existing_membership", "", spec.Join, spec.Ban, spec.Leave)
	verifier := &vpKeyVerifier{keys: map[spec.ServerName]ed25519.PublicKey{"y": ed25519.PublicKey(pubY)}}

	res, herr := HandleSendJoin(HandleSendJoinInput{
		Context: context.Background(), RoomID: *rid, EventID: reqID, JoinEvent: ev.JSON(), RoomVersion: ver,
		RequestOrigin: origin, LocalServerName: "local", KeyID: "ed25519:L", PrivateKey: ed25519.PrivateKey(privL),
		Verifier: verifier, MembershipQuerier: &vpMembershipQuerier{existing}, UserIDQuerier: vpUserIDForSender,
		StoreSenderIDFromPublicID: vpNoStore,
	})
	want := typ == spec.MRoomMember && membership == spec.Join && skSame && reqRoomOK && reqIDOK && origin == "y" && goodSig && existing != spec.Ban && via != "@r:remote"
	vpAssert("admission", (herr == nil) == want)
	if herr == nil {
		vpAssert("already-joined-flag", res.AlreadyJoined == (existing == spec.Join))
		out := res.JoinEvent
		vpAssert("same-event", out.EventID() == ev.EventID() && out.Type() == ev.Type() && string(out.SenderID()) == user)
		red, err := verImpl.RedactEventJSON(out.JSON())
		vpAssert("redactable", err == nil)
		if err == nil {
			vpAssert("local-signature-valid", VerifyJSON("local", "ed25519:L", ed25519.PublicKey(pubL), red) == nil)
			vpAssert("origin-signature-kept", VerifyJSON("y", "ed25519:1", ed25519.PublicKey(pubY), red) == nil)
		}
	}
	vpReach("accepted", herr == nil)
	vpReach("rejected", herr != nil)
}

// vp:check C15 both K=24 timeout=1200
// vp_C15_send_join_pseudo: HandleSendJoin in the pseudo-ID room version (org.matrix.msc4014): the join is signed with
// the per-room key that is its sender ID and carries an mxid_mapping signed by the user's server. It is accepted
// exactly when the mapping is validly signed by that server, the mapped user belongs to the requesting server, the
// event is validly signed with the per-room key, and the usual room / event-ID / membership / ban conditions hold.
func vp_C15_send_join_pseudo() {
	ver := RoomVersionPseudoIDs
	verImpl, err := GetRoomVersion(ver)
	vpAssume(err == nil)
	pubY, privY := vpKey("server-y")
	_, privBad := vpKey("intruder")
	pubL, privL := vpKey("local")
	_, roomKey := vpKey("room-key-of-b")
	_, otherRoomKey := vpKey("another-room-key")
	sid := spec.SenderIDFromPseudoIDKey(ed25519.PrivateKey(roomKey))
	room := vpRoom
	user := "@b:y"

	mapping := MXIDMapping{UserRoomKey: sid, UserID: user}
	mappingKey := ed25519.PrivateKey(privY)
	// the mapping is signed by the user's server, by somebody else under that server's name, or not at all
	mappingSig := vpChoice("mapping_signature", "good", "bad", "none", "empty-object")
	goodMapping := mappingSig == "good"
	if mappingSig == "bad" {
		mappingKey = ed25519.PrivateKey(privBad)
	}
	if mappingSig == "good" || mappingSig == "bad" {
		vpAssume(mapping.Sign("y", "ed25519:1", mappingKey) == nil)
	} else if mappingSig == "empty-object" {
		mapping.Signatures = map[spec.ServerName]map[KeyID]spec.Base64Bytes{}
	}
	membership := vpChoice("membership", spec.Join, spec.Leave)
	content, err := json.Marshal(map[string]interface{}{"membership": membership, "mxid_mapping": mapping})
	vpAssume(err == nil)

	goodSig := vpNondetBool("event_signature_good")
	evKey := ed25519.PrivateKey(roomKey)
	if !goodSig {
		evKey = ed25519.PrivateKey(otherRoomKey)
	}
	sk := string(sid)
	eb := verImpl.NewEventBuilderFromProtoEvent(&ProtoEvent{SenderID: string(sid), RoomID: room, Type: spec.MRoomMember, StateKey: &sk,
		PrevEvents: []string{"$0123456789012345678901234567890123456789abc"}, AuthEvents: []string{"$0123456789012345678901234567890123456789abd"}, Depth: 5, Content: content})
	ev, err := eb.Build(time.Unix(1700000000, 0), spec.ServerName(sid), "ed25519:1", evKey)
	vpAssume(err == nil)

	rid, err := spec.NewRoomID(room)
	vpAssume(err == nil)
	origin := spec.ServerName(vpChoice("origin", "y", "z"))
	existing := vpChoice("existing_membership", "", spec.Join, spec.Ban)
	verifier := &vpKeyVerifier{keys: map[spec.ServerName]ed25519.PublicKey{"y": ed25519.PublicKey(pubY)}}
	stored := ""
	querier := func(roomID spec.RoomID, senderID spec.SenderID) (*spec.UserID, error) {
		if senderID == sid {
			return spec.NewUserID(user, true)
		}
		return nil, errors.New("unknown sender ID")
	}
	res, herr := HandleSendJoin(HandleSendJoinInput{
		Context: context.Background(), RoomID: *rid, EventID: ev.EventID(), JoinEvent: ev.JSON(), RoomVersion: ver,
		RequestOrigin: origin, LocalServerName: "local", KeyID: "ed25519:L", PrivateKey: ed25519.PrivateKey(privL),
		Verifier: verifier, MembershipQuerier: &vpMembershipQuerier{existing}, UserIDQuerier: querier,
		StoreSenderIDFromPublicID: func(ctx context.Context, senderID spec.SenderID, userID string, id spec.RoomID) error {
			stored = string(senderID) + "=" + userID
			return nil
		},
	})
	want := membership == spec.Join && goodMapping && origin == "y" && goodSig && existing != spec.Ban
	vpAssert("admission", (herr == nil) == want)
	if herr == nil {
		vpAssert("mapping-stored", stored == string(sid)+"="+user)
		red, err := verImpl.RedactEventJSON(res.JoinEvent.JSON())
		vpAssert("redactable", err == nil)
		if err == nil {
			vpAssert("local-signature-valid", VerifyJSON("local", "ed25519:L", ed25519.PublicKey(pubL), red) == nil)
		}
	}
	if !goodMapping {
		vpAssert("unverified-mapping-not-stored", stored == "")
	}
	vpReach("accepted", herr == nil)
	vpReach("rejected", herr != nil)
}
