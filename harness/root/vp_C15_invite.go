//go:build verif

package gomatrixserverlib

import (
	"context"
	"time"

	"github.com/matrix-org/gomatrixserverlib/spec"
	"golang.org/x/crypto/ed25519"
)

type vpRoomQuerier struct{ known bool }

func (q *vpRoomQuerier) IsKnownRoom(ctx context.Context, roomID spec.RoomID) (bool, error) {
	return q.known, nil
}

type vpStateQuerier struct{ state []PDU }

func (q *vpStateQuerier) GetAuthEvents(ctx context.Context, event PDU) (AuthEventProvider, error) {
	return NewAuthEvents(nil)
}
func (q *vpStateQuerier) GetState(ctx context.Context, roomID spec.RoomID, want []StateKeyTuple) ([]PDU, error) {
	return q.state, nil
}

// vp:check C15 both configs=version:1|10 K=24 timeout=1200
// vp_C15_invite: HandleInvite accepts an invite only if its room matches the request, the inviting server validly signed
// it and the invited user is not already joined to a room this server knows; what it returns carries a valid
// signature of the invited user's server over the unmodified event. Stripped state supplied or not.
func vp_C15_invite() {
	ver := RoomVersion(vpConfig("version"))
	verImpl, err := GetRoomVersion(ver)
	vpAssume(err == nil)
	pubY, privY := vpKey("server-y")
	_, privBad := vpKey("intruder")
	pubL, privL := vpKey("local-x")
	goodSig := vpNondetBool("good_signature")
	key := ed25519.PrivateKey(privY)
	if !goodSig {
		key = ed25519.PrivateKey(privBad)
	}
	invited := vpBob // @b:x - local server is x
	prev, auth := []string{"$p1:y"}, []string{"$a1:y"}
	if vpSpecTraits(ver).idFormat != EventIDFormatV1 {
		prev = []string{"$0123456789012345678901234567890123456789abc"}
		auth = []string{"$0123456789012345678901234567890123456789abd"}
	}
	// what the remote server asks us to counter-sign: it must be an invite (m.room.member, membership invite) of the invited user
	typ := vpChoice("type", spec.MRoomMember, spec.MRoomTopic)
	membership := vpChoice("membership", spec.Invite, spec.Ban, spec.Join, spec.Leave)
	target := vpChoice("state_key", invited, "@d:x", vpCarol)
	eb := verImpl.NewEventBuilderFromProtoEvent(&ProtoEvent{SenderID: vpCarol, RoomID: vpRoom, Type: typ, StateKey: &target,
		PrevEvents: prev, AuthEvents: auth, Depth: 5, Content: vpJObj("membership", membership)})
	ev, err := eb.Build(time.Unix(1700000000, 0), "y", "ed25519:1", key)
	vpAssume(err == nil)

	reqRoomOK := vpNondetBool("request_room_matches")
	reqRoom := vpRoom
	if !reqRoomOK {
		reqRoom = vpRoom2
	}
	rid, err := spec.NewRoomID(reqRoom)
	vpAssume(err == nil)
	uid, err := spec.NewUserID(invited, true)
	vpAssume(err == nil)
	known := vpNondetBool("room_known")
	existing := vpChoice("existing_membership", "", spec.Join, spec.Leave, spec.Invite)
	var stripped []InviteStrippedState
	withStripped := vpNondetBool("stripped_state_supplied")
	nameEv := vpMkEvent(ver, "$n:y", vpRoom, vpCarol, spec.MRoomName, vpStrPtr(""), vpJObj("name", "room"))
	if withStripped {
		stripped = []InviteStrippedState{NewInviteStrippedState(nameEv)}
	}
	serverHasState := vpNondetBool("server_has_state")
	var st []PDU
	if serverHasState {
		st = []PDU{nameEv}
	}
	verifier := &vpKeyVerifier{keys: map[spec.ServerName]ed25519.PublicKey{"y": ed25519.PublicKey(pubY)}}
	out, herr := HandleInvite(context.Background(), HandleInviteInput{
		RoomID: *rid, RoomVersion: ver, InvitedUser: *uid, InvitedSenderID: spec.SenderID(invited), InviteEvent: ev, StrippedState: stripped,
		KeyID: "ed25519:L", PrivateKey: ed25519.PrivateKey(privL), Verifier: verifier,
		RoomQuerier: &vpRoomQuerier{known}, MembershipQuerier: &vpMembershipQuerier{existing}, StateQuerier: &vpStateQuerier{st}, UserIDQuerier: vpUserIDForSender,
	})
	haveState := withStripped || serverHasState
	isInvite := typ == spec.MRoomMember && membership == spec.Invite && target == invited
	want := isInvite && reqRoomOK && goodSig && !(known && existing == spec.Join) && !(known && !haveState)
	vpAssert("admission", (herr == nil) == want)
	if herr == nil {
		vpAssert("same-event", out.EventID() == ev.EventID() && out.Type() == spec.MRoomMember && out.StateKeyEquals(invited))
		red, err := verImpl.RedactEventJSON(out.JSON())
		vpAssert("redactable", err == nil)
		if err == nil {
			vpAssert("local-signature-valid", VerifyJSON("x", "ed25519:L", ed25519.PublicKey(pubL), red) == nil)
			vpAssert("origin-signature-kept", VerifyJSON("y", "ed25519:1", ed25519.PublicKey(pubY), red) == nil)
		}
	}
	vpReach("accepted", herr == nil)
	vpReach("rejected", herr != nil)
}
