//go:build verif

package gomatrixserverlib

func vpIsHex(c byte) bool {
	return (c >= '0' && c <= '9') || (c >= 'a' && c <= 'f') || (c >= 'A' && c <= 'F')
}

func vpHexVal(c byte) rune {
	switch {
	case c >= '0' && c <= '9':
		return rune(c - '0')
	case c >= 'a' && c <= 'f':
		return rune(c-'a') + 10
	default:
		return rune(c-'A') + 10
	}
}

// vp:check C01 both
// vp_C01_hex: for all 4 hex-digit bytes readHexDigits returns their value.
func vp_C01_hex() {
	b := vpNondetBytes("b", 4)
	for i := 0; i < 4; i++ {
		vpAssume(vpIsHex(b[i]))
	}
	got := readHexDigits(b)
	var want rune
	for i := 0; i < 4; i++ {
		want = want<<4 | vpHexVal(b[i])
	}
	vpAssert("hex-value", got == want)
	vpReach("beef", got == 0xBEEF)
}
