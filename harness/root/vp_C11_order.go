//go:build verif

package gomatrixserverlib

import "github.com/matrix-org/gomatrixserverlib/spec"

// vpDAG builds n events e0..e(n-1) of room version 10; event i may reference any earlier event j<i (auth and prev
// edges are the same symbolic booleans), timestamps are symbolic 8-bit values.
func vpDAG(n int) []PDU {
	evs := make([]PDU, n)
	ids := []string{"$e0:x", "$e1:x", "$e2:x", "$e3:x"}
	for i := 0; i < n; i++ {
		var refs []string
		for j := 0; j < i; j++ {
			if vpEdge(i, j) {
				refs = append(refs, ids[j])
			}
		}
		e := vpMkEvent(RoomVersionV10, ids[i], vpRoom, vpAlice, "m.room.name", vpStrPtr("k"+string(rune('0'+i))), vpJObj("name", "n")).(*eventV2)
		e.AuthEvents = refs
		e.PrevEvents = refs
		e.eventFields.OriginServerTS = spec.Timestamp(vpNondetBits("ts"+string(rune('0'+i)), 8))
		evs[i] = e
	}
	return evs
}

// vpEdge: edge pattern taken from the configuration value "edges" (bit k = k-th possible edge), so that patterns
// run as parallel jobs.
func vpEdge(i, j int) bool {
	k := i*(i-1)/2 + j
	return (vpConfigInt("edges")>>uint(k))&1 == 1
}

var vpPerms3 = [][]int{{0, 1, 2}, {0, 2, 1}, {1, 0, 2}, {1, 2, 0}, {2, 0, 1}, {2, 1, 0}}

func vpPermute3(name string, evs []PDU) []PDU {
	p := vpPerms3[vpNondetInt(name, 0, 5)]
	return []PDU{evs[p[0]], evs[p[1]], evs[p[2]]}
}

func vpIndexOf(list []PDU, id string) int {
	for i, e := range list {
		if e.EventID() == id {
			return i
		}
	}
	return -1
}

func vpCheckOrdering(label string, evs, out []PDU, refsOf func(PDU) []string) {
	vpAssert(label+":permutation-length", len(out) == len(evs))
	for _, e := range evs {
		vpAssert(label+":contains-each-input", vpIndexOf(out, e.EventID()) >= 0)
	}
	for i, e := range out {
		for _, ref := range refsOf(e) {
			if j := vpIndexOf(out, ref); j >= 0 {
				vpAssert(label+":after-ancestors", j < i)
			}
		}
	}
}

func vpSameSeq(a, b []PDU) bool {
	if len(a) != len(b) {
		return false
	}
	for i := range a {
		if a[i].EventID() != b[i].EventID() {
			return false
		}
	}
	return true
}

// vpKahnRef: the library's published procedure (refinement R1): repeatedly take, among the events that no remaining event
// refers to, the greatest one in (timestamp asc, ID asc) order - all senders have power 0 here - and prepend it.
func vpKahnRef(evs []PDU, refsOf func(PDU) []string) []PDU {
	remaining := append([]PDU{}, evs...)
	var result []PDU
	for len(remaining) > 0 {
		best := -1
		for i, e := range remaining {
			referenced := false
			for _, o := range remaining {
				for _, r := range refsOf(o) {
					if r == e.EventID() {
						referenced = true
					}
				}
			}
			if referenced {
				continue
			}
			if best < 0 {
				best = i
				continue
			}
			b := remaining[best]
			greater := e.OriginServerTS() > b.OriginServerTS() || (e.OriginServerTS() == b.OriginServerTS() && e.EventID() > b.EventID())
			if greater {
				best = i
			}
		}
		if best < 0 {
			return nil // cycle: not for DAG inputs
		}
		result = append([]PDU{remaining[best]}, result...)
		remaining = append(remaining[:best:best], remaining[best+1:]...)
	}
	return result
}

// vp:check C10 both configs=order:auth|prev;edges:0|1|2|3|4|5|6|7 K=24 timeout=900 maporder=github.com/matrix-org/gomatrixserverlib.kahnsAlgorithmUsingAuthEvents|github.com/matrix-org/gomatrixserverlib.kahnsAlgorithmUsingPrevEvents
// vp:check C11 both configs=order:auth|prev;edges:0|1|2|3|4|5|6|7 K=24 timeout=900 maporder=github.com/matrix-org/gomatrixserverlib.kahnsAlgorithmUsingAuthEvents|github.com/matrix-org/gomatrixserverlib.kahnsAlgorithmUsingPrevEvents
// vp_C11_topological: for every DAG over 3 events (all edge patterns, symbolic timestamps), every presentation order
// and every map iteration order, ReverseTopologicalOrdering returns a permutation of the inputs in which each event
// follows its referenced ancestors, and the result does not depend on presentation or map order.
func vp_C11_topological() {
	evs := vpDAG(3)
	order := TopologicalOrderByAuthEvents
	refs := func(e PDU) []string { return e.AuthEventIDs() }
	if vpConfig("order") == "prev" {
		order = TopologicalOrderByPrevEvents
		refs = func(e PDU) []string { return e.PrevEventIDs() }
	}
	in1 := evs
	in2 := vpPermute3("perm2", evs)
	out1 := ReverseTopologicalOrdering(in1, order)
	out2 := ReverseTopologicalOrdering(in2, order)
	vpCheckOrdering("run1", evs, out1, refs)
	vpAssert("order-independent", vpSameSeq(out1, out2))
	// an event listed twice (state resolution hands over lists with repeated entries): still a permutation of the
	// distinct inputs, each after its ancestors, and the same sequence
	dup := evs[vpNondetInt("duplicated", 0, 2)]
	in3 := append(append([]PDU{}, in2...), dup)
	if vpNondetBool("duplicate_first") {
		in3 = append([]PDU{dup}, in2...)
	}
	out3 := ReverseTopologicalOrdering(in3, order)
	vpCheckOrdering("with-duplicate", evs, out3, refs)
	vpAssert("duplicate-changes-nothing", vpSameSeq(out1, out3))
	if vpConfig("order") == "auth" {
		// mainline position/steps are all equal here, so the prev-events order also reduces to (ts, id); the auth order is
		// compared with the published procedure
		vpAssert("equals-published-procedure", vpSameSeq(out1, vpKahnRef(evs, refs)))
	} else {
		vpAssert("equals-published-procedure", vpSameSeq(out1, vpKahnRef(evs, refs)))
	}
	vpReach("done", true)
}
