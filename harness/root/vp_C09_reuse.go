//go:build verif

package gomatrixserverlib

import (
	"github.com/matrix-org/gomatrixserverlib/spec"
	"golang.org/x/crypto/ed25519"
)

// vpC09State builds an auth state: create (by Carol), join rules, power levels (Carol's level, invite threshold),
// Carol joined, optional memberships of Alice and Bob.
type vpC09State struct {
	ver      RoomVersion
	room     string
	createID string
	events   []PDU
}

func vpC09Build(ver RoomVersion) *vpC09State {
	s := &vpC09State{ver: ver, createID: vpCreateID(ver)}
	s.room = vpRoomIDFor(ver, s.createID)
	createRoom := s.room
	if vpIsV12(ver) {
		createRoom = ""
	}
	s.events = append(s.events, vpMkEvent(ver, s.createID, createRoom, vpCarol, spec.MRoomCreate, vpStrPtr(""), vpJObj("creator", vpCarol, "room_version", string(ver))))
	jr := vpChoice("join_rule", spec.Public, spec.Invite, spec.Restricted, spec.KnockRestricted, spec.Knock)
	s.events = append(s.events, vpMkEvent(ver, "$jr:y", s.room, vpCarol, spec.MRoomJoinRules, vpStrPtr(""), vpJObj("join_rule", jr)))
	pl := vpJObj("users", vpJObj(vpCarol, vpNondetI64("lvl.carol"), vpBob, vpNondetI64("lvl.bob")), "invite", vpNondetI64("lvl.invite"), "events_default", vpNondetI64("lvl.events_default"))
	s.events = append(s.events, vpMkEvent(ver, "$pl:y", s.room, vpCarol, spec.MRoomPowerLevels, vpStrPtr(""), pl))
	s.events = append(s.events, vpMkEvent(ver, "$mc:y", s.room, vpCarol, spec.MRoomMember, vpStrPtr(vpCarol), vpJObj("membership", spec.Join)))
	// optionally a pending third-party invite (token "tok") issued through an identity server
	if vpNondetBool("tpi_in_state") {
		idPub, _ := vpKey("identity-server")
		k := spec.Base64Bytes(idPub).Encode()
		// issued by any of the three users (only its issuer may redeem it)
		s.events = append(s.events, vpMkEvent(ver, "$tpi:y", s.room, vpChoice("tpi_issuer", vpCarol, vpAlice, vpBob), spec.MRoomThirdPartyInvite, vpStrPtr("tok"),
			vpJObj("display_name", "d", "key_validity_url", "https://id.example/valid", "public_key", k,
				"public_keys", vpJArr(vpJObj("public_key", k, "key_validity_url", "https://id.example/valid")))))
	}
	for _, u := range []string{vpAlice, vpBob} {
		m := vpChoice("member."+u, "", spec.Join, spec.Invite, spec.Leave)
		if m != "" {
			s.events = append(s.events, vpMkEvent(ver, "$m"+u[1:2]+":x", s.room, u, spec.MRoomMember, vpStrPtr(u), vpJObj("membership", m)))
		}
	}
	return s
}

// vpC09Signed: the `signed` block of a third-party invite for target, signed by the identity server (or an impostor).
func vpC09Signed(target string, good bool) []byte {
	_, priv := vpKey("identity-server")
	if !good {
		_, priv = vpKey("impostor")
	}
	doc, err := SignJSON("id.example", "ed25519:0", ed25519.PrivateKey(priv), vpJObj("mxid", target, "token", "tok"))
	vpAssume(err == nil)
	// identity servers may sign with further algorithms: a second key ID of another algorithm sits next to the
	// ed25519 one (the order in which the two are visited is up to the map)
	doc, err = SignJSON("id.example", "rsa:1", ed25519.PrivateKey(priv), doc)
	vpAssume(err == nil)
	return doc
}

// vpC09Event: an event by user u: a membership change (join with or without authoriser, leave, knock; a join or an
// invite of a third user carrying a third_party_invite block) or a message.
func vpC09Event(s *vpC09State, name, u string) PDU {
	return vpC09EventOfKind(s, name, u, vpChoice(name+".kind", "join", "join-via", "leave", "knock", "message", "join-tpi", "invite-tpi"))
}

func vpC09EventOfKind(s *vpC09State, name, u, kind string) PDU {
	id := "$" + name + ":x"
	switch kind {
	case "join-tpi":
		tpi := vpJObj("display_name", "d", "signed", vpC09Signed(u, true))
		return vpMkEvent(s.ver, id, s.room, u, spec.MRoomMember, vpStrPtr(u), vpJObj("membership", spec.Join, "third_party_invite", tpi))
	case "invite-tpi":
		tpi := vpJObj("display_name", "d", "signed", vpC09Signed("@d:x", vpNondetBool(name+".tpi_signature_good")))
		return vpMkEvent(s.ver, id, s.room, u, spec.MRoomMember, vpStrPtr("@d:x"), vpJObj("membership", spec.Invite, "third_party_invite", tpi))
	case "join":
		return vpMkEvent(s.ver, id, s.room, u, spec.MRoomMember, vpStrPtr(u), vpJObj("membership", spec.Join))
	case "join-via":
		return vpMkEvent(s.ver, id, s.room, u, spec.MRoomMember, vpStrPtr(u), vpJObj("membership", spec.Join, "join_authorised_via_users_server", vpCarol))
	case "leave":
		return vpMkEvent(s.ver, id, s.room, u, spec.MRoomMember, vpStrPtr(u), vpJObj("membership", spec.Leave))
	case "knock":
		return vpMkEvent(s.ver, id, s.room, u, spec.MRoomMember, vpStrPtr(u), vpJObj("membership", spec.Knock))
	}
	return vpMkEvent(s.ver, id, s.room, u, "m.room.message", nil, vpJObj("body", "x"))
}

// vp:check C09 quick configs=version:1|10|12;first:join|join-via|leave|knock|message|join-tpi|invite-tpi K=12 timeout=900
// vp:check C09 thorough configs=version:ALLVERSIONS;first:join|join-via|leave|knock|message|join-tpi|invite-tpi K=12 timeout=1800
// vp_C09_reuse: the verdict for an event checked through a reused checker (after another event was checked and the
// checker was updated with the same provider, as state resolution does) equals the verdict of a fresh check.
func vp_C09_reuse() {
	ver := RoomVersion(vpConfig("version"))
	s := vpC09Build(ver)
	auth, _ := NewAuthEvents(s.events)
	e1 := vpC09EventOfKind(s, "e1", vpAlice, vpConfig("first"))
	e2 := vpC09Event(s, "e2", vpBob)
	rid, _ := spec.NewRoomID(s.room)

	jrEv0, _ := auth.JoinRules()
	jr, _ := jrEv0.JoinRule()
	a := newAllowerContext(auth, vpUserIDForSender, *rid)
	_ = a.allowed(e1)
	// state resolution clears the provider and refills it with the state the next event needs; the refill may lack
	// events the previous one had (join rules, power levels) or hold them again
	// ... or hold in their place other events whose content does not parse (a power level given as a list, a join
	// rule given as a number): the reused checker must then judge like a fresh one, not by what it cached before
	refill := vpChoice("refill", "same-provider-untouched", "cleared-same", "cleared-no-join-rules", "cleared-no-power-levels", "cleared-malformed-join-rules", "cleared-malformed-power-levels")
	if refill != "same-provider-untouched" {
		auth.Clear()
		for _, ev := range s.events {
			if refill == "cleared-no-join-rules" && ev.Type() == spec.MRoomJoinRules {
				continue
			}
			if refill == "cleared-no-power-levels" && ev.Type() == spec.MRoomPowerLevels {
				continue
			}
			if refill == "cleared-malformed-join-rules" && ev.Type() == spec.MRoomJoinRules {
				ev = vpMkEvent(ver, "$jr2:x", s.room, vpAlice, spec.MRoomJoinRules, vpStrPtr(""), vpJObj("join_rule", int64(7)))
			}
			if refill == "cleared-malformed-power-levels" && ev.Type() == spec.MRoomPowerLevels {
				ev = vpMkEvent(ver, "$pl2:x", s.room, vpAlice, spec.MRoomPowerLevels, vpStrPtr(""), vpJObj("events_default", vpJArr(int64(0)), "users", vpJObj(vpBob, int64(0))))
			}
			_ = auth.AddEvent(ev)
		}
	}
	a.update(auth)
	reused := a.allowed(e2) == nil
	fresh := Allowed(e2, auth, vpUserIDForSender) == nil

	// KF-C09-1: a self-join under a (knock_)restricted join rule rewrites the cached join rule of the shared checker
	n, _ := vpVerNum(ver)
	e1m, _ := e1.Membership()
	kf := n >= 8 && e1.Type() == spec.MRoomMember && e1m == spec.Join && (jr == spec.Restricted || jr == spec.KnockRestricted)
	_ = kf
	// (fixed: KF-C09-1 - a restricted self-join rewrote the cached join rule of the shared checker)
	vpAssert("reused-equals-fresh", reused == fresh)
	vpReach("both-accept", reused && fresh)
	vpReach("both-reject", !reused && !fresh)
}

// vp:check C09 quick configs=version:1|10|12;kind:join|join-via|leave|knock|message|join-tpi|invite-tpi K=12 timeout=900 maporder=(*github.com/matrix-org/gomatrixserverlib.membershipAllower).membershipAllowedFromThirdPartyInvite
// vp:check C09 thorough configs=version:ALLVERSIONS;kind:join|join-via|leave|knock|message|join-tpi|invite-tpi K=12 timeout=1800 maporder=(*github.com/matrix-org/gomatrixserverlib.membershipAllower).membershipAllowedFromThirdPartyInvite
// vp_C09_frame: the verdict does not depend on the order in which auth events were added to the provider, nor on
// state whose (type, state_key) StateNeededForAuth does not name for the event, and repeated evaluation agrees.
func vp_C09_frame() {
	ver := RoomVersion(vpConfig("version"))
	s := vpC09Build(ver)
	e := vpC09EventOfKind(s, "e", vpBob, vpConfig("kind"))
	p1, _ := NewAuthEvents(s.events)
	// reverse order plus unrelated state (topic, and the membership of a user the event does not involve)
	p2, _ := NewAuthEvents(nil)
	needed := StateNeededForAuth([]PDU{e})
	extra := []PDU{
		vpMkEvent(ver, "$topic:x", s.room, vpCarol, "m.room.topic", vpStrPtr(""), vpJObj("topic", "t")),
		vpMkEvent(ver, "$me:x", s.room, "@e:x", spec.MRoomMember, vpStrPtr("@e:x"), vpJObj("membership", vpChoice("erin", spec.Join, spec.Ban))),
		// a different user whose ID differs from the sender's only in letter case (user IDs are case-sensitive)
		vpMkEvent(ver, "$mB:x", s.room, "@B:x", spec.MRoomMember, vpStrPtr("@B:x"), vpJObj("membership", vpChoice("upper_case_bob", spec.Leave, spec.Ban))),
	}
	for _, x := range extra {
		_ = p2.AddEvent(x)
	}
	for i := len(s.events) - 1; i >= 0; i-- {
		_ = p2.AddEvent(s.events[i])
	}
	// p3: only what StateNeededForAuth names
	p3, _ := NewAuthEvents(nil)
	tuples := needed.Tuples()
	for _, ev := range s.events {
		for _, t := range tuples {
			if ev.Type() == t.EventType && ev.StateKeyEquals(t.StateKey) {
				_ = p3.AddEvent(ev)
			}
		}
	}
	v1 := Allowed(e, p1, vpUserIDForSender) == nil
	vpMapOrderReset()
	v1b := Allowed(e, p1, vpUserIDForSender) == nil
	v2 := Allowed(e, p2, vpUserIDForSender) == nil
	v3 := Allowed(e, p3, vpUserIDForSender) == nil
	vpAssert("repeatable", v1 == v1b)
	vpAssert("order-and-unrelated-state", v1 == v2)
	vpAssert("needed-state-suffices", v1 == v3)
	// p4: the auth events that AddAuthEvents selects for this event when it is built - from the whole state, or (in
	// rooms whose ID names the create event, where the builder need not be handed it) from the state without the
	// create event. Another server, which looks up exactly those IDs plus the create event, must reach the verdict.
	if verImpl, err := GetRoomVersion(ver); err == nil {
		from := s.events
		if verImpl.DomainlessRoomIDs() && vpNondetBool("builder_state_lacks_create") {
			from = nil
			for _, ev := range s.events {
				if ev.Type() != spec.MRoomCreate {
					from = append(from, ev)
				}
			}
		}
		src, _ := NewAuthEvents(from)
		eb := verImpl.NewEventBuilderFromProtoEvent(&ProtoEvent{SenderID: string(e.SenderID()), RoomID: e.RoomID().String(), Type: e.Type(), StateKey: e.StateKey(), Content: e.Content()})
		if eb.AddAuthEvents(src) == nil {
			p4, _ := NewAuthEvents(nil)
			ids, _ := eb.AuthEvents.([]string)
			for _, ev := range s.events {
				selected := ev.Type() == spec.MRoomCreate && verImpl.DomainlessRoomIDs()
				for _, id := range ids {
					if ev.EventID() == id {
						selected = true
					}
				}
				if selected {
					_ = p4.AddEvent(ev)
				}
			}
			v4 := Allowed(e, p4, vpUserIDForSender) == nil
			vpAssert("selected-auth-events-suffice", v1 == v4)
		}
	}
	vpReach("accept", v1)
	vpReach("reject", !v1)
}
