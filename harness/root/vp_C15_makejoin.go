//go:build verif

package gomatrixserverlib

import (
	"context"
	"encoding/json"
	"errors"

	"github.com/matrix-org/gomatrixserverlib/spec"
)

// vpJoinQuerier: scripted view of the local room state for make_join.
type vpJoinQuerier struct {
	state   map[string]PDU // by event type (state key "")
	pending bool
	info    *RestrictedRoomJoinInfo
	infoErr bool
}

func (q *vpJoinQuerier) CurrentStateEvent(ctx context.Context, roomID spec.RoomID, eventType string, stateKey string) (PDU, error) {
	return q.state[eventType], nil
}

func (q *vpJoinQuerier) InvitePending(ctx context.Context, roomID spec.RoomID, senderID spec.SenderID) (bool, error) {
	return q.pending, nil
}

func (q *vpJoinQuerier) RestrictedRoomJoinInfo(ctx context.Context, roomID spec.RoomID, senderID spec.SenderID, localServerName spec.ServerName) (*RestrictedRoomJoinInfo, error) {
	if q.infoErr {
		return nil, errors.New("no info")
	}
	return q.info, nil
}

// vp:check C15 both configs=version:1|8|10|12 K=24 timeout=1200
// vp_C15_make_join: HandleMakeJoin hands out a join template exactly when the requesting server supports the room
// version, the user belongs to the requesting server, the local server is in the room, and - in a restricted room
// without a pending invite - the local server is in the allowed room, the user is joined there and a local member
// with the power to invite can vouch (its ID is then placed in join_authorised_via_users_server); the template is
// checked against the auth rules before it is returned. The error class tells the caller what to do next.
func vp_C15_make_join() {
	ver := RoomVersion(vpConfig("version"))
	n, _ := vpVerNum(ver)
	createID := vpCreateID(ver)
	room := vpRoomIDFor(ver, createID)
	rid, err := spec.NewRoomID(room)
	vpAssume(err == nil)
	user, err := spec.NewUserID("@b:y", true)
	vpAssume(err == nil)
	const local = "@l:local"

	createRoom := room
	if vpIsV12(ver) {
		createRoom = ""
	}
	create := vpMkEvent(ver, createID, createRoom, vpAlice, spec.MRoomCreate, vpStrPtr(""), vpJObj("creator", vpAlice, "room_version", string(ver)))
	inviteLvl, localLvl := vpNondetI64("pl.invite"), vpNondetI64("pl.local_user")
	pl := vpMkEvent(ver, "$pl:x", room, vpAlice, spec.MRoomPowerLevels, vpStrPtr(""), vpJObj("users", vpJObj(local, localLvl), "invite", inviteLvl))
	rule := vpChoice("join_rule", spec.Public, spec.Invite, spec.Restricted)
	var jr PDU
	if rule == spec.Restricted {
		jr = vpMkEvent(ver, "$jr:x", room, vpAlice, spec.MRoomJoinRules, vpStrPtr(""), vpJObj("join_rule", rule, "allow", vpJArr(vpJObj("type", "m.room_membership", "room_id", "!allowed:local"))))
	} else {
		jr = vpMkEvent(ver, "$jr:x", room, vpAlice, spec.MRoomJoinRules, vpStrPtr(""), vpJObj("join_rule", rule))
	}
	localMember := vpMkEvent(ver, "$ml:x", room, local, spec.MRoomMember, vpStrPtr(local), vpJObj("membership", spec.Join))
	q := &vpJoinQuerier{state: map[string]PDU{spec.MRoomCreate: create, spec.MRoomPowerLevels: pl, spec.MRoomJoinRules: jr}}
	q.pending = vpNondetBool("invite_pending")
	inAllowedRoom, userThere := vpNondetBool("local_server_in_allowed_room"), vpNondetBool("user_joined_to_allowed_room")
	q.infoErr = vpNondetBool("room_info_error")
	q.info = &RestrictedRoomJoinInfo{LocalServerInRoom: inAllowedRoom, UserJoinedToRoom: userThere, JoinedUsers: []PDU{localMember}}

	remoteSupports := vpNondetBool("remote_supports_version")
	remote := []RoomVersion{"5"}
	if remoteSupports {
		remote = []RoomVersion{"5", ver}
	}
	origin := spec.ServerName(vpChoice("origin", "y", "z"))
	localInRoom := vpNondetBool("local_server_in_room")
	var pendingInvite PDU
	if q.pending {
		pendingInvite = vpMkEvent(ver, "$inv:x", room, vpAlice, spec.MRoomMember, vpStrPtr("@b:y"), vpJObj("membership", spec.Invite))
	}
	var built PDU
	res, herr := HandleMakeJoin(HandleMakeJoinInput{
		Context: context.Background(), UserID: *user, SenderID: "@b:y", RoomID: *rid, RoomVersion: ver, RemoteVersions: remote,
		RequestOrigin: origin, LocalServerName: "local", LocalServerInRoom: localInRoom, RoomQuerier: q, UserIDQuerier: vpUserIDForSender,
		BuildEventTemplate: func(p *ProtoEvent) (PDU, []PDU, error) {
			built = vpMkEvent(ver, "$tmpl:x", p.RoomID, p.SenderID, p.Type, p.StateKey, p.Content)
			state := []PDU{create, pl, jr, localMember}
			if pendingInvite != nil {
				state = append(state, pendingInvite)
			}
			return built, state, nil
		},
	})

	restrictedApplies := n >= 8 && rule == spec.Restricted && !q.pending
	vouched := !restrictedApplies || (!q.infoErr && inAllowedRoom && userThere && localLvl >= inviteLvl)
	// the template must pass the auth rules: public rooms admit anyone, an invite admits the invited user, a restricted
	// room admits a vouched-for user; in versions without restricted joins the rule "restricted" is unknown (refused)
	allowedByRules := rule == spec.Public || q.pending || (rule == spec.Restricted && vouched)
	if rule == spec.Restricted && n < 8 {
		allowedByRules = false // unknown join rule: nobody may join, invited or not
	}
	want := remoteSupports && origin == "y" && localInRoom && vouched && allowedByRules
	vpAssert("template-iff-admissible", (herr == nil) == want)
	if herr == nil {
		vpAssert("template-is-a-join-of-the-user", res.JoinTemplateEvent.Type == spec.MRoomMember && res.JoinTemplateEvent.SenderID == "@b:y" &&
			res.JoinTemplateEvent.StateKey != nil && *res.JoinTemplateEvent.StateKey == "@b:y" && res.RoomVersion == ver)
		var mc MemberContent
		vpAssert("content-parses", json.Unmarshal(res.JoinTemplateEvent.Content, &mc) == nil)
		vpAssert("membership-join", mc.Membership == spec.Join)
		if restrictedApplies {
			vpAssert("authoriser-named", mc.AuthorisedVia == local)
		} else {
			vpAssert("no-authoriser", mc.AuthorisedVia == "")
		}
		vpAssert("template-was-built-and-checked", built != nil)
	} else {
		var me spec.MatrixError
		var ive spec.IncompatibleRoomVersionError
		if !remoteSupports {
			vpAssert("incompatible-version", errors.As(herr, &ive) && ive.ErrCode == spec.ErrorIncompatibleRoomVersion)
		} else if errors.As(herr, &me) {
			switch {
			case origin != "y":
				vpAssert("forbidden-origin", me.ErrCode == spec.ErrorForbidden)
			case !localInRoom:
				vpAssert("not-found", me.ErrCode == spec.ErrorNotFound)
			case restrictedApplies && (q.infoErr || !inAllowedRoom):
				vpAssert("unable-to-authorise", me.ErrCode == spec.ErrorUnableToAuthoriseJoin)
			default:
				vpAssert("forbidden", me.ErrCode == spec.ErrorForbidden)
			}
		}
	}
	vpReach("template", herr == nil)
	vpReach("vouched-restricted-join", herr == nil && restrictedApplies)
	vpReach("refused", herr != nil)
}

// vp:check C15 both configs=version:1|10|12 K=24 timeout=900
// vp_C15_make_leave: HandleMakeLeave hands out a leave template exactly when the user belongs to the requesting
// server, the local server is in the room and the leave is allowed by the room state (the user is joined, invited or
// knocking - not banned, not already gone); the template is a leave of that user in that room.
func vp_C15_make_leave() {
	ver := RoomVersion(vpConfig("version"))
	createID := vpCreateID(ver)
	room := vpRoomIDFor(ver, createID)
	rid, err := spec.NewRoomID(room)
	vpAssume(err == nil)
	user, err := spec.NewUserID("@b:y", true)
	vpAssume(err == nil)
	createRoom := room
	if vpIsV12(ver) {
		createRoom = ""
	}
	create := vpMkEvent(ver, createID, createRoom, vpAlice, spec.MRoomCreate, vpStrPtr(""), vpJObj("creator", vpAlice, "room_version", string(ver)))
	cur := vpChoice("current_membership", "none", spec.Join, spec.Invite, spec.Ban, spec.Leave)
	state := []PDU{create}
	if cur != "none" {
		state = append(state, vpMkEvent(ver, "$mb:x", room, vpAlice, spec.MRoomMember, vpStrPtr("@b:y"), vpJObj("membership", cur)))
	}
	origin := spec.ServerName(vpChoice("origin", "y", "z"))
	localInRoom := vpNondetBool("local_server_in_room")
	res, herr := HandleMakeLeave(HandleMakeLeaveInput{
		UserID: *user, SenderID: "@b:y", RoomID: *rid, RoomVersion: ver, RequestOrigin: origin, LocalServerName: "local",
		LocalServerInRoom: localInRoom, UserIDQuerier: vpUserIDForSender,
		BuildEventTemplate: func(p *ProtoEvent) (PDU, []PDU, error) {
			return vpMkEvent(ver, "$tmpl:x", p.RoomID, p.SenderID, p.Type, p.StateKey, p.Content), state, nil
		},
	})
	// leave -> leave is accepted by the library (documented departure D1)
	allowed := cur == spec.Join || cur == spec.Invite || cur == spec.Leave || cur == "none"
	want := origin == "y" && localInRoom && allowed
	vpAssert("template-iff-admissible", (herr == nil) == want)
	if herr == nil {
		t := res.LeaveTemplateEvent
		var mc MemberContent
		vpAssert("template-is-a-leave-of-the-user", t.Type == spec.MRoomMember && t.SenderID == "@b:y" && t.StateKey != nil && *t.StateKey == "@b:y" &&
			t.RoomID == room && json.Unmarshal(t.Content, &mc) == nil && mc.Membership == spec.Leave && res.RoomVersion == ver)
	}
	vpReach("template", herr == nil)
	vpReach("refused", herr != nil)
}
