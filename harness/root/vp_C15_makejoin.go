//go:build verif

package gomatrixserverlib

import (
	"context"
	"encoding/json"
	"errors"
	"time"

	"github.com/matrix-org/gomatrixserverlib/spec"
	"golang.org/x/crypto/ed25519"
)

// vpJoinQuerier: scripted view of the local room state for make_join.
type vpJoinQuerier struct {
	state   map[string]PDU // by event type (state key "")
	pending bool
	info    *RestrictedRoomJoinInfo
	infoErr bool
}

func (q *vpJoinQuerier) CurrentStateEvent(ctx context.Context, roomID spec.RoomID, eventType string, stateKey string) (PDU, error) {
	return q.state[eventType], nil
}

func (q *vpJoinQuerier) InvitePending(ctx context.Context, roomID spec.RoomID, senderID spec.SenderID) (bool, error) {
	return q.pending, nil
}

func (q *vpJoinQuerier) RestrictedRoomJoinInfo(ctx context.Context, roomID spec.RoomID, senderID spec.SenderID, localServerName spec.ServerName) (*RestrictedRoomJoinInfo, error) {
	if q.infoErr {
		return nil, errors.New("no info")
	}
	return q.info, nil
}

// vp:check C15 both configs=version:1|8|10|12 K=24 timeout=1200
// vp_C15_make_join: HandleMakeJoin hands out a join template exactly when the requesting server supports the room
// version, the user belongs to the requesting server, the local server is in the room, and - in a restricted room
// without a pending invite - the local server is in the allowed room, the user is joined there and a local member
// with the power to invite can vouch (its ID is then placed in join_authorised_via_users_server); the template is
// checked against the auth rules before it is returned. The error class tells the caller what to do next.
func vp_C15_make_join() {
	ver := RoomVersion(vpConfig("version"))
	n, _ := vpVerNum(ver)
	createID := vpCreateID(ver)
	room := vpRoomIDFor(ver, createID)
	rid, err := spec.NewRoomID(room)
	vpAssume(err == nil)
	user, err := spec.NewUserID("@b:y", true)
	vpAssume(err == nil)
	const local = "@l:local"

	createRoom := room
	if vpIsV12(ver) {
		createRoom = ""
	}
	create := vpMkEvent(ver, createID, createRoom, vpAlice, spec.MRoomCreate, vpStrPtr(""), vpJObj("creator", vpAlice, "room_version", string(ver)))
	inviteLvl, localLvl := vpNondetI64("pl.invite"), vpNondetI64("pl.local_user")
	pl := vpMkEvent(ver, "$pl:x", room, vpAlice, spec.MRoomPowerLevels, vpStrPtr(""), vpJObj("users", vpJObj(local, localLvl), "invite", inviteLvl))
	rule := vpChoice("join_rule", spec.Public, spec.Invite, spec.Restricted)
	var jr PDU
	// the one allow entry is a room-membership rule, or a rule of a kind this server does not understand (which
	// admits nobody, whatever room it names)
	allowType := vpChoice("allow_type", "m.room_membership", "org.example.unknown", "")
	if rule == spec.Restricted {
		jr = vpMkEvent(ver, "$jr:x", room, vpAlice, spec.MRoomJoinRules, vpStrPtr(""), vpJObj("join_rule", rule, "allow", vpJArr(vpJObj("type", allowType, "room_id", "!allowed:local"))))
	} else {
		jr = vpMkEvent(ver, "$jr:x", room, vpAlice, spec.MRoomJoinRules, vpStrPtr(""), vpJObj("join_rule", rule))
	}
	localMember := vpMkEvent(ver, "$ml:x", room, local, spec.MRoomMember, vpStrPtr(local), vpJObj("membership", spec.Join))
	q := &vpJoinQuerier{state: map[string]PDU{spec.MRoomCreate: create, spec.MRoomPowerLevels: pl, spec.MRoomJoinRules: jr}}
	q.pending = vpNondetBool("invite_pending")
	inAllowedRoom, userThere := vpNondetBool("local_server_in_allowed_room"), vpNondetBool("user_joined_to_allowed_room")
	q.infoErr = vpNondetBool("room_info_error")
	q.info = &RestrictedRoomJoinInfo{LocalServerInRoom: inAllowedRoom, UserJoinedToRoom: userThere, JoinedUsers: []PDU{localMember}}

	remoteSupports := vpNondetBool("remote_supports_version")
	remote := []RoomVersion{"5"}
	if remoteSupports {
		remote = []RoomVersion{"5", ver}
	}
	origin := spec.ServerName(vpChoice("origin", "y", "z"))
	localInRoom := vpNondetBool("local_server_in_room")
	var pendingInvite PDU
	if q.pending {
		pendingInvite = vpMkEvent(ver, "$inv:x", room, vpAlice, spec.MRoomMember, vpStrPtr("@b:y"), vpJObj("membership", spec.Invite))
	}
	var built PDU
	res, herr := HandleMakeJoin(HandleMakeJoinInput{
		Context: context.Background(), UserID: *user, SenderID: "@b:y", RoomID: *rid, RoomVersion: ver, RemoteVersions: remote,
		RequestOrigin: origin, LocalServerName: "local", LocalServerInRoom: localInRoom, RoomQuerier: q, UserIDQuerier: vpUserIDForSender,
		BuildEventTemplate: func(p *ProtoEvent) (PDU, []PDU, error) {
			built = vpMkEvent(ver, "$tmpl:x", p.RoomID, p.SenderID, p.Type, p.StateKey, p.Content)
			state := []PDU{create, pl, jr, localMember}
			if pendingInvite != nil {
				state = append(state, pendingInvite)
			}
			return built, state, nil
		},
	})

	restrictedApplies := n >= 8 && rule == spec.Restricted && !q.pending
	vouched := !restrictedApplies || (allowType == "m.room_membership" && !q.infoErr && inAllowedRoom && userThere && localLvl >= inviteLvl)
	// the template must pass the auth rules: public rooms admit anyone, an invite admits the invited user, a restricted
	// room admits a vouched-for user; in versions without restricted joins the rule "restricted" is unknown (refused)
	allowedByRules := rule == spec.Public || q.pending || (rule == spec.Restricted && vouched)
	if rule == spec.Restricted && n < 8 {
		allowedByRules = false // unknown join rule: nobody may join, invited or not
	}
	want := remoteSupports && origin == "y" && localInRoom && vouched && allowedByRules
	vpAssert("template-iff-admissible", (herr == nil) == want)
	if herr == nil {
		vpAssert("template-is-a-join-of-the-user", res.JoinTemplateEvent.Type == spec.MRoomMember && res.JoinTemplateEvent.SenderID == "@b:y" &&
			res.JoinTemplateEvent.StateKey != nil && *res.JoinTemplateEvent.StateKey == "@b:y" && res.RoomVersion == ver)
		var mc MemberContent
		vpAssert("content-parses", json.Unmarshal(res.JoinTemplateEvent.Content, &mc) == nil)
		vpAssert("membership-join", mc.Membership == spec.Join)
		if restrictedApplies {
			vpAssert("authoriser-named", mc.AuthorisedVia == local)
		} else {
			vpAssert("no-authoriser", mc.AuthorisedVia == "")
		}
		vpAssert("template-was-built-and-checked", built != nil)
	} else {
		var me spec.MatrixError
		var ive spec.IncompatibleRoomVersionError
		if !remoteSupports {
			vpAssert("incompatible-version", errors.As(herr, &ive) && ive.ErrCode == spec.ErrorIncompatibleRoomVersion)
		} else if errors.As(herr, &me) {
			switch {
			case origin != "y":
				vpAssert("forbidden-origin", me.ErrCode == spec.ErrorForbidden)
			case !localInRoom:
				vpAssert("not-found", me.ErrCode == spec.ErrorNotFound)
			case restrictedApplies && allowType != "m.room_membership":
				// no rule this server understands: the error class is not prescribed
			case restrictedApplies && (q.infoErr || !inAllowedRoom):
				vpAssert("unable-to-authorise", me.ErrCode == spec.ErrorUnableToAuthoriseJoin)
			default:
				vpAssert("forbidden", me.ErrCode == spec.ErrorForbidden)
			}
		}
	}
	vpReach("template", herr == nil)
	vpReach("vouched-restricted-join", herr == nil && restrictedApplies)
	vpReach("refused", herr != nil)
}

// vp:check C15 both configs=version:1|10|12 K=24 timeout=900
// vp_C15_make_leave: HandleMakeLeave hands out a leave template exactly when the user belongs to the requesting
// server, the local server is in the room and the leave is allowed by the room state (the user is joined, invited or
// knocking - not banned, not already gone); the template is a leave of that user in that room.
func vp_C15_make_leave() {
	ver := RoomVersion(vpConfig("version"))
	createID := vpCreateID(ver)
	room := vpRoomIDFor(ver, createID)
	rid, err := spec.NewRoomID(room)
	vpAssume(err == nil)
	user, err := spec.NewUserID("@b:y", true)
	vpAssume(err == nil)
	createRoom := room
	if vpIsV12(ver) {
		createRoom = ""
	}
	create := vpMkEvent(ver, createID, createRoom, vpAlice, spec.MRoomCreate, vpStrPtr(""), vpJObj("creator", vpAlice, "room_version", string(ver)))
	cur := vpChoice("current_membership", "none", spec.Join, spec.Invite, spec.Ban, spec.Leave)
	state := []PDU{create}
	if cur != "none" {
		state = append(state, vpMkEvent(ver, "$mb:x", room, vpAlice, spec.MRoomMember, vpStrPtr("@b:y"), vpJObj("membership", cur)))
	}
	origin := spec.ServerName(vpChoice("origin", "y", "z"))
	localInRoom := vpNondetBool("local_server_in_room")
	res, herr := HandleMakeLeave(HandleMakeLeaveInput{
		UserID: *user, SenderID: "@b:y", RoomID: *rid, RoomVersion: ver, RequestOrigin: origin, LocalServerName: "local",
		LocalServerInRoom: localInRoom, UserIDQuerier: vpUserIDForSender,
		BuildEventTemplate: func(p *ProtoEvent) (PDU, []PDU, error) {
			return vpMkEvent(ver, "$tmpl:x", p.RoomID, p.SenderID, p.Type, p.StateKey, p.Content), state, nil
		},
	})
	// leave -> leave is accepted by the library (documented departure D1)
	allowed := cur == spec.Join || cur == spec.Invite || cur == spec.Leave || cur == "none"
	want := origin == "y" && localInRoom && allowed
	vpAssert("template-iff-admissible", (herr == nil) == want)
	if herr == nil {
		t := res.LeaveTemplateEvent
		var mc MemberContent
		vpAssert("template-is-a-leave-of-the-user", t.Type == spec.MRoomMember && t.SenderID == "@b:y" && t.StateKey != nil && *t.StateKey == "@b:y" &&
			t.RoomID == room && json.Unmarshal(t.Content, &mc) == nil && mc.Membership == spec.Leave && res.RoomVersion == ver)
	}
	vpReach("template", herr == nil)
	vpReach("refused", herr != nil)
}

type vpMakeJoinResp struct {
	proto ProtoEvent
	ver   RoomVersion
}

func (r *vpMakeJoinResp) GetJoinEvent() ProtoEvent    { return r.proto }
func (r *vpMakeJoinResp) GetRoomVersion() RoomVersion { return r.ver }

type vpSendJoinResp struct {
	auth, state EventJSONs
	event       spec.RawJSON
}

func (r *vpSendJoinResp) GetAuthEvents() EventJSONs  { return r.auth }
func (r *vpSendJoinResp) GetStateEvents() EventJSONs { return r.state }
func (r *vpSendJoinResp) GetOrigin() spec.ServerName { return "x" }
func (r *vpSendJoinResp) GetJoinEvent() spec.RawJSON { return r.event }
func (r *vpSendJoinResp) GetMembersOmitted() bool    { return false }
func (r *vpSendJoinResp) GetServersInRoom() []string { return nil }

// vpJoinClient: the resident server. make_join hands out a template; send_join records what it was sent and answers
// with the room state and, optionally, an echoed join event.
type vpJoinClient struct {
	makeResp *vpMakeJoinResp
	makeErr  bool
	sendErr  bool
	sent     PDU
	resp     *vpSendJoinResp
	echo     func(sent PDU) spec.RawJSON
}

func (c *vpJoinClient) MakeJoin(ctx context.Context, origin, s spec.ServerName, roomID, userID string) (MakeJoinResponse, error) {
	if c.makeErr {
		return nil, errors.New("make_join refused")
	}
	return c.makeResp, nil
}

func (c *vpJoinClient) SendJoin(ctx context.Context, origin, s spec.ServerName, event PDU) (SendJoinResponse, error) {
	c.sent = event
	if c.sendErr {
		return nil, errors.New("send_join refused")
	}
	if c.echo != nil {
		c.resp.event = c.echo(event)
	}
	return c.resp, nil
}

// vp:check C15 both configs=version:10 K=24 timeout=1200 clock=fixed
// vp_C15_perform_join: PerformJoin (the joining side) returns a join only if the resident server's answer passes the
// federation-response checks for exactly the event that is returned: the event sent is a join of the user in the room
// signed by the user's server; the returned event is that one or the resident's well-formed echo of it; whichever is
// returned is allowed by the returned state (public / invite-only room); make_join / send_join failures are reported
// as transient errors.
func vp_C15_perform_join() {
	ver := RoomVersion(vpConfig("version"))
	verImpl, err := GetRoomVersion(ver)
	vpAssume(err == nil)
	c := vpBuild(verImpl, vpAlice, spec.MRoomCreate, vpStrPtr(""), vpJObj("creator", vpAlice, "room_version", string(ver)), nil, 1, true)
	j := vpBuild(verImpl, vpAlice, spec.MRoomMember, vpStrPtr(vpAlice), vpJObj("membership", spec.Join), []string{c.EventID()}, 2, true)
	p := vpBuild(verImpl, vpAlice, spec.MRoomPowerLevels, vpStrPtr(""), vpJObj("users", vpJObj(vpAlice, int64(100))), []string{c.EventID(), j.EventID()}, 3, true)
	rule := vpChoice("join_rule", spec.Public, spec.Invite)
	jr := vpBuild(verImpl, vpAlice, spec.MRoomJoinRules, vpStrPtr(""), vpJObj("join_rule", rule), []string{c.EventID(), j.EventID(), p.EventID()}, 4, true)

	const joiner = "@c:y"
	uid, err := spec.NewUserID(joiner, true)
	vpAssume(err == nil)
	rid, err := spec.NewRoomID(vpRoom)
	vpAssume(err == nil)
	sk := joiner
	tmpl := ProtoEvent{SenderID: joiner, RoomID: vpRoom, Type: spec.MRoomMember, StateKey: &sk, Depth: 5,
		PrevEvents: []string{jr.EventID()}, AuthEvents: []string{c.EventID(), p.EventID(), jr.EventID()}, Content: vpJObj("membership", spec.Join)}
	client := &vpJoinClient{makeResp: &vpMakeJoinResp{proto: tmpl, ver: ver},
		resp: &vpSendJoinResp{auth: EventJSONs{c.JSON(), j.JSON(), p.JSON(), jr.JSON()}, state: EventJSONs{c.JSON(), j.JSON(), p.JSON(), jr.JSON()}}}
	fail := vpChoice("failure", "none", "make_join", "send_join")
	client.makeErr, client.sendErr = fail == "make_join", fail == "send_join"
	echo := vpChoice("echo", "none", "same", "forged-sender", "other-room", "garbage")
	_, intruder := vpKey("intruder")
	client.echo = func(sent PDU) spec.RawJSON {
		switch echo {
		case "same":
			return spec.RawJSON(sent.JSON())
		case "forged-sender":
			// well formed by the shallow test (join, this room, state key = the joining user) but sent by somebody else
			f := vpBuildAs(verImpl, "@m:z", joiner, vpRoom, []string{c.EventID(), p.EventID(), jr.EventID()}, ed25519.PrivateKey(intruder))
			return spec.RawJSON(f.JSON())
		case "other-room":
			f := vpBuildAs(verImpl, joiner, joiner, vpRoom2, []string{c.EventID(), p.EventID(), jr.EventID()}, ed25519.PrivateKey(intruder))
			return spec.RawJSON(f.JSON())
		case "garbage":
			return spec.RawJSON(`{"type":5}`)
		}
		return nil
	}
	pubX, _ := vpKey("server-x")
	_, privY := vpKey("server-y")
	db := &vpKeySource{name: "db", answer: "good-current", good: ed25519.PublicKey(pubX), now: spec.AsTimestamp(time.Now())}
	ring := &KeyRing{KeyDatabase: db}
	res, ferr := PerformJoin(context.Background(), client, PerformJoinInput{
		UserID: uid, RoomID: rid, ServerName: "x", PrivateKey: ed25519.PrivateKey(privY), KeyID: "ed25519:y1", KeyRing: ring,
		UserIDQuerier: vpUserIDForSender,
	})

	if fail == "none" {
		s := client.sent
		vpAssert("sent-a-join-of-the-user", s != nil && s.Type() == spec.MRoomMember && string(s.SenderID()) == joiner && s.StateKeyEquals(joiner) && s.RoomID().String() == vpRoom)
		if s != nil {
			m, merr := s.Membership()
			vpAssert("sent-membership-join", merr == nil && m == spec.Join)
		}
	}
	want := fail == "none" && rule == spec.Public && echo != "forged-sender"
	vpAssert("joined-iff-the-returned-event-passes-the-checks", (ferr == nil) == want)
	if ferr == nil {
		e := res.JoinEvent
		vpAssert("returned-event-is-the-users-join", e.Type() == spec.MRoomMember && string(e.SenderID()) == joiner && e.StateKeyEquals(joiner) && e.RoomID().String() == vpRoom)
		st := res.StateSnapshot.GetStateEvents().UntrustedEvents(ver)
		prov, perr := NewAuthEvents(st)
		vpAssert("returned-event-allowed-by-returned-state", perr == nil && Allowed(e, prov, vpUserIDForSender) == nil)
	} else if fail != "none" {
		vpAssert("transport-failure-is-transient", ferr.Transient)
	}
	vpReach("joined", ferr == nil)
	vpReach("refused", ferr != nil && fail == "none")
}

// vpBuildAs builds a join membership event for stateKey sent by sender in room, signed by key as server "z".
func vpBuildAs(verImpl IRoomVersion, sender, stateKey, room string, auth []string, key ed25519.PrivateKey) PDU {
	eb := verImpl.NewEventBuilderFromProtoEvent(&ProtoEvent{SenderID: sender, RoomID: room, Type: spec.MRoomMember, StateKey: &stateKey,
		PrevEvents: []string{auth[len(auth)-1]}, AuthEvents: auth, Depth: 6, Content: vpJObj("membership", spec.Join)})
	ev, err := eb.Build(time.Unix(1700000009, 0), "z", "ed25519:1", key)
	vpAssume(err == nil)
	return ev
}
