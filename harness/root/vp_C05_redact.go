//go:build verif

package gomatrixserverlib

import (
	"bytes"
	"encoding/json"

	"github.com/matrix-org/gomatrixserverlib/spec"
)

// vpRedactAlgo: which redaction algorithm the specification assigns to a room version
// (1: v1-5, 2: v6-7, 3: v8, 4: v9-10, 5: v11+).
func vpRedactAlgo(ver RoomVersion) int {
	n, _ := vpVerNum(ver)
	switch {
	case n <= 5:
		return 1
	case n <= 7:
		return 2
	case n == 8:
		return 3
	case n <= 10:
		return 4
	}
	return 5
}

func vpIn(s string, list ...string) bool {
	for _, x := range list {
		if s == x {
			return true
		}
	}
	return false
}

// vpKeepTop: top-level keys that survive redaction.
func vpKeepTop(algo int, k string) bool {
	if vpIn(k, "event_id", "type", "room_id", "sender", "state_key", "content", "hashes", "signatures", "depth", "prev_events", "auth_events", "origin_server_ts") {
		return true
	}
	if algo < 5 {
		return vpIn(k, "prev_state", "origin", "membership")
	}
	return false
}

// vpKeepContent: content keys that survive redaction for an event type. all=true: every key survives.
func vpKeepContent(algo int, typ, k string) bool {
	switch typ {
	case spec.MRoomMember:
		if k == "membership" {
			return true
		}
		// v11: third_party_invite survives restricted to its "signed" member (handled by the caller, which knows
		// whether the value is an object with that member)
		return algo >= 4 && k == "join_authorised_via_users_server"
	case spec.MRoomCreate:
		if algo >= 5 {
			return true
		}
		return k == "creator"
	case spec.MRoomJoinRules:
		if k == "join_rule" {
			return true
		}
		return algo >= 3 && k == "allow"
	case spec.MRoomPowerLevels:
		if vpIn(k, "ban", "events", "events_default", "kick", "redact", "state_default", "users", "users_default") {
			return true
		}
		return algo >= 5 && k == "invite"
	case spec.MRoomAliases:
		return algo == 1 && k == "aliases"
	case spec.MRoomHistoryVisibility:
		return k == "history_visibility"
	case spec.MRoomRedaction:
		return algo >= 5 && k == "redacts"
	}
	return false
}

func vpEqFoldASCII(a, b string) bool {
	if len(a) != len(b) {
		return false
	}
	for i := 0; i < len(a); i++ {
		x, y := a[i], b[i]
		if x >= 'A' && x <= 'Z' {
			x += 32
		}
		if y >= 'A' && y <= 'Z' {
			y += 32
		}
		if x != y {
			return false
		}
	}
	return true
}

var vpTopNames = []string{"event_id", "type", "room_id", "sender", "state_key", "content", "hashes", "signatures", "depth", "prev_events", "prev_state", "auth_events", "origin", "origin_server_ts", "membership", "unsigned", "redacts"}

// vp:check C05 quick configs=version:1|6|8|9|11|12;klen:4|6|7|10 K=12 timeout=900
// vp:check C05 quick configs=version:11;klen:18 K=24 timeout=900
// vp:check C18 both configs=version:11|12;klen:18 K=24 timeout=900
// vp:check C05 quick configs=version:2|3|4|5|7|10|org.matrix.msc3787|org.matrix.msc3667|org.matrix.msc4014|org.matrix.hydra.11;klen:7 K=12 timeout=900
// vp:check C05 thorough configs=version:ALLVERSIONS;klen:3|4|5|6|7|8|9|10|11|13|14|16|18 K=24 timeout=1800
// vp_C05_redact: redaction keeps exactly the top-level keys and, per event type, exactly the content keys the room
// version's algorithm lists, with values unchanged; it is idempotent. One extra top-level key and one extra content
// key are arbitrary strings of the configured length (so they range over every listed name of that length and its
// case variants as well as unlisted names); the event type ranges over every protected type and one other.
func vp_C05_redact() {
	ver := RoomVersion(vpConfig("version"))
	algo := vpRedactAlgo(ver)
	klen := vpConfigInt("klen")
	typ := vpChoice("type", spec.MRoomMember, spec.MRoomCreate, spec.MRoomJoinRules, spec.MRoomPowerLevels, spec.MRoomAliases, spec.MRoomHistoryVisibility, spec.MRoomRedaction, "m.room.message")
	k := vpNondetStringN("k", klen)
	kval := vpNondetStringN("kval", 2)
	ck := vpNondetStringN("ck", klen)
	// the value under the extra content key ranges over every JSON kind
	var cval interface{}
	signedDoc := vpJObj("mxid", "@a:b", "token", "t")
	cvalKind := vpChoice("cval_kind", "string", "null", "int", "bool", "object", "object-signed", "object-only-signed", "array")
	switch cvalKind {
	case "string":
		cval = vpNondetStringN("cval", 2)
	case "null":
		cval = nil
	case "int":
		cval = int64(vpNondetBits("cval_int", 20))
	case "bool":
		cval = vpNondetBool("cval_bool")
	case "object":
		cval = vpJObj("x", "y")
	case "object-signed":
		cval = vpJObj("display_name", "d", "signed", signedDoc)
	case "object-only-signed":
		cval = vpJObj("signed", signedDoc)
	default:
		cval = vpJArr("x", int64(1))
	}
	// plain ASCII keys (J2 bound); no duplicate member names
	for _, n := range []string{"type", "room_id", "sender", "state_key", "content", "hashes", "signatures", "depth", "origin_server_ts", "unsigned", "redacts"} {
		vpAssume(k != n)
	}
	vpAssume(ck != "body")
	for i := 0; i < klen; i++ {
		// bound: member names are ASCII (Unicode case folding of names such as U+017F is outside the J2 model)
		vpAssume(k[i] < 0x80 && ck[i] < 0x80)
	}

	depth := int64(vpNondetBits("depth", 20)) // includes 0: a kept key must survive whatever its value
	content := vpJObj("body", "hello", ck, cval)
	cvalDoc := vpJVal(cval)
	ev := vpJObj(
		"type", typ, "room_id", vpRoom, "sender", vpAlice, "state_key", "", "content", content,
		"hashes", vpJObj("sha256", "aGFzaA"), "signatures", vpJObj("x", vpJObj("ed25519:1", "c2ln")),
		"depth", depth, "origin_server_ts", int64(1234), "unsigned", vpJObj("age", int64(1)), "redacts", "$r:x",
		k, kval)

	// KF-C05-1: encoding/json matches member names case-insensitively, so a member whose name differs from a kept
	// field only in letter case is read into that field: it survives under the canonical name and, coming later in
	// the object, replaces the genuine value (or makes redaction fail when its value has the wrong JSON type).
	verImpl, err := GetRoomVersion(ver)
	vpAssume(err == nil)
	red, err := verImpl.RedactEventJSON(ev)
	foldTop := false
	for _, n := range vpTopNames {
		if k != n && vpEqFoldASCII(k, n) && vpKeepTop(algo, n) {
			foldTop = true
		}
	}
	vpAssertKF("redaction-succeeds", err == nil, "KF-C05-1", foldTop)
	if err != nil {
		return
	}
	var out map[string]spec.RawJSON
	vpAssert("output-parses", json.Unmarshal(red, &out) == nil)

	// standard members
	for _, n := range []string{"type", "room_id", "sender", "state_key", "content", "hashes", "signatures", "depth", "origin_server_ts"} {
		_, present := out[n]
		vpAssertKF("kept-standard-key", present, "KF-C05-1", foldTop)
	}
	_, hasUnsigned := out["unsigned"]
	_, hasRedacts := out["redacts"]
	vpAssert("unsigned-removed", !hasUnsigned)
	vpAssert("redacts-removed", !hasRedacts)
	vpAssertKF("type-unchanged", bytes.Equal(out["type"], vpJVal(typ)), "KF-C05-1", foldTop)
	vpAssertKF("sender-unchanged", bytes.Equal(out["sender"], vpJVal(vpAlice)), "KF-C05-1", foldTop)
	vpAssertKF("room-unchanged", bytes.Equal(out["room_id"], vpJVal(vpRoom)), "KF-C05-1", foldTop)
	vpAssertKF("depth-unchanged", bytes.Equal(out["depth"], vpJVal(depth)), "KF-C05-1", foldTop)
	// the extra top-level key
	kv, kPresent := out[k]
	vpAssertKF("extra-top-key", kPresent == vpKeepTop(algo, k), "KF-C05-1", foldTop)
	if kPresent && vpKeepTop(algo, k) {
		vpAssert("extra-top-value", bytes.Equal(kv, vpJVal(kval)))
	}
	// content
	var oc map[string]spec.RawJSON
	if !foldTop {
		vpAssert("content-parses", json.Unmarshal(out["content"], &oc) == nil)
		_, bodyPresent := oc["body"]
		vpAssert("content-body", bodyPresent == vpKeepContent(algo, typ, "body"))
		cv, ckPresent := oc[ck]
		// v11+ keeps third_party_invite of m.room.member events restricted to its "signed" member
		// (fixed: KF-C05-2 - the library used to drop the whole key)
		tpi := algo >= 5 && typ == spec.MRoomMember && ck == "third_party_invite"
		wantPresent := vpKeepContent(algo, typ, ck)
		wantVal := cvalDoc
		if tpi {
			wantPresent = cvalKind == "object-signed" || cvalKind == "object-only-signed"
			wantVal = vpJVal(vpJObj("signed", signedDoc))
		}
		vpAssert("content-extra-key", ckPresent == wantPresent)
		if ckPresent {
			vpAssert("content-extra-value", bytes.Equal(cv, wantVal))
		}
		vpReach("third-party-invite-signed-kept", tpi && ckPresent)
	}
	// idempotence
	red2, err2 := verImpl.RedactEventJSON(red)
	vpAssert("idempotent", err2 == nil && bytes.Equal(red, red2))
	vpReach("extra-top-kept", kPresent)
	vpReach("extra-top-dropped", !kPresent)
	vpReach("done", true)
}
