//go:build verif

package gomatrixserverlib

import (
	"context"
	"errors"
	"time"

	"github.com/matrix-org/gomatrixserverlib/spec"
	"golang.org/x/crypto/ed25519"
)

// vpKeyVerifier verifies with fixed per-server public keys (stands in for a key ring whose database holds them).
type vpKeyVerifier struct {
	keys map[spec.ServerName]ed25519.PublicKey
}

func (v *vpKeyVerifier) VerifyJSONs(ctx context.Context, reqs []VerifyJSONRequest) ([]VerifyJSONResult, error) {
	res := make([]VerifyJSONResult, len(reqs))
	for i, r := range reqs {
		key, ok := v.keys[r.ServerName]
		if !ok {
			res[i].Error = errors.New("no key for server")
			continue
		}
		ids, err := ListKeyIDs(string(r.ServerName), r.Message)
		if err != nil || len(ids) == 0 {
			res[i].Error = errors.New("not signed by server")
			continue
		}
		res[i].Error = VerifyJSON(string(r.ServerName), ids[0], key, r.Message)
	}
	return res, nil
}

type vpStateResp struct{ auth, state EventJSONs }

func (s *vpStateResp) GetAuthEvents() EventJSONs  { return s.auth }
func (s *vpStateResp) GetStateEvents() EventJSONs { return s.state }

// vpBuild builds and signs an event for server x; goodSig=false signs with a key the verifier does not know.
func vpBuild(verImpl IRoomVersion, sender, typ string, sk *string, content []byte, auth []string, depth int64, goodSig bool) PDU {
	_, good := vpKey("server-x")
	_, bad := vpKey("intruder")
	key := ed25519.PrivateKey(good)
	if !goodSig {
		key = ed25519.PrivateKey(bad)
	}
	prev := []string{}
	if len(auth) > 0 {
		prev = []string{auth[len(auth)-1]}
	}
	room := vpRoom
	if auth == nil {
		auth = []string{}
	}
	eb := verImpl.NewEventBuilderFromProtoEvent(&ProtoEvent{SenderID: sender, RoomID: room, Type: typ, StateKey: sk, PrevEvents: prev, AuthEvents: auth, Depth: depth, Content: content})
	ev, err := eb.Build(time.Unix(1700000000+depth, 0), "x", "ed25519:1", key)
	vpObserve("build-error", err)
	vpAssume(err == nil)
	return ev
}

func vpHasID(list []PDU, id string) bool {
	for _, e := range list {
		if e.EventID() == id {
			return true
		}
	}
	return false
}

// vp:check C14 both configs=version:10;topic_sender:alice|bob K=24 timeout=1200
// vp_C14_state_response: CheckStateResponse returns exactly the events whose signatures verify and which are allowed by
// those of their auth events that arrived with verified signatures. Room: create, Alice's join, power levels, topic;
// any subset of the four events is signed with an unknown key; the topic may come from a user who never joined.
func vp_C14_state_response() {
	ver := RoomVersion(vpConfig("version"))
	verImpl, err := GetRoomVersion(ver)
	vpAssume(err == nil)
	okC, okJ, okP, okT := vpNondetBool("sig_ok.create"), vpNondetBool("sig_ok.join"), vpNondetBool("sig_ok.pl"), vpNondetBool("sig_ok.topic")
	c := vpBuild(verImpl, vpAlice, spec.MRoomCreate, vpStrPtr(""), vpJObj("creator", vpAlice, "room_version", string(ver)), nil, 1, okC)
	j := vpBuild(verImpl, vpAlice, spec.MRoomMember, vpStrPtr(vpAlice), vpJObj("membership", spec.Join), []string{c.EventID()}, 2, okJ)
	p := vpBuild(verImpl, vpAlice, spec.MRoomPowerLevels, vpStrPtr(""), vpJObj("users", vpJObj(vpAlice, int64(100))), []string{c.EventID(), j.EventID()}, 3, okP)
	topicSender := vpAlice
	if vpConfig("topic_sender") == "bob" {
		topicSender = vpBob
	}
	t := vpBuild(verImpl, topicSender, "m.room.topic", vpStrPtr(""), vpJObj("topic", "hi"), []string{c.EventID(), j.EventID(), p.EventID()}, 4, okT)

	pubB, _ := vpKey("server-x")
	verifier := &vpKeyVerifier{keys: map[spec.ServerName]ed25519.PublicKey{"x": ed25519.PublicKey(pubB)}}
	// the copy of the join in the state list may differ from the copy in the auth list in its signatures only (the
	// event ID does not cover signatures): same ID, independently good or bad
	okJ2 := vpNondetBool("sig_ok.join_state_copy")
	j2 := vpBuild(verImpl, vpAlice, spec.MRoomMember, vpStrPtr(vpAlice), vpJObj("membership", spec.Join), []string{c.EventID()}, 2, okJ2)
	vpAssert("copies-share-the-id", j2.EventID() == j.EventID())
	resp := &vpStateResp{auth: EventJSONs{c.JSON(), j.JSON(), p.JSON()}, state: EventJSONs{c.JSON(), j2.JSON(), p.JSON(), t.JSON()}}
	authOut, stateOut, err := CheckStateResponse(context.Background(), resp, ver, verifier, nil, vpUserIDForSender)
	vpAssert("no-error", err == nil)
	if err != nil {
		return
	}
	// whatever is returned has verified signatures (checked on the returned objects themselves)
	for _, e := range authOut {
		vpAssert("returned-auth-event-verifies", VerifyEventSignatures(context.Background(), e, verifier, vpUserIDForSender) == nil)
	}
	for _, e := range stateOut {
		vpAssert("returned-state-event-verifies", VerifyEventSignatures(context.Background(), e, verifier, vpUserIDForSender) == nil)
	}
	okJ = okJ && okJ2 // a join of which one copy fails its signature check is not usable
	// expected: signature good, and allowed by the signature-verified auth events
	wantC := okC
	wantJ := okJ && okC
	wantP := okP && okC && okJ
	wantT := okT && okC && okJ && topicSender == vpAlice
	vpAssert("create", vpHasID(stateOut, c.EventID()) == wantC && vpHasID(authOut, c.EventID()) == wantC)
	vpAssert("join", vpHasID(stateOut, j.EventID()) == wantJ && vpHasID(authOut, j.EventID()) == wantJ)
	vpAssert("power-levels", vpHasID(stateOut, p.EventID()) == wantP && vpHasID(authOut, p.EventID()) == wantP)
	vpAssert("topic", vpHasID(stateOut, t.EventID()) == wantT)
	vpAssert("nothing-else", len(stateOut) <= 4 && len(authOut) <= 3)
	vpReach("all-kept", len(stateOut) == 4)
	vpReach("some-dropped", len(stateOut) < 4)
}

// vp:check C14 both configs=version:10 K=24 timeout=1200
// vp_C14_malformed: duplicate state keys and non-state events make the whole response fail.
func vp_C14_malformed() {
	ver := RoomVersion(vpConfig("version"))
	verImpl, err := GetRoomVersion(ver)
	vpAssume(err == nil)
	c := vpBuild(verImpl, vpAlice, spec.MRoomCreate, vpStrPtr(""), vpJObj("creator", vpAlice, "room_version", string(ver)), nil, 1, true)
	j := vpBuild(verImpl, vpAlice, spec.MRoomMember, vpStrPtr(vpAlice), vpJObj("membership", spec.Join), []string{c.EventID()}, 2, true)
	t1 := vpBuild(verImpl, vpAlice, "m.room.topic", vpStrPtr(""), vpJObj("topic", "one"), []string{c.EventID(), j.EventID()}, 3, true)
	t2 := vpBuild(verImpl, vpAlice, "m.room.topic", vpStrPtr(""), vpJObj("topic", "two"), []string{c.EventID(), j.EventID()}, 4, true)
	msg := vpBuild(verImpl, vpAlice, "m.room.message", nil, vpJObj("body", "x"), []string{c.EventID(), j.EventID()}, 5, true)
	pubB, _ := vpKey("server-x")
	verifier := &vpKeyVerifier{keys: map[spec.ServerName]ed25519.PublicKey{"x": ed25519.PublicKey(pubB)}}
	kind := vpChoice("kind", "duplicate-key", "non-state-in-state", "non-state-in-auth", "fine")
	resp := &vpStateResp{auth: EventJSONs{c.JSON(), j.JSON()}, state: EventJSONs{c.JSON(), j.JSON(), t1.JSON()}}
	switch kind {
	case "duplicate-key":
		resp.state = append(resp.state, t2.JSON())
	case "non-state-in-state":
		resp.state = append(resp.state, msg.JSON())
	case "non-state-in-auth":
		resp.auth = append(resp.auth, msg.JSON())
	}
	_, _, err = CheckStateResponse(context.Background(), resp, ver, verifier, nil, vpUserIDForSender)
	vpAssert("malformed-response-fails", (err != nil) == (kind != "fine"))
	vpReach("fine", err == nil)
}

// vp:check C14 both configs=version:10 K=24 timeout=1200
// vp_C14_send_join_response: CheckSendJoinResponse accepts exactly when the join event is allowed by the auth events it
// cites AND by the returned current state. The state's join rule is public or invite; the join may instead cite an older
// public join rule that is only part of the auth chain; Bob may already be invited or banned in the state; the join
// rule event of the state may carry a bad signature (it is then dropped and the default rule, invite, applies).
func vp_C14_send_join_response() {
	ver := RoomVersion(vpConfig("version"))
	verImpl, err := GetRoomVersion(ver)
	vpAssume(err == nil)
	c := vpBuild(verImpl, vpAlice, spec.MRoomCreate, vpStrPtr(""), vpJObj("creator", vpAlice, "room_version", string(ver)), nil, 1, true)
	j := vpBuild(verImpl, vpAlice, spec.MRoomMember, vpStrPtr(vpAlice), vpJObj("membership", spec.Join), []string{c.EventID()}, 2, true)
	p := vpBuild(verImpl, vpAlice, spec.MRoomPowerLevels, vpStrPtr(""), vpJObj("users", vpJObj(vpAlice, int64(100))), []string{c.EventID(), j.EventID()}, 3, true)
	base := []string{c.EventID(), j.EventID(), p.EventID()}
	oldJR := vpBuild(verImpl, vpAlice, spec.MRoomJoinRules, vpStrPtr(""), vpJObj("join_rule", spec.Public), base, 4, true)
	stateRule := vpChoice("state_join_rule", spec.Public, spec.Invite)
	jrSigOK := vpNondetBool("state_join_rule_signature_good")
	curJR := vpBuild(verImpl, vpAlice, spec.MRoomJoinRules, vpStrPtr(""), vpJObj("join_rule", stateRule, "v", int64(2)), base, 5, jrSigOK)
	prior := vpChoice("bob_prior_membership", "none", spec.Invite, spec.Ban)
	var bobPrior PDU
	if prior != "none" {
		bobPrior = vpBuild(verImpl, vpAlice, spec.MRoomMember, vpStrPtr(vpBob), vpJObj("membership", prior), append(append([]string{}, base...), curJR.EventID()), 6, true)
	}
	cites := vpChoice("join_cites", "state-join-rule", "old-public-join-rule")
	citedJR := curJR
	if cites == "old-public-join-rule" {
		citedJR = oldJR
	}
	joinAuth := []string{c.EventID(), p.EventID(), citedJR.EventID()}
	if bobPrior != nil {
		joinAuth = append(joinAuth, bobPrior.EventID())
	}
	join := vpBuild(verImpl, vpBob, spec.MRoomMember, vpStrPtr(vpBob), vpJObj("membership", spec.Join), joinAuth, 7, true)

	pubB, _ := vpKey("server-x")
	verifier := &vpKeyVerifier{keys: map[spec.ServerName]ed25519.PublicKey{"x": ed25519.PublicKey(pubB)}}
	resp := &vpStateResp{auth: EventJSONs{c.JSON(), j.JSON(), p.JSON(), oldJR.JSON()}, state: EventJSONs{c.JSON(), j.JSON(), p.JSON(), curJR.JSON()}}
	if bobPrior != nil {
		resp.state = append(resp.state, bobPrior.JSON())
	}
	out, err := CheckSendJoinResponse(context.Background(), ver, resp, verifier, join, nil, vpUserIDForSender)

	allowedUnder := func(rule string) bool {
		switch prior {
		case spec.Ban:
			return false
		case spec.Invite:
			return true
		}
		return rule == spec.Public
	}
	effectiveStateRule := stateRule
	if !jrSigOK {
		effectiveStateRule = spec.Invite // the badly signed join-rules event is dropped: default rule
	}
	citedRule := spec.Public
	if cites == "state-join-rule" {
		citedRule = effectiveStateRule
	}
	want := allowedUnder(citedRule) && allowedUnder(effectiveStateRule)
	vpAssert("accepted-iff-allowed-by-auth-events-and-state", (err == nil) == want)
	if err == nil {
		st := out.GetStateEvents().UntrustedEvents(ver)
		vpAssert("bad-join-rule-dropped", vpHasID(st, curJR.EventID()) == jrSigOK)
		vpAssert("state-kept", vpHasID(st, c.EventID()) && vpHasID(st, p.EventID()))
	}
	vpReach("accepted", err == nil)
	vpReach("refused-by-state-only", err != nil && allowedUnder(citedRule))
}

// vp:check C06 both configs=version:1|10 K=24 timeout=900
// vp:check C14 both configs=version:10 K=24 timeout=900
// vp_C06_batch: VerifyAllEventSignatures returns one verdict per event, in order, and the verdict of an event is the
// one it gets on its own - also when the batch holds several copies of one event (same ID, since the ID does not
// cover signatures) that differ in whether the sender's server validly signed them, in either order, next to other
// events. Real signatures (idealised ed25519) through a key-holding verifier.
func vp_C06_batch() {
	ver := RoomVersion(vpConfig("version"))
	verImpl, err := GetRoomVersion(ver)
	vpAssume(err == nil)
	ok1, ok2, ok3 := vpNondetBool("sig_ok.copy1"), vpNondetBool("sig_ok.copy2"), vpNondetBool("sig_ok.other")
	c := vpBuild(verImpl, vpAlice, spec.MRoomCreate, vpStrPtr(""), vpJObj("creator", vpAlice, "room_version", string(ver)), nil, 1, true)
	e1 := vpBuild(verImpl, vpAlice, spec.MRoomMember, vpStrPtr(vpAlice), vpJObj("membership", spec.Join), []string{c.EventID()}, 2, ok1)
	e2 := vpBuild(verImpl, vpAlice, spec.MRoomMember, vpStrPtr(vpAlice), vpJObj("membership", spec.Join), []string{c.EventID()}, 2, ok2)
	o := vpBuild(verImpl, vpAlice, "m.room.topic", vpStrPtr(""), vpJObj("topic", "t"), []string{c.EventID()}, 3, ok3)
	pubB, _ := vpKey("server-x")
	verifier := &vpKeyVerifier{keys: map[spec.ServerName]ed25519.PublicKey{"x": ed25519.PublicKey(pubB)}}
	var batch []PDU
	var want []bool
	switch vpChoice("order", "copy1-copy2-other", "other-copy2-copy1", "copy1-other-copy2") {
	case "copy1-copy2-other":
		batch, want = []PDU{e1, e2, o}, []bool{ok1, ok2, ok3}
	case "other-copy2-copy1":
		batch, want = []PDU{o, e2, e1}, []bool{ok3, ok2, ok1}
	default:
		batch, want = []PDU{e1, o, e2}, []bool{ok1, ok3, ok2}
	}
	errs := VerifyAllEventSignatures(context.Background(), batch, verifier, vpUserIDForSender)
	vpAssert("one-verdict-per-event", len(errs) == len(batch))
	if len(errs) == len(batch) {
		for i := range batch {
			vpAssert("verdict-of-each-event-is-its-own", (errs[i] == nil) == want[i])
			vpAssert("same-as-alone", (errs[i] == nil) == (VerifyEventSignatures(context.Background(), batch[i], verifier, vpUserIDForSender) == nil))
		}
	}
	vpReach("mixed", len(errs) == 3 && errs[0] == nil && errs[2] != nil)
}
