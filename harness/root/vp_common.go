//go:build verif

package gomatrixserverlib

import (
	"github.com/matrix-org/gomatrixserverlib/spec"
)

func vpStrPtr(s string) *string { return &s }

// vpIsV12 reports whether events of the version use the v12 struct (room ID derived from the create event).
func vpIsV12(ver RoomVersion) bool { return ver == RoomVersionV12 || ver == "org.matrix.hydra.11" }

// vpMkEvent builds the real event struct of the room version with the given fields (in-package construction; the
// accessors used afterwards are the library's own). eventJSON is left nil.
func vpMkEvent(ver RoomVersion, eventID, roomID, sender, typ string, stateKey *string, content []byte) PDU {
	f := eventFields{RoomID: roomID, SenderID: sender, Type: typ, StateKey: stateKey, Content: content}
	v1 := eventV1{roomVersion: ver, eventFields: f, EventIDRaw: eventID}
	switch {
	case ver == RoomVersionV1 || ver == RoomVersionV2:
		return &v1
	case vpIsV12(ver):
		return &eventV3{eventV2{eventV1: v1}}
	default:
		return &eventV2{eventV1: v1}
	}
}

// vpUserIDForSender: sender IDs are user IDs (no pseudo-IDs).
func vpUserIDForSender(roomID spec.RoomID, senderID spec.SenderID) (*spec.UserID, error) {
	return spec.NewUserID(string(senderID), true)
}

const (
	vpRoom  = "!r:x"
	vpRoom2 = "!q:x"
	vpAlice = "@a:x"
	vpBob   = "@b:x"
	vpCarol = "@c:y"
)

// vpRoomIDFor: in v12 the room ID is the create event's ID with the sigil swapped.
func vpRoomIDFor(ver RoomVersion, createID string) string {
	if vpIsV12(ver) {
		return "!" + createID[1:]
	}
	return vpRoom
}

const vpCreateID12 = "$0123456789012345678901234567890123456789012"

func vpCreateID(ver RoomVersion) string {
	if vpIsV12(ver) {
		return vpCreateID12
	}
	return "$create:x"
}
