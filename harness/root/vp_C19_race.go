//go:build verif

package gomatrixserverlib

import (
	"sync"
	"time"

	"github.com/matrix-org/gomatrixserverlib/spec"
	"golang.org/x/crypto/ed25519"
)

// vp:check C19 both configs=version:1|10|12;route:trusted|untrusted K=24 timeout=900 races=1
// vp_C19_race_accessors: the read-only accessors of one parsed event, called for the first time from two goroutines
// at once, do not race: no location of the shared event is written by one goroutine and accessed by the other without
// synchronisation. The event is parsed from JSON as trusted (database) or untrusted (federation) input. Under the
// engine every heap access of the two goroutines is logged and compared (data race = conflicting accesses of
// different goroutines, no synchronisation between them here); natively the replay runs under the Go race detector.
func vp_C19_race_accessors() {
	ver := RoomVersion(vpConfig("version"))
	verImpl, err := GetRoomVersion(ver)
	vpAssume(err == nil)
	_, privB := vpKey("origin")
	room := vpRoomIDFor(ver, vpCreateID12)
	sk := vpAlice
	prev, auth := []string{"$p1:x"}, []string{"$a1:x"}
	if vpSpecTraits(ver).idFormat != EventIDFormatV1 {
		prev = []string{"$0123456789012345678901234567890123456789abc"}
		auth = []string{"$0123456789012345678901234567890123456789abd"}
	}
	eb := verImpl.NewEventBuilderFromProtoEvent(&ProtoEvent{SenderID: vpAlice, RoomID: room, Type: spec.MRoomMember, StateKey: &sk,
		PrevEvents: prev, AuthEvents: auth, Depth: 7, Content: vpJObj("membership", spec.Join)})
	built, err := eb.Build(time.Unix(1700000000, 0), "x", "ed25519:1", ed25519.PrivateKey(privB))
	vpAssume(err == nil)
	var ev PDU
	if vpConfig("route") == "trusted" {
		ev, err = verImpl.NewEventFromTrustedJSON(built.JSON(), false)
	} else {
		ev, err = verImpl.NewEventFromUntrustedJSON(built.JSON())
	}
	vpAssume(err == nil)
	var wg sync.WaitGroup
	ids := make([]string, 2)
	for g := 0; g < 2; g++ {
		wg.Add(1)
		go func(g int) {
			defer wg.Done()
			ids[g] = ev.EventID()
			_ = ev.Type()
			_ = ev.SenderID()
			_ = ev.RoomID()
			_ = ev.StateKey()
			_ = ev.StateKeyEquals(vpAlice)
			_ = ev.Content()
			_ = ev.Depth()
			_ = ev.OriginServerTS()
			_ = ev.PrevEventIDs()
			_ = ev.AuthEventIDs()
			_ = ev.Redacted()
			_ = ev.Redacts()
			_ = ev.JSON()
			_ = ev.Unsigned()
			_ = ev.Version()
			_, _ = ev.Membership()
		}(g)
	}
	wg.Wait()
	vpAssert("both-callers-see-the-same-id", ids[0] == ids[1] && ids[0] == built.EventID())
	vpReach("done", true)
}
