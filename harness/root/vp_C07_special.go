//go:build verif

package gomatrixserverlib

import "github.com/matrix-org/gomatrixserverlib/spec"

// vp:check C07 both configs=version:ALLVERSIONS K=12 timeout=900
// vp_C07_create: an m.room.create event is allowed exactly when its state key is empty, it has no previous events, its
// room_version (if present) is a known one and - up to version 11 - the sender's server is the server of the room ID and
// (up to version 10) content.creator is present; in version 12 instead the event must carry no room_id and every
// additional creator must be a valid user ID.
func vp_C07_create() {
	ver := RoomVersion(vpConfig("version"))
	n, _ := vpVerNum(ver)
	createID := vpCreateID(ver)
	sender := vpChoice("sender", vpAlice, vpCarol) // server x (the room's) or y
	emptyStateKey := vpNondetBool("state_key_empty")
	sk := vpStrPtr("")
	if !emptyStateKey {
		sk = vpStrPtr("x")
	}
	hasPrev := vpNondetBool("has_prev_events")
	rv := vpChoice("room_version", "absent", "same", "other-known", "unknown")
	hasCreator := vpNondetBool("has_creator")
	addl := vpChoice("additional_creators", "absent", "valid", "invalid", "empty-list")
	args := []interface{}{}
	if hasCreator {
		args = append(args, "creator", sender)
	}
	switch rv {
	case "same":
		args = append(args, "room_version", string(ver))
	case "other-known":
		args = append(args, "room_version", "6")
	case "unknown":
		args = append(args, "room_version", "no.such.version")
	}
	switch addl {
	case "valid":
		args = append(args, "additional_creators", vpJArr(vpBob, vpCarol))
	case "invalid":
		args = append(args, "additional_creators", vpJArr(vpBob, "not-a-user-id"))
	case "empty-list":
		args = append(args, "additional_creators", vpJArr())
	}
	content := vpJObj(args...)
	room := vpRoom
	carriesRoomID := true
	if vpIsV12(ver) {
		room = ""
		carriesRoomID = vpNondetBool("carries_room_id")
		if !emptyStateKey {
			// not a create event in the sense of the v12 event format (parsing requires a room_id for it)
			room = "!" + createID[1:]
		}
	}
	ev := vpMkEvent(ver, createID, room, sender, spec.MRoomCreate, sk, content)
	if hasPrev {
		vpSetPrev(ev, []string{"$before:x"})
	} else {
		vpSetPrev(ev, []string{})
	}
	if vpIsV12(ver) {
		// the v12 rule looks at the JSON the event arrived as
		j := []interface{}{"type", spec.MRoomCreate, "sender", sender, "state_key", *sk, "content", content}
		if carriesRoomID {
			j = append(j, "room_id", "!"+createID[1:])
		}
		vpSetJSON(ev, vpJObj(j...))
	}
	auth, _ := NewAuthEvents(nil)
	got := Allowed(ev, auth, vpUserIDForSender) == nil

	want := emptyStateKey && !hasPrev && rv != "unknown"
	switch {
	case n >= 12:
		want = want && !carriesRoomID && addl != "invalid"
	case n == 11:
		want = want && sender == vpAlice
	default:
		want = want && sender == vpAlice && hasCreator
	}
	vpAssert("create-verdict", got == want)
	vpReach("accepted", got)
	vpReach("rejected", !got)
}

// vp:check C07 both configs=version:1|6|10;change:user-level|ban-level|user-removed|bad-user-id|nothing|event-level|event-level-removed|event-level-added K=12 timeout=900
// vp_C07_power_levels: an m.room.power_levels event goes through Allowed exactly as the specification's rule for it
// says: the sender is joined and has the level required to send it (state_default here); every key of `users` is a
// user ID; a threshold may be changed only if its old and its new value are at most the sender's level; another
// user's level may be changed only if its old value is below and its new value at most the sender's level. All levels
// are 64-bit symbolic. (The function-level no-escalation invariant over arbitrary contents is property C08.)
func vp_C07_power_levels() {
	ver := RoomVersion(vpConfig("version"))
	room := vpRoom
	auth, _ := NewAuthEvents(nil)
	_ = auth.AddEvent(vpMkEvent(ver, "$create:x", room, vpCarol, spec.MRoomCreate, vpStrPtr(""), vpJObj("creator", vpCarol, "room_version", string(ver))))
	a, b := vpNondetI64("old.alice"), vpNondetI64("old.bob")
	sd, ban := vpNondetI64("old.state_default"), vpNondetI64("old.ban")
	ud := vpNondetI64("old.users_default")
	// a per-event-type threshold for m.room.join_rules (present in the old content unless it is being added)
	ev0, ed := vpNondetI64("old.events.join_rules"), vpNondetI64("old.events_default")
	change := vpConfig("change")
	oldEvents := vpJObj(spec.MRoomJoinRules, ev0)
	if change == "event-level-added" {
		oldEvents = vpJObj()
	}
	oldPL := vpJObj("users", vpJObj(vpAlice, a, vpBob, b), "users_default", ud, "state_default", sd, "ban", ban, "events", oldEvents, "events_default", ed)
	_ = auth.AddEvent(vpMkEvent(ver, "$pl:x", room, vpCarol, spec.MRoomPowerLevels, vpStrPtr(""), oldPL))
	joined := vpNondetBool("sender_joined")
	if joined {
		_ = auth.AddEvent(vpMkEvent(ver, "$ma:x", room, vpAlice, spec.MRoomMember, vpStrPtr(vpAlice), vpJObj("membership", spec.Join)))
	}
	nb, nban := b, ban
	newEvents := oldEvents
	// effective old / new threshold of m.room.join_rules (a state event: the library compares per-type levels using
	// the non-state default - departure D3)
	oldEff, newEff := ev0, ev0
	switch change {
	case "event-level":
		newEff = vpNondetI64("new.events.join_rules")
		newEvents = vpJObj(spec.MRoomJoinRules, newEff)
	case "event-level-removed":
		newEff = ed
		newEvents = vpJObj()
	case "event-level-added":
		oldEff = ed
		newEff = vpNondetI64("new.events.join_rules")
		newEvents = vpJObj(spec.MRoomJoinRules, newEff)
	}
	users := vpJObj(vpAlice, a, vpBob, b)
	switch change {
	case "user-level":
		nb = vpNondetI64("new.bob")
		users = vpJObj(vpAlice, a, vpBob, nb)
	case "ban-level":
		nban = vpNondetI64("new.ban")
	case "user-removed":
		nb = ud // Bob falls back to users_default
		users = vpJObj(vpAlice, a)
	case "bad-user-id":
		users = vpJObj(vpAlice, a, vpBob, b, "not-a-user-id", int64(0))
	}
	newPL := vpJObj("users", users, "users_default", ud, "state_default", sd, "ban", nban, "events", newEvents, "events_default", ed)
	ev := vpMkEvent(ver, "$npl:x", room, vpAlice, spec.MRoomPowerLevels, vpStrPtr(""), newPL)
	got := Allowed(ev, auth, vpUserIDForSender) == nil

	want := joined && a >= sd && change != "bad-user-id"
	if nban != ban {
		want = want && ban <= a && nban <= a
	}
	if nb != b {
		want = want && b < a && nb <= a
	}
	if newEff != oldEff {
		want = want && oldEff <= a && newEff <= a
	}
	vpAssert("power-levels-verdict", got == want)
	vpReach("accepted", got)
	vpReach("rejected-for-level", !got && joined && a >= sd && change != "bad-user-id")
}

// vp:check C07 both configs=version:12|org.matrix.hydra.11 K=12 timeout=900
// vp_C07_creator_power_levels: in room version 12 a room creator (sender of the create event, or an additional
// creator) has more power than any level: every change to a threshold, a per-event level, a notification level or
// another (non-creator) user's level is allowed, whatever the old and new 64-bit values are; the same change by an
// ordinary user of symbolic level follows the usual rule.
func vp_C07_creator_power_levels() {
	ver := RoomVersion(vpConfig("version"))
	room := vpRoomIDFor(ver, vpCreateID12)
	auth, _ := NewAuthEvents(nil)
	_ = auth.AddEvent(vpMkEvent(ver, vpCreateID12, "", vpAlice, spec.MRoomCreate, vpStrPtr(""), vpJObj("room_version", string(ver), "additional_creators", vpJArr(vpCarol))))
	sender := vpChoice("sender", vpAlice, vpCarol, vpBob) // creator, additional creator, ordinary user
	b, d := vpNondetI64("old.bob"), vpNondetI64("old.dave")
	oldV := vpNondetI64("old.value")
	newV := vpNondetI64("new.value")
	// events of this room version carry only integers of at most 53 bits (enforced canonical JSON)
	const lim = int64(1)<<53 - 1
	vpAssume(b >= -lim && b <= lim && d >= -lim && d <= lim && oldV >= -lim && oldV <= lim && newV >= -lim && newV <= lim)
	where := vpChoice("where", "ban", "notifications", "events", "users")
	mk := func(v int64) []byte {
		ban, notif, events, dave := int64(50), int64(50), int64(50), d
		switch where {
		case "ban":
			ban = v
		case "notifications":
			notif = v
		case "events":
			events = v
		default:
			dave = v
		}
		return vpJObj("users", vpJObj(vpBob, b, "@d:x", dave), "ban", ban, "notifications", vpJObj("room", notif), "events", vpJObj("m.room.name", events))
	}
	if where == "users" {
		oldV = d
	}
	_ = auth.AddEvent(vpMkEvent(ver, "$pl:x", room, vpAlice, spec.MRoomPowerLevels, vpStrPtr(""), mk(oldV)))
	_ = auth.AddEvent(vpMkEvent(ver, "$ms:x", room, sender, spec.MRoomMember, vpStrPtr(sender), vpJObj("membership", spec.Join)))
	ev := vpMkEvent(ver, "$npl:x", room, sender, spec.MRoomPowerLevels, vpStrPtr(""), mk(newV))
	got := Allowed(ev, auth, vpUserIDForSender) == nil
	if sender != vpBob {
		vpAssert("creator-may-change-any-level", got)
	} else {
		want := b >= 50 // state_default
		if newV != oldV {
			if where == "users" {
				want = want && oldV < b && newV <= b
			} else {
				want = want && oldV <= b && newV <= b
			}
		}
		if where == "notifications" && newV != oldV && oldV == b {
			return // departure D13: changing a notification level equal to the sender's is refused (either verdict)
		}
		vpAssert("ordinary-user-verdict", got == want)
	}
	vpReach("accepted", got)
	vpReach("rejected", !got)
}
