//go:build verif

package gomatrixserverlib

import (
	"github.com/matrix-org/gomatrixserverlib/spec"
)

func vpPL(name string) *stateResV2ConflictedPowerLevel {
	return &stateResV2ConflictedPowerLevel{
		powerLevel:     vpNondetI64(name + ".pl"),
		originServerTS: spec.Timestamp(vpNondetU64(name + ".ts")),
		eventID:        vpNondetStringN(name+".id", 3),
	}
}

// vpPLBefore: the specified order for power events: greater power level first, then earlier origin_server_ts, then
// lexicographically smaller event ID.
func vpPLBefore(a, b *stateResV2ConflictedPowerLevel) bool {
	if a.powerLevel != b.powerLevel {
		return a.powerLevel > b.powerLevel
	}
	if a.originServerTS != b.originServerTS {
		return a.originServerTS < b.originServerTS
	}
	return a.eventID < b.eventID
}

// vp:check C10 both K=12
// vp_C10_cmp_power: sortStateResV2ConflictedPowerLevelHeap is the specified strict order (sign agrees with the
// reference for every pair; antisymmetric; transitive on every triple) over full-width fields and 3-byte IDs.
func vp_C10_cmp_power() {
	a, b, c := vpPL("a"), vpPL("b"), vpPL("c")
	ab, ba := sortStateResV2ConflictedPowerLevelHeap(a, b), sortStateResV2ConflictedPowerLevelHeap(b, a)
	vpAssert("matches-spec-order", (ab < 0) == vpPLBefore(a, b) && (ab > 0) == vpPLBefore(b, a))
	vpAssert("antisymmetric", (ab < 0) == (ba > 0) && (ab == 0) == (ba == 0))
	vpAssert("zero-iff-same-key", (ab == 0) == (a.powerLevel == b.powerLevel && a.originServerTS == b.originServerTS && a.eventID == b.eventID))
	bc, ac := sortStateResV2ConflictedPowerLevelHeap(b, c), sortStateResV2ConflictedPowerLevelHeap(a, c)
	if ab < 0 && bc < 0 {
		vpAssert("transitive", ac < 0)
	}
	vpReach("less", ab < 0)
	vpReach("tie-on-id", a.powerLevel == b.powerLevel && a.originServerTS == b.originServerTS && ab > 0)
}

func vpOther(name string) *stateResV2ConflictedOther {
	return &stateResV2ConflictedOther{
		mainlinePosition: int(vpNondetI64(name + ".pos")),
		mainlineSteps:    int(vpNondetI64(name + ".steps")),
		originServerTS:   spec.Timestamp(vpNondetU64(name + ".ts")),
		eventID:          vpNondetStringN(name+".id", 3),
	}
}

func vpOtherBefore(a, b *stateResV2ConflictedOther) bool {
	if a.mainlinePosition != b.mainlinePosition {
		return a.mainlinePosition < b.mainlinePosition
	}
	if a.mainlineSteps != b.mainlineSteps { // refinement R2
		return a.mainlineSteps < b.mainlineSteps
	}
	if a.originServerTS != b.originServerTS {
		return a.originServerTS < b.originServerTS
	}
	return a.eventID < b.eventID
}

// vp:check C10 both K=12
// vp_C10_cmp_other: sortStateResV2ConflictedOtherHeap is the mainline order (position, steps [R2], timestamp, ID).
func vp_C10_cmp_other() {
	a, b, c := vpOther("a"), vpOther("b"), vpOther("c")
	ab, ba := sortStateResV2ConflictedOtherHeap(a, b), sortStateResV2ConflictedOtherHeap(b, a)
	vpAssert("matches-spec-order", (ab < 0) == vpOtherBefore(a, b) && (ab > 0) == vpOtherBefore(b, a))
	vpAssert("antisymmetric", (ab < 0) == (ba > 0) && (ab == 0) == (ba == 0))
	bc, ac := sortStateResV2ConflictedOtherHeap(b, c), sortStateResV2ConflictedOtherHeap(a, c)
	if ab < 0 && bc < 0 {
		vpAssert("transitive", ac < 0)
	}
	vpReach("less", ab < 0)
}

// vp:check C10 both K=24
// vp_C10_cmp_v1: the version-1 block order: ascending depth, then descending SHA-1 of the event ID (ideal SHA-1).
func vp_C10_cmp_v1() {
	s := conflictedEventSorter{
		{depth: vpNondetI64("a.depth")}, {depth: vpNondetI64("b.depth")}, {depth: vpNondetI64("c.depth")},
	}
	for i := range s {
		copy(s[i].eventIDSHA1[:], vpNondetBytes("sha"+string(rune('0'+i)), 20))
	}
	ref := func(i, j int) bool {
		if s[i].depth != s[j].depth {
			return s[i].depth < s[j].depth
		}
		for k := 0; k < 20; k++ {
			if s[i].eventIDSHA1[k] != s[j].eventIDSHA1[k] {
				return s[i].eventIDSHA1[k] > s[j].eventIDSHA1[k]
			}
		}
		return false
	}
	vpAssert("matches-spec-order", s.Less(0, 1) == ref(0, 1))
	vpAssert("irreflexive", !s.Less(0, 0))
	vpAssert("asymmetric", !(s.Less(0, 1) && s.Less(1, 0)))
	if s.Less(0, 1) && s.Less(1, 2) {
		vpAssert("transitive", s.Less(0, 2))
	}
	vpReach("less", s.Less(0, 1))
}

// vp:check C10 both configs=version:1|10|12 K=12
// vp_C10_control: isControlEvent is the specification's "power event": power_levels / join_rules with empty state key,
// or a leave/ban membership whose sender differs from its (non-empty) state key.
func vp_C10_control() {
	ver := RoomVersion(vpConfig("version"))
	typ := vpChoice("type", spec.MRoomPowerLevels, spec.MRoomJoinRules, spec.MRoomMember, spec.MRoomCreate, "m.room.name")
	var sk *string
	skKind := vpChoice("state_key", "nil", "empty", "sender", "other")
	switch skKind {
	case "empty":
		sk = vpStrPtr("")
	case "sender":
		sk = vpStrPtr(vpAlice)
	case "other":
		sk = vpStrPtr(vpBob)
	}
	membership := vpChoice("membership", spec.Join, spec.Leave, spec.Ban, spec.Invite, "")
	ev := vpMkEvent(ver, "$e:x", vpRoom, vpAlice, typ, sk, vpJObj("membership", membership))
	got := isControlEvent(ev)
	want := false
	switch typ {
	case spec.MRoomPowerLevels, spec.MRoomJoinRules:
		want = skKind == "empty"
	case spec.MRoomMember:
		want = skKind == "other" && (membership == spec.Leave || membership == spec.Ban)
	}
	vpAssert("power-event-definition", got == want)
	vpReach("control", got)
}
