//go:build verif

package gomatrixserverlib

import (
	"time"

	"github.com/matrix-org/gomatrixserverlib/spec"
	"golang.org/x/crypto/ed25519"
)

// vp:check C18 both configs=version:1|3|10|12 K=24 timeout=1200
// vp_C18_accessors: an event that NewEventFromUntrustedJSON accepted never panics in any accessor, Redact, Sign,
// SetUnsigned, ToHeaderedJSON or IsSticky. The room ID domain, the sender localpart and the event type are arbitrary
// printable strings; state key present or absent.
func vp_C18_accessors() {
	ver := RoomVersion(vpConfig("version"))
	verImpl, err := GetRoomVersion(ver)
	vpAssume(err == nil)
	dom := vpNondetStringN("room_domain", 3)
	for i := 0; i < len(dom); i++ {
		vpAssume(dom[i] >= 0x21 && dom[i] <= 0x7e && dom[i] != '"' && dom[i] != '\\')
	}
	room := "!a:" + dom
	if vpIsV12(ver) && vpNondetBool("domainless_room_id") {
		room = "!" + vpNondetStringN("opaque", 2) // v12: no ':' at all
	}
	sender := "@" + vpChoice("local", "a", "A", "") + ":x"
	typ := vpChoice("type", "m.room.message", spec.MRoomMember, spec.MRoomCreate, spec.MRoomPowerLevels)
	args := []interface{}{"type", typ, "room_id", room, "sender", sender, "content", vpJObj("membership", "join", "body", "b"),
		"depth", int64(vpNondetBits("depth", 8)), "origin_server_ts", int64(vpNondetBits("ts", 8)), "hashes", vpJObj("sha256", "")}
	if vpNondetBool("has_state_key") {
		args = append(args, "state_key", vpChoice("state_key", "", "@b:x"))
	}
	if verImpl.EventFormat() == EventFormatV1 {
		args = append(args, "event_id", "$e:x", "prev_events", vpJArr(vpJArr("$p:x", vpJObj("sha256", "aGFzaA"))), "auth_events", vpJArr())
	} else {
		args = append(args, "prev_events", vpJArr("$0123456789012345678901234567890123456789abc"), "auth_events", vpJArr())
	}
	raw := vpJObj(args...)
	ev, err := verImpl.NewEventFromUntrustedJSON(raw)
	vpReach("accepted", err == nil)
	if err != nil {
		return
	}
	// KF-C18-2: parsing validates room_id only with checkID (sigil, ':' present, length); RoomID() then panics when
	// spec.NewRoomID rejects the domain (or, in v12, the domainless form)
	_, rerr := spec.NewRoomID(room)
	isCreate12 := vpIsV12(ver) && typ == spec.MRoomCreate && ev.StateKeyEquals("")
	vpExpectPanic("KF-C18-2", rerr != nil && !isCreate12)
	_ = ev.RoomID()
	vpEndExpect()
	_ = ev.EventID()
	_ = ev.StateKey()
	_ = ev.StateKeyEquals("x")
	_ = ev.Type()
	_ = ev.Content()
	_, _ = ev.JoinRule()
	_, _ = ev.HistoryVisibility()
	_, _ = ev.Membership()
	_, _ = ev.PowerLevels()
	_ = ev.Version()
	_ = ev.Redacts()
	_ = ev.Redacted()
	_ = ev.PrevEventIDs()
	_ = ev.AuthEventIDs()
	_ = ev.OriginServerTS()
	_ = ev.SenderID()
	_ = ev.Unsigned()
	_ = ev.Depth()
	_ = ev.JSON()
	_, _ = ev.ToHeaderedJSON()
	_ = ev.IsSticky(time.Unix(10, 0), time.Unix(5, 0))
	_, _ = ev.SetUnsigned(map[string]interface{}{"a": int64(1)})
	_, priv := vpKey("k")
	_ = ev.Sign("x", "ed25519:1", ed25519.PrivateKey(priv))
	ev.Redact()
	_ = ev.RoomID()
	vpReach("all-accessors-returned", true)
}

// vp:check C18 both K=24 timeout=600
// vp_C18_sender_pseudo: in the pseudo-ID room version the sender field is not validated on receipt, so the SenderID
// helpers must cope with whatever parsing accepted.
func vp_C18_sender_pseudo() {
	verImpl, err := GetRoomVersion(RoomVersionPseudoIDs)
	vpAssume(err == nil)
	sender := vpChoice("sender", "", "@a:x", "abc")
	raw := vpJObj("type", "m.room.message", "room_id", vpRoom, "sender", sender, "content", vpJObj("body", "b"), "depth", int64(1),
		"origin_server_ts", int64(1), "hashes", vpJObj("sha256", ""), "prev_events", vpJArr("$0123456789012345678901234567890123456789abc"), "auth_events", vpJArr())
	ev, err := verImpl.NewEventFromUntrustedJSON(raw)
	vpReach("accepted", err == nil)
	if err != nil {
		return
	}
	// (fixed: KF-C18-3 - SenderID("").IsUserID() indexed the empty string)
	_ = ev.SenderID().IsUserID()
	_ = ev.SenderID().IsPseudoID()
	_ = ev.SenderID().ToUserID()
	_ = ev.SenderID().ToPseudoID()
	vpReach("helpers-returned", true)
}

// vp:check C18 both configs=version:1|10|12|org.matrix.msc4014 K=24 timeout=1200
// vp_C18_allowed_total: Allowed and StateNeededForAuth never panic, whatever the type / state key / content shape of
// the event (every type with a rule of its own, with and without a state key, with well-typed, mistyped and empty
// content) and whatever auth state is present. The verdict itself is the subject of C07; here every reachable Go
// panic is a verification condition.
func vp_C18_allowed_total() {
	ver := RoomVersion(vpConfig("version"))
	createID := vpCreateID(ver)
	room := vpRoomIDFor(ver, createID)
	typ := vpChoice("type", spec.MRoomCreate, spec.MRoomMember, spec.MRoomAliases, spec.MRoomPowerLevels, spec.MRoomRedaction, spec.MRoomJoinRules, spec.MRoomThirdPartyInvite, "m.room.name")
	var sk *string
	switch vpChoice("state_key", "nil", "empty", "user", "server", "other") {
	case "empty":
		sk = vpStrPtr("")
	case "user":
		sk = vpStrPtr(vpBob)
	case "server":
		sk = vpStrPtr("x")
	case "other":
		sk = vpStrPtr("@not a user id")
	}
	var content []byte
	switch vpChoice("content", "empty", "membership-join", "membership-number", "levels", "levels-mistyped", "tpi-block", "tpi-block-signed", "tpi-block-mistyped") {
	case "tpi-block-signed":
		// a signed block carrying a (64-byte) signature of an identity server
		sig := "AAAAAAAAAAAAAAAAAAAAAAAAAAAAAAAAAAAAAAAAAAAAAAAAAAAAAAAAAAAAAAAAAAAAAAAAAAAAAAAAAAAAAA"
		content = vpJObj("membership", spec.Invite, "third_party_invite", vpJObj("display_name", "d", "signed",
			vpJObj("mxid", vpBob, "token", "tok", "signatures", vpJObj("id.example", vpJObj("ed25519:0", sig)))))
	case "empty":
		content = vpJObj()
	case "membership-join":
		content = vpJObj("membership", spec.Join)
	case "membership-number":
		content = vpJObj("membership", int64(5))
	case "levels":
		content = vpJObj("users", vpJObj(vpAlice, int64(100)), "ban", int64(50))
	case "levels-mistyped":
		content = vpJObj("users", vpJArr("x"), "ban", "fifty", "events", int64(3))
	case "tpi-block":
		content = vpJObj("membership", spec.Invite, "third_party_invite", vpJObj("display_name", "d", "signed", vpJObj("mxid", vpBob, "token", "tok", "signatures", vpJObj())))
	default:
		content = vpJObj("membership", spec.Invite, "third_party_invite", vpJObj("signed", "not-an-object"))
	}
	sender := vpChoice("sender", vpAlice, vpCarol)
	evRoom := room
	if vpIsV12(ver) && typ == spec.MRoomCreate && sk != nil && *sk == "" {
		evRoom = ""
	}
	ev := vpMkEvent(ver, "$e:x", evRoom, sender, typ, sk, content)
	vpSetPrev(ev, []string{"$p:x"})
	if vpIsV12(ver) {
		vpSetJSON(ev, vpJObj("type", typ, "sender", sender, "content", content))
	}
	auth, _ := NewAuthEvents(nil)
	if vpNondetBool("has_create") {
		cr := room
		if vpIsV12(ver) {
			cr = ""
		}
		_ = auth.AddEvent(vpMkEvent(ver, createID, cr, vpAlice, spec.MRoomCreate, vpStrPtr(""), vpJObj("creator", vpAlice, "room_version", string(ver))))
	}
	if vpNondetBool("has_power_levels") {
		_ = auth.AddEvent(vpMkEvent(ver, "$pl:x", room, vpAlice, spec.MRoomPowerLevels, vpStrPtr(""), vpJObj("users", vpJObj(vpAlice, int64(100)))))
	}
	// a pending third-party invite whose public key may be of any length (it comes from the network like any event)
	switch vpChoice("tpi_state", "absent", "key-32-bytes", "key-3-bytes", "key-empty", "keys-mistyped") {
	case "key-32-bytes":
		_ = auth.AddEvent(vpMkEvent(ver, "$tpi:x", room, vpAlice, spec.MRoomThirdPartyInvite, vpStrPtr("tok"), vpJObj("display_name", "d", "public_keys", vpJArr(vpJObj("public_key", "AAAAAAAAAAAAAAAAAAAAAAAAAAAAAAAAAAAAAAAAAAA")))))
	case "key-3-bytes":
		_ = auth.AddEvent(vpMkEvent(ver, "$tpi:x", room, vpAlice, spec.MRoomThirdPartyInvite, vpStrPtr("tok"), vpJObj("display_name", "d", "public_keys", vpJArr(vpJObj("public_key", "AAAA")))))
	case "key-empty":
		_ = auth.AddEvent(vpMkEvent(ver, "$tpi:x", room, vpAlice, spec.MRoomThirdPartyInvite, vpStrPtr("tok"), vpJObj("display_name", "d", "public_keys", vpJArr(vpJObj("public_key", "")))))
	case "keys-mistyped":
		_ = auth.AddEvent(vpMkEvent(ver, "$tpi:x", room, vpAlice, spec.MRoomThirdPartyInvite, vpStrPtr("tok"), vpJObj("public_keys", "none")))
	}
	if vpNondetBool("sender_joined") {
		_ = auth.AddEvent(vpMkEvent(ver, "$ms:x", room, sender, spec.MRoomMember, vpStrPtr(sender), vpJObj("membership", spec.Join)))
	}
	_ = StateNeededForAuth([]PDU{ev})
	_ = Allowed(ev, auth, vpUserIDForSender)
	vpReach("done", true)
}

// vp:check C18 both K=24 timeout=900
// vp:check C02 both K=24 timeout=900
// vp_C18_signature_blocks: VerifyJSON, ListKeyIDs and SignJSON on objects whose "signatures" member (and its entries)
// have every JSON kind - absent, null, a string, a number, an array, an empty object, an entity mapped to null / a string /
// an object whose key ID maps to null / a number / a non-base64 string. None may panic: verification reports an error,
// signing either reports an error or produces an object that verifies.
func vp_C18_signature_blocks() {
	pubB, privB := vpKey("signer")
	entity := vpChoice("entity_in_block", "x", "other")
	var sigs interface{}
	shape := vpChoice("signatures", "absent", "null", "string", "number", "array", "empty", "entity-null", "entity-string", "entity-array", "key-null", "key-number", "key-not-base64", "key-empty")
	switch shape {
	case "null":
		sigs = nil
	case "string":
		sigs = "sig"
	case "number":
		sigs = int64(7)
	case "array":
		sigs = vpJArr("a")
	case "empty":
		sigs = vpJObj()
	case "entity-null":
		sigs = vpJObj(entity, nil)
	case "entity-string":
		sigs = vpJObj(entity, "s")
	case "entity-array":
		sigs = vpJObj(entity, vpJArr())
	case "key-null":
		sigs = vpJObj(entity, vpJObj("ed25519:1", nil))
	case "key-number":
		sigs = vpJObj(entity, vpJObj("ed25519:1", int64(1)))
	case "key-not-base64":
		sigs = vpJObj(entity, vpJObj("ed25519:1", "!!!"))
	case "key-empty":
		sigs = vpJObj(entity, vpJObj("ed25519:1", ""))
	}
	doc := vpJObj("a", int64(1))
	if shape != "absent" {
		doc = vpJObj("a", int64(1), "signatures", sigs)
	}
	err := VerifyJSON("x", "ed25519:1", ed25519.PublicKey(pubB), doc)
	vpAssert("malformed-signature-block-does-not-verify", err != nil)
	_, _ = ListKeyIDs("x", doc)
	signed, serr := SignJSON("x", "ed25519:1", ed25519.PrivateKey(privB), doc)
	if serr == nil {
		vpAssert("signed-object-verifies", VerifyJSON("x", "ed25519:1", ed25519.PublicKey(pubB), signed) == nil)
	}
	vpReach("signing-refused", serr != nil)
	vpReach("signed", serr == nil)
}
