//go:build verif

package gomatrixserverlib

import (
	"context"
	"encoding/json"

	"github.com/matrix-org/gomatrixserverlib/spec"
	"golang.org/x/crypto/ed25519"
)

// vp:check C14 both configs=version:10 K=24 timeout=1200
// vp_C14_load_and_verify: LoadAndVerify returns one result per input and classifies every event by the first check it
// fails: unparsable input -> an error without event; bad signature -> SignatureErr; an auth event in its chain that is
// not allowed -> AuthChainErr; not allowed by the state before it -> AuthRulesErr; otherwise no error. Three inputs:
// a good message, a second message carrying the planted fault, and a third that is good, malformed or a duplicate.
func vp_C14_load_and_verify() {
	ver := RoomVersion(vpConfig("version"))
	verImpl, err := GetRoomVersion(ver)
	vpAssume(err == nil)
	fault := vpChoice("fault", "none", "bad-signature", "chain", "at-state")
	third := vpChoice("third_input", "good", "malformed", "duplicate-of-first")
	fourth := vpChoice("fourth_input", "none", "malformed", "duplicate-of-first")

	c := vpBuild(verImpl, vpAlice, spec.MRoomCreate, vpStrPtr(""), vpJObj("creator", vpAlice, "room_version", string(ver)), nil, 1, true)
	j := vpBuild(verImpl, vpAlice, spec.MRoomMember, vpStrPtr(vpAlice), vpJObj("membership", spec.Join), []string{c.EventID()}, 2, true)
	p := vpBuild(verImpl, vpAlice, spec.MRoomPowerLevels, vpStrPtr(""), vpJObj("users", vpJObj(vpAlice, int64(100))), []string{c.EventID(), j.EventID()}, 3, true)
	rule := spec.Public
	if fault == "chain" {
		rule = spec.Invite // Bob's join is then not allowed by its auth events
	}
	jr := vpBuild(verImpl, vpAlice, spec.MRoomJoinRules, vpStrPtr(""), vpJObj("join_rule", rule), []string{c.EventID(), j.EventID(), p.EventID()}, 4, true)
	bj := vpBuild(verImpl, vpBob, spec.MRoomMember, vpStrPtr(vpBob), vpJObj("membership", spec.Join), []string{c.EventID(), p.EventID(), jr.EventID()}, 5, true)
	bl := vpBuild(verImpl, vpBob, spec.MRoomMember, vpStrPtr(vpBob), vpJObj("membership", spec.Leave), []string{c.EventID(), p.EventID(), bj.EventID()}, 6, true)

	msgA := vpBuild(verImpl, vpAlice, "m.room.message", nil, vpJObj("body", "a"), []string{c.EventID(), j.EventID(), p.EventID()}, 7, true)
	msgB := vpBuild(verImpl, vpBob, "m.room.message", nil, vpJObj("body", "b"), []string{c.EventID(), p.EventID(), bj.EventID()}, 8, fault != "bad-signature")
	msgC := vpBuild(verImpl, vpAlice, "m.room.message", nil, vpJObj("body", "c"), []string{c.EventID(), j.EventID(), p.EventID()}, 9, true)

	store := map[string]PDU{}
	for _, e := range []PDU{c, j, p, jr, bj, bl} {
		store[e.EventID()] = e
	}
	provider := func(roomVer RoomVersion, ids []string) ([]PDU, error) {
		var out []PDU
		for _, id := range ids {
			if e, ok := store[id]; ok {
				out = append(out, e)
			}
		}
		return out, nil
	}
	stateIDs := []string{c.EventID(), j.EventID(), p.EventID(), jr.EventID(), bj.EventID()}
	if fault == "at-state" {
		stateIDs = []string{c.EventID(), j.EventID(), p.EventID(), jr.EventID(), bl.EventID()} // Bob has left
	}
	sp := &vpStateProv{ids: stateIDs, events: store}
	pubB, _ := vpKey("server-x")
	verifier := &vpKeyVerifier{keys: map[spec.ServerName]ed25519.PublicKey{"x": ed25519.PublicKey(pubB)}}

	raws := []json.RawMessage{json.RawMessage(msgA.JSON()), json.RawMessage(msgB.JSON())}
	switch third {
	case "good":
		raws = append(raws, json.RawMessage(msgC.JSON()))
	case "malformed":
		raws = append(raws, json.RawMessage(`{"type":5}`))
	default:
		raws = append(raws, json.RawMessage(msgA.JSON()))
	}
	switch fourth {
	case "malformed":
		raws = append(raws, json.RawMessage(`{"type":6}`))
	case "duplicate-of-first":
		raws = append(raws, json.RawMessage(msgA.JSON()))
	}
	loader := NewEventsLoader(ver, verifier, sp, provider, false)
	res, err := loader.LoadAndVerify(context.Background(), raws, TopologicalOrderByPrevEvents, vpUserIDForSender)
	vpAssert("no-error", err == nil)
	if err != nil {
		return
	}
	vpAssert("one-result-per-input", len(res) == len(raws))
	find := func(id string) (EventLoadResult, int) {
		n := 0
		var r EventLoadResult
		for _, x := range res {
			if x.Event != nil && x.Event.EventID() == id {
				r = x
				n++
			}
		}
		return r, n
	}
	for _, r := range res {
		vpAssert("every-result-has-an-event-or-an-error", r.Event != nil || r.Error != nil)
	}
	ra, na := find(msgA.EventID())
	vpAssert("good-event-passes", na >= 1 && ra.Error == nil)
	rb, nb := find(msgB.EventID())
	vpAssert("faulty-event-reported-once", nb == 1)
	switch fault {
	case "none":
		vpAssert("no-fault-no-error", rb.Error == nil)
	case "bad-signature":
		_, isSig := rb.Error.(SignatureErr)
		vpAssert("signature-error", isSig)
	case "chain":
		_, isChain := rb.Error.(AuthChainErr)
		vpAssert("auth-chain-error", isChain)
	case "at-state":
		_, isRules := rb.Error.(AuthRulesErr)
		vpAssert("auth-rules-error", isRules)
	}
	// every input that carries no loadable event of its own (malformed, or a repeated copy) is reported by an error
	// without event
	wantNoEvent := 0
	for _, x := range []string{third, fourth} {
		if x == "malformed" || x == "duplicate-of-first" {
			wantNoEvent++
		}
	}
	gotNoEvent := 0
	for _, r := range res {
		if r.Event == nil && r.Error != nil {
			gotNoEvent++
		}
	}
	vpAssert("unloadable-inputs-reported", gotNoEvent == wantNoEvent)
	if third == "good" {
		rc, nc := find(msgC.EventID())
		vpAssert("third-good-event-passes", nc == 1 && rc.Error == nil)
	}
	vpReach("done", true)
}
