//go:build verif

package gomatrixserverlib

// vpIntLiteralInRange: the literal is an integer literal (no fraction, no exponent, no negative zero) within
// +/-(2^53-1). Literals come from the catalogue below, so a table suffices as the independent reference.
func vpIntLiteralInRange(lit string) bool {
	switch lit {
	case "0", "1", "-1", "9007199254740991", "-9007199254740991":
		return true
	}
	return false
}

// vp:check C01 both configs=version:ALLVERSIONS K=40 timeout=900
// vp_C01_enforced: EnforcedCanonicalJSON rejects every text that contains a number which is not an integer literal
// within +/-(2^53-1) for the room versions that enforce canonical JSON (6+ and the unstable ones), wherever the number
// sits (top level, nested object/array, before or after other scalars), and does not enforce for versions 1-5. Real
// bytes through the real gjson code; literals and document shapes enumerated.
func vp_C01_enforced() {
	ver := RoomVersion(vpConfig("version"))
	lit := vpChoice("literal", "0", "1", "-1", "9007199254740991", "-9007199254740991", "9007199254740992", "-9007199254740992",
		"1.5", "1.0", "0.0", "-0", "-0.0", "1e2", "1E2", "0e5", "0E0", "-0e0", "1e-2", "1E+2", "123456789012345678901234567890")
	var doc string
	switch vpChoice("shape", "top-member", "nested-first", "nested-last", "array-nested-first", "array", "deep") {
	case "top-member":
		doc = `{"a":` + lit + `}`
	case "nested-first":
		doc = `{"a":{"b":` + lit + `},"c":1}`
	case "nested-last":
		doc = `{"c":1,"a":{"b":` + lit + `}}`
	case "array-nested-first":
		doc = `[[` + lit + `],0]`
	case "array":
		doc = `[1,` + lit + `,"x"]`
	default:
		doc = `{"a":[{"b":[` + lit + `]},"s"],"z":true}`
	}
	_, err := EnforcedCanonicalJSON([]byte(doc), ver)
	n, _ := vpVerNum(ver)
	enforce := n >= 6
	want := !enforce || vpIntLiteralInRange(lit)
	// (fixed: KF-C01-2 - "0.0", "0e5", "-0.0" and "1E2" used to be accepted)
	vpAssert("enforced-verdict", (err == nil) == want)
	vpReach("accepted", err == nil)
	vpReach("rejected", err != nil)
}
