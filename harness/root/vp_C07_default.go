//go:build verif

package gomatrixserverlib

import "github.com/matrix-org/gomatrixserverlib/spec"

func vpSetRedacts(e PDU, id string) {
	switch x := e.(type) {
	case *eventV1:
		x.eventFields.Redacts = id
	case *eventV2:
		x.eventFields.Redacts = id
	case *eventV3:
		x.eventFields.Redacts = id
	}
}

// vp:check C07 both configs=version:ALLVERSIONS;kind:ordinary K=12 timeout=900
// vp:check C07 both configs=version:1|2|3|10|12;kind:redaction K=12 timeout=900
// vp:check C07 both configs=version:1|5|6|10|12|org.matrix.msc4014;kind:aliases K=12 timeout=900
// vp_C07_default: events of ordinary types (not create/member/aliases/power_levels/redaction) are accepted exactly
// when: a create event for the same room is among the auth events; the sender's server may take part (m.federate); the
// sender's membership is join; the sender's level reaches the level required for the event type; and a state key
// starting with '@' names the sender. Power levels, defaults, and v12 creator privileges as specified (DESIGN.md 7.1).
// kind=redaction: m.room.redaction passes the same checks and, in room versions 1 and 2, additionally needs the redact
// level unless the redacted event comes from the sender's own server (departure D12). kind=aliases: m.room.aliases
// needs only a create event of the same room, a server allowed by m.federate and a state key naming the sender's
// server (the sender itself in pseudo-ID rooms) - departure D4.
func vp_C07_default() {
	ver := RoomVersion(vpConfig("version"))
	kind := vpConfig("kind")
	createID := vpCreateID(ver)
	room := vpRoomIDFor(ver, createID)

	// --- auth events ---
	auth, _ := NewAuthEvents(nil)
	creator := vpChoice("creator", vpAlice, vpBob, vpCarol)
	federate := vpChoice("federate", "absent", "true", "false")
	var createContent []byte
	switch federate {
	case "absent":
		createContent = vpJObj("creator", creator, "room_version", string(ver))
	case "true":
		createContent = vpJObj("creator", creator, "room_version", string(ver), "m.federate", true)
	default:
		createContent = vpJObj("creator", creator, "room_version", string(ver), "m.federate", false)
	}
	hasCreate := vpNondetBool("has_create")
	createRoom := room
	if !vpIsV12(ver) && vpNondetBool("create_other_room") {
		createRoom = vpRoom2
	}
	if hasCreate {
		cr := room
		if !vpIsV12(ver) {
			cr = createRoom
		} else {
			cr = "" // v12 create events carry no room_id
		}
		_ = auth.AddEvent(vpMkEvent(ver, createID, cr, creator, spec.MRoomCreate, vpStrPtr(""), createContent))
	}

	sender := vpAlice // by symmetry: the creator ranges over same user / same server / other server
	evType := "m.room.name"
	switch kind {
	case "redaction":
		evType = spec.MRoomRedaction
	case "aliases":
		evType = spec.MRoomAliases
	}
	var stateKey *string
	switch vpChoice("state_key", "nil", "empty", "sender", "other-user", "plain", "sender-server", "at-sign-only", "at-without-colon", "at-prefix-of-sender") {
	case "at-sign-only": // the rule is about the first character, whatever follows
		stateKey = vpStrPtr("@")
	case "at-without-colon":
		stateKey = vpStrPtr("@bogus")
	case "at-prefix-of-sender":
		stateKey = vpStrPtr(sender[:2])
	case "sender-server":
		stateKey = vpStrPtr("x")
	case "empty":
		stateKey = vpStrPtr("")
	case "sender":
		stateKey = vpStrPtr(sender)
	case "other-user":
		if sender == vpAlice {
			stateKey = vpStrPtr(vpBob)
		} else {
			stateKey = vpStrPtr(vpAlice)
		}
	case "plain":
		stateKey = vpStrPtr("k")
	}

	hasPL := vpNondetBool("has_pl")
	senderLvl := vpNondetI64("pl.sender")
	usersDefault := vpNondetI64("pl.users_default")
	typeLvl := vpNondetI64("pl.type")
	eventsDefault := vpNondetI64("pl.events_default")
	stateDefault := vpNondetI64("pl.state_default")
	redactLvl := vpNondetI64("pl.redact")
	senderListed := vpNondetBool("pl.sender_listed")
	typeListed := vpNondetBool("pl.type_listed")
	if hasPL {
		users := vpJObj()
		if senderListed {
			users = vpJObj(sender, senderLvl)
		}
		events := vpJObj()
		if typeListed {
			events = vpJObj(evType, typeLvl)
		}
		pl := vpJObj("users", users, "users_default", usersDefault, "events", events, "events_default", eventsDefault, "state_default", stateDefault, "redact", redactLvl)
		_ = auth.AddEvent(vpMkEvent(ver, "$pl:x", room, creator, spec.MRoomPowerLevels, vpStrPtr(""), pl))
	}

	membership := vpChoice("membership", "none", spec.Join, spec.Invite, spec.Leave, spec.Ban, spec.Knock)
	if membership != "none" {
		_ = auth.AddEvent(vpMkEvent(ver, "$m:x", room, sender, spec.MRoomMember, vpStrPtr(sender), vpJObj("membership", membership)))
	}

	ev := vpMkEvent(ver, "$e:x", room, sender, evType, stateKey, vpJObj("body", "x"))
	redactsOwnServer := vpNondetBool("redacts_event_of_own_server")
	if kind == "redaction" {
		if redactsOwnServer {
			vpSetRedacts(ev, "$victim:x")
		} else {
			vpSetRedacts(ev, "$victim:elsewhere")
		}
	}
	err := Allowed(ev, auth, vpUserIDForSender)
	got := err == nil

	// --- oracle ---
	want := true
	if !hasCreate {
		want = false
	}
	if !vpIsV12(ver) && createRoom != room {
		want = false
	}
	senderDomain := sender[len(sender)-1]
	creatorDomain := creator[len(creator)-1]
	if federate == "false" && senderDomain != creatorDomain {
		want = false
	}
	if membership != spec.Join {
		want = false
	}
	// sender level
	var lvl int64
	switch {
	case vpIsV12(ver) && sender == creator:
		lvl = 1 << 53 // privileged creator: above every level a power_levels event can hold
	case !hasPL:
		if sender == creator {
			lvl = 1<<53 - 1 // D5
		} else {
			lvl = 0
		}
	case senderListed:
		lvl = senderLvl
	default:
		lvl = usersDefault
	}
	// required level
	var need int64
	switch {
	case hasPL && typeListed:
		need = typeLvl
	case stateKey != nil:
		if hasPL {
			need = stateDefault
		} else {
			need = 50
		}
	default:
		if hasPL {
			need = eventsDefault
		} else {
			need = 0
		}
	}
	if lvl < need {
		want = false
	}
	if stateKey != nil && len(*stateKey) > 0 && (*stateKey)[0] == '@' && *stateKey != sender {
		want = false
	}
	switch kind {
	case "redaction":
		n, _ := vpVerNum(ver)
		if n <= 2 && !redactsOwnServer {
			need := int64(50)
			if hasPL {
				need = redactLvl
			}
			if lvl < need {
				want = false
			}
		}
	case "aliases":
		// D4: only the create event (same room), m.federate and the state key matter
		want = hasCreate && (vpIsV12(ver) || createRoom == room) && !(federate == "false" && senderDomain != creatorDomain)
		if ver == RoomVersionPseudoIDs {
			want = want && stateKey != nil && *stateKey == sender
		} else {
			want = want && stateKey != nil && *stateKey == "x"
		}
	}
	vpAssert("default-event-verdict", got == want)
	vpReach("accepted", got)
	vpReach("rejected-level", !got && hasCreate && membership == spec.Join)
}
