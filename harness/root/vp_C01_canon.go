//go:build verif

package gomatrixserverlib

import "bytes"

// ---- reference canonicaliser (independent recursive descent; input assumed to be valid JSON, ASCII) ----

type vpCanon struct {
	in  []byte
	pos int
	ok  bool
	dup bool // duplicate member names seen
}

func (p *vpCanon) ws() {
	for p.pos < len(p.in) && (p.in[p.pos] == ' ' || p.in[p.pos] == '\t' || p.in[p.pos] == '\n' || p.in[p.pos] == '\r') {
		p.pos++
	}
}

func vpHexDigit(c byte) (int, bool) {
	switch {
	case c >= '0' && c <= '9':
		return int(c - '0'), true
	case c >= 'a' && c <= 'f':
		return int(c-'a') + 10, true
	case c >= 'A' && c <= 'F':
		return int(c-'A') + 10, true
	}
	return 0, false
}

// str parses a string literal at pos and returns its decoded bytes (code points < 0x80 only within the bound).
func (p *vpCanon) str() []byte {
	var out []byte
	p.pos++ // opening quote
	for p.pos < len(p.in) {
		c := p.in[p.pos]
		p.pos++
		switch {
		case c == '"':
			return out
		case c == '\\':
			if p.pos >= len(p.in) {
				p.ok = false
				return nil
			}
			e := p.in[p.pos]
			p.pos++
			switch e {
			case '"', '\\', '/':
				out = append(out, e)
			case 'b':
				out = append(out, '\b')
			case 'f':
				out = append(out, '\f')
			case 'n':
				out = append(out, '\n')
			case 'r':
				out = append(out, '\r')
			case 't':
				out = append(out, '\t')
			case 'u':
				if p.pos+4 > len(p.in) {
					p.ok = false
					return nil
				}
				v := 0
				for k := 0; k < 4; k++ {
					d, ok := vpHexDigit(p.in[p.pos+k])
					if !ok {
						p.ok = false
						return nil
					}
					v = v<<4 | d
				}
				p.pos += 4
				if v >= 0x80 {
					p.ok = false // outside the bound of this reference (non-ASCII code points)
					return nil
				}
				out = append(out, byte(v))
			default:
				p.ok = false
				return nil
			}
		case c < 0x20:
			p.ok = false // raw control characters are not allowed inside strings
			return nil
		default:
			out = append(out, c)
		}
	}
	p.ok = false
	return nil
}

func vpEncodeString(out []byte, s []byte) []byte {
	const hex = "0123456789abcdef"
	out = append(out, '"')
	for _, c := range s {
		switch {
		case c == '"' || c == '\\':
			out = append(out, '\\', c)
		case c == '\b':
			out = append(out, '\\', 'b')
		case c == '\t':
			out = append(out, '\\', 't')
		case c == '\n':
			out = append(out, '\\', 'n')
		case c == '\f':
			out = append(out, '\\', 'f')
		case c == '\r':
			out = append(out, '\\', 'r')
		case c < 0x20:
			out = append(out, '\\', 'u', '0', '0', hex[c>>4], hex[c&0xf])
		default:
			out = append(out, c)
		}
	}
	return append(out, '"')
}

// value returns the canonical bytes of the value at pos.
func (p *vpCanon) value(depth int) []byte {
	p.ws()
	if p.pos >= len(p.in) || depth > 4 {
		p.ok = false
		return nil
	}
	c := p.in[p.pos]
	switch {
	case c == '{':
		p.pos++
		var keys, vals [][]byte
		p.ws()
		if p.pos < len(p.in) && p.in[p.pos] == '}' {
			p.pos++
			return []byte("{}")
		}
		for p.ok {
			p.ws()
			if p.pos >= len(p.in) || p.in[p.pos] != '"' {
				p.ok = false
				return nil
			}
			k := p.str()
			p.ws()
			if !p.ok || p.pos >= len(p.in) || p.in[p.pos] != ':' {
				p.ok = false
				return nil
			}
			p.pos++
			v := p.value(depth + 1)
			if !p.ok {
				return nil
			}
			for _, k2 := range keys {
				if bytes.Equal(k2, k) {
					p.dup = true
				}
			}
			keys, vals = append(keys, k), append(vals, v)
			p.ws()
			if p.pos >= len(p.in) {
				p.ok = false
				return nil
			}
			d := p.in[p.pos]
			p.pos++
			if d == '}' {
				break
			}
			if d != ',' {
				p.ok = false
				return nil
			}
		}
		// insertion sort by key bytes
		for i := 1; i < len(keys); i++ {
			for j := i; j > 0 && bytes.Compare(keys[j-1], keys[j]) > 0; j-- {
				keys[j-1], keys[j] = keys[j], keys[j-1]
				vals[j-1], vals[j] = vals[j], vals[j-1]
			}
		}
		out := []byte{'{'}
		for i := range keys {
			if i > 0 {
				out = append(out, ',')
			}
			out = vpEncodeString(out, keys[i])
			out = append(out, ':')
			out = append(out, vals[i]...)
		}
		return append(out, '}')
	case c == '[':
		p.pos++
		out := []byte{'['}
		p.ws()
		if p.pos < len(p.in) && p.in[p.pos] == ']' {
			p.pos++
			return []byte("[]")
		}
		first := true
		for p.ok {
			v := p.value(depth + 1)
			if !p.ok {
				return nil
			}
			if !first {
				out = append(out, ',')
			}
			first = false
			out = append(out, v...)
			p.ws()
			if p.pos >= len(p.in) {
				p.ok = false
				return nil
			}
			d := p.in[p.pos]
			p.pos++
			if d == ']' {
				break
			}
			if d != ',' {
				p.ok = false
				return nil
			}
		}
		return append(out, ']')
	case c == '"':
		s := p.str()
		if !p.ok {
			return nil
		}
		return vpEncodeString(nil, s)
	case c == 't' || c == 'f' || c == 'n':
		for _, lit := range []string{"true", "false", "null"} {
			if p.pos+len(lit) <= len(p.in) && string(p.in[p.pos:p.pos+len(lit)]) == lit {
				p.pos += len(lit)
				return []byte(lit)
			}
		}
		p.ok = false
		return nil
	default:
		// number: -? (0 | [1-9][0-9]*) (. [0-9]+)? ([eE] [+-]? [0-9]+)?
		start := p.pos
		digits := func() int {
			n := 0
			for p.pos < len(p.in) && p.in[p.pos] >= '0' && p.in[p.pos] <= '9' {
				p.pos++
				n++
			}
			return n
		}
		if p.pos < len(p.in) && p.in[p.pos] == '-' {
			p.pos++
		}
		if p.pos < len(p.in) && p.in[p.pos] == '0' {
			p.pos++
		} else if digits() == 0 {
			p.ok = false
			return nil
		}
		if p.pos < len(p.in) && p.in[p.pos] == '.' {
			p.pos++
			if digits() == 0 {
				p.ok = false
				return nil
			}
		}
		if p.pos < len(p.in) && (p.in[p.pos] == 'e' || p.in[p.pos] == 'E') {
			p.pos++
			if p.pos < len(p.in) && (p.in[p.pos] == '+' || p.in[p.pos] == '-') {
				p.pos++
			}
			if digits() == 0 {
				p.ok = false
				return nil
			}
		}
		tok := p.in[start:p.pos]
		if len(tok) == 2 && tok[0] == '-' && tok[1] == '0' {
			return []byte("0")
		}
		return append([]byte{}, tok...)
	}
}

// vpRefCanonical returns the canonical form, whether the reference could handle the input, and whether duplicate
// member names occur.
func vpRefCanonical(in []byte) (out []byte, ok bool, dup bool) {
	p := &vpCanon{in: in, ok: true}
	out = p.value(0)
	p.ws()
	if p.pos != len(in) {
		p.ok = false
	}
	return out, p.ok, p.dup
}

// vp:check C01 quick configs=len:1|2|3|4 K=40 timeout=900
// vp:check C01 thorough configs=len:1|2|3|4|5|6 K=60 timeout=3000
// vp_C01_canon: for every ASCII text of the configured length that gjson accepts (no duplicate member names),
// CanonicalJSON returns the canonical form computed by the independent reference, which is valid JSON and a fixed point;
// every other text is rejected with an error; nothing panics.
func vp_C01_canon() {
	n := vpConfigInt("len")
	in := vpNondetBytes("in", n)
	for i := 0; i < n; i++ {
		vpAssume(in[i] < 0x80)
	}
	inCopy := append([]byte{}, in...)
	out, err := CanonicalJSON(in)
	ref, refOK, dup := vpRefCanonical(inCopy)
	if err != nil {
		// rejected: the reference must not consider it valid JSON it can canonicalise... (dependency conformance of
		// gjson.Valid is reported, not claimed): only check that valid-by-reference texts are not rejected
		vpAssert("valid-text-not-rejected", !refOK)
		vpReach("rejected", true)
		return
	}
	vpAssume(refOK && !dup)
	// (fixed: KF-C01-1 - CompactJSON dropped every '-' followed by '0', not only the token "-0")
	vpAssert("equals-reference", bytes.Equal(out, ref))
	out2, err2 := CanonicalJSON(append([]byte{}, out...))
	vpAssert("idempotent", err2 == nil && bytes.Equal(out2, out))
	vpReach("accepted", true)
	vpReach("object", len(out) > 0 && out[0] == '{')
}
