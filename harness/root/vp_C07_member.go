//go:build verif

package gomatrixserverlib

import (
	"encoding/json"

	"github.com/matrix-org/gomatrixserverlib/spec"
	"golang.org/x/crypto/ed25519"
)

// vpVerNum maps a room version to the number of the stable version whose membership rules it has, plus whether
// knock_restricted is defined for it.
func vpVerNum(ver RoomVersion) (n int, knockRestricted bool) {
	switch ver {
	case "1":
		return 1, false
	case "2":
		return 2, false
	case "3":
		return 3, false
	case "4":
		return 4, false
	case "5":
		return 5, false
	case "6":
		return 6, false
	case "7", "org.matrix.msc3667":
		return 7, false
	case "8":
		return 8, false
	case "9":
		return 9, false
	case "org.matrix.msc3787":
		return 9, true
	case "10", "org.matrix.msc4014":
		return 10, true
	case "11":
		return 11, true
	case "12", "org.matrix.hydra.11":
		return 12, true
	}
	return 0, false
}

type vpMemberCase struct {
	ver           RoomVersion
	newMembership string
	selfTarget    bool   // state_key == sender
	creator       string // sender of the create event
	federateFalse bool
	joinRule      string // "" = no join_rules event
	oldMembership string // target's current membership, "" = no member event
	senderMember  string // sender's current membership (== oldMembership when selfTarget)
	prevIsCreate  bool   // the event's only prev event is the create event
	hasPL         bool
	senderLvl     int64
	targetLvl     int64
	viaLvl        int64
	banLvl        int64
	kickLvl       int64
	inviteLvl     int64
	via           string // join_authorised_via_users_server ("" = absent)
	viaMember     string // membership of that user ("" = no member event)
	// invite carrying a third_party_invite block ("" = none): "valid" (signed by the identity server whose key the
	// pending-invite event lists), "forged" (signed by somebody else), "wrong-mxid" (names another user),
	// "no-pending-invite" (no m.room.third_party_invite event for the token), "other-inviter" (the pending invite was
	// issued by another user than the sender of this event)
	tpi string
}

// vpSpecMember: the authorisation rules for m.room.member (Matrix spec, room versions 1-12) with the departures of
// DESIGN.md section 7.1 applied. sender = Alice; target = Alice or Bob; via = Carol.
func vpSpecMember(c vpMemberCase) bool {
	w, _ := vpSpecMember2(c)
	return w
}

// vpSpecMember2 additionally reports whether the case lies in a documented-departure region where the specification
// text and the library's documented behaviour differ (either verdict is then accepted, DESIGN.md section 7).
func vpSpecMember2(c vpMemberCase) (want bool, either bool) {
	n, knockRestrictedDefined := vpVerNum(c.ver)
	if c.newMembership == spec.Join && c.selfTarget && !(c.prevIsCreate && c.creator == vpAlice) {
		jr := c.joinRule
		known := jr == "" || jr == spec.Invite || jr == spec.Public || (jr == spec.Knock && n >= 7) ||
			(jr == spec.Restricted && n >= 8) || (jr == spec.KnockRestricted && knockRestrictedDefined && n >= 8)
		if !known && (c.oldMembership == spec.Invite || c.oldMembership == spec.Join) {
			either = true // D9: spec rejects under an unrecognised join rule; the library lets invited/joined users (re)join
		}
	}
	return vpSpecMemberStrict(c), either
}

func vpSpecMemberStrict(c vpMemberCase) bool {
	n, knockRestrictedDefined := vpVerNum(c.ver)
	sender, target := vpAlice, vpBob
	if c.selfTarget {
		target = vpAlice
	}
	// m.federate
	if c.federateFalse && sender[len(sender)-1] != c.creator[len(c.creator)-1] {
		return false
	}
	// an invite that carries a third_party_invite block is decided by that block alone (for every other membership the
	// rules do not look at such a block)
	if c.tpi != "" && c.newMembership == spec.Invite {
		if c.oldMembership == spec.Ban {
			return false // a banned user cannot be invited, third-party or not
		}
		return c.tpi == "valid"
	}
	// effective levels
	creatorPrivileged := n >= 12
	level := func(user string, listed int64) int64 {
		if creatorPrivileged && user == c.creator {
			return 1 << 53
		}
		if !c.hasPL {
			if user == c.creator {
				return 1<<53 - 1 // D5
			}
			return 0
		}
		return listed
	}
	sl, tl, vl := level(sender, c.senderLvl), level(target, c.targetLvl), level(vpCarol, c.viaLvl)
	ban, kick, invite := int64(50), int64(50), int64(0)
	if c.hasPL {
		ban, kick, invite = c.banLvl, c.kickLvl, c.inviteLvl
	}
	old := c.oldMembership
	if old == "" {
		old = spec.Leave // D14
	}
	senderMem := c.senderMember
	if senderMem == "" {
		senderMem = spec.Leave
	}
	jr := c.joinRule
	if jr == "" {
		jr = spec.Invite // D14
	}
	hasKnock := n >= 7
	hasRestricted := n >= 8

	switch c.newMembership {
	case spec.Join:
		// 4.3.1 creator's first join (D6: creator = sender of the create event)
		if c.selfTarget && c.prevIsCreate && target == c.creator {
			return true
		}
		if !c.selfTarget {
			return false
		}
		if old == spec.Ban {
			return false
		}
		restrictedRule := jr == spec.Restricted || (jr == spec.KnockRestricted && knockRestrictedDefined)
		if restrictedRule && hasRestricted {
			if old == spec.Join || old == spec.Invite {
				return true
			}
			if c.via == "" {
				// D11: treated as join rule invite
				return false
			}
			// the authorising user must be joined and able to invite
			if c.viaMember != spec.Join {
				return false
			}
			return vl >= invite
		}
		if old == spec.Invite || old == spec.Join { // D9
			return true
		}
		return jr == spec.Public
	case spec.Invite:
		if c.selfTarget {
			return false
		}
		if senderMem != spec.Join {
			return false
		}
		if old == spec.Join || old == spec.Ban {
			return false
		}
		return sl >= invite
	case spec.Leave:
		if c.selfTarget {
			if old == spec.Leave {
				return true // D1
			}
			return old == spec.Invite || old == spec.Join || old == spec.Knock
		}
		if senderMem != spec.Join {
			return false
		}
		if old == spec.Ban {
			return sl >= ban // D8
		}
		return sl >= kick && tl < sl
	case spec.Ban:
		if c.selfTarget {
			return false
		}
		if senderMem != spec.Join {
			return false
		}
		return sl >= ban && tl < sl
	case spec.Knock:
		if !hasKnock {
			return false
		}
		if !c.selfTarget {
			return false
		}
		if !(jr == spec.Knock || jr == spec.KnockRestricted) { // D10
			return false
		}
		return old != spec.Ban && old != spec.Join && old != spec.Invite
	}
	return false
}

// vp:check C07 quick configs=version:1|6|7|9|10|12|org.matrix.msc3787;membership:join|invite|leave|ban|knock|bogus K=12 timeout=900
// vp:check C07 thorough configs=version:ALLVERSIONS;membership:join|invite|leave|ban|knock|bogus K=12 timeout=1800
// vp_C07_member: Allowed on m.room.member events equals the specification's membership rules, for every combination
// of (self/other target, creator identity, federate flag, join rule, previous memberships, power relations, first-join,
// restricted-join authoriser state).
func vp_C07_member() {
	c := vpMemberCase{ver: RoomVersion(vpConfig("version")), newMembership: vpConfig("membership")}
	ver := c.ver
	createID := vpCreateID(ver)
	room := vpRoomIDFor(ver, createID)
	c.selfTarget = vpNondetBool("self_target")
	if c.newMembership == spec.Join || c.newMembership == spec.Knock {
		// setting somebody else's membership to join/knock is refused outright; explore it only in one shape
		if !c.selfTarget {
			vpAssume(!vpNondetBool("other_shapes"))
		}
	}
	c.creator = vpChoice("creator", vpAlice, vpBob, vpCarol)
	c.federateFalse = vpNondetBool("federate_false")
	c.joinRule = vpChoice("join_rule", "", spec.Public, spec.Invite, spec.Knock, spec.Restricted, spec.KnockRestricted, "weird")
	c.oldMembership = vpChoice("old", "", spec.Join, spec.Invite, spec.Leave, spec.Ban, spec.Knock)
	if c.selfTarget {
		c.senderMember = c.oldMembership
	} else {
		c.senderMember = vpChoice("sender_member", "", spec.Join, spec.Invite, spec.Ban)
	}
	if c.newMembership == spec.Join && c.selfTarget {
		c.prevIsCreate = vpNondetBool("prev_is_create")
		if vpNondetBool("has_via") {
			c.via = vpCarol
			c.viaMember = vpChoice("via_member", "", spec.Join, spec.Leave)
		}
	}
	if c.newMembership == spec.Invite && !c.selfTarget {
		c.tpi = vpChoice("third_party_invite", "", "valid", "forged", "wrong-mxid", "no-pending-invite", "other-inviter")
	}
	if c.newMembership == spec.Join && c.selfTarget {
		// a join whose content carries a (left-over) third_party_invite block: irrelevant to the join rules
		c.tpi = vpChoice("third_party_invite_on_join", "", "valid", "no-pending-invite")
	}
	c.hasPL = vpNondetBool("has_pl")
	c.senderLvl, c.targetLvl, c.viaLvl = vpNondetI64("lvl.sender"), vpNondetI64("lvl.target"), vpNondetI64("lvl.via")
	c.banLvl, c.kickLvl, c.inviteLvl = vpNondetI64("lvl.ban"), vpNondetI64("lvl.kick"), vpNondetI64("lvl.invite")
	if c.selfTarget {
		c.targetLvl = c.senderLvl
	}

	sender, target := vpAlice, vpBob
	if c.selfTarget {
		target = vpAlice
	}
	auth, _ := NewAuthEvents(nil)
	createContent := vpJObj("creator", c.creator, "room_version", string(ver))
	if c.federateFalse {
		createContent = vpJObj("creator", c.creator, "room_version", string(ver), "m.federate", false)
	}
	createRoom := room
	if vpIsV12(ver) {
		createRoom = ""
	}
	_ = auth.AddEvent(vpMkEvent(ver, createID, createRoom, c.creator, spec.MRoomCreate, vpStrPtr(""), createContent))
	if c.joinRule != "" {
		_ = auth.AddEvent(vpMkEvent(ver, "$jr:x", room, c.creator, spec.MRoomJoinRules, vpStrPtr(""), vpJObj("join_rule", c.joinRule)))
	}
	if c.hasPL {
		users := vpJObj(vpAlice, c.senderLvl, vpBob, c.targetLvl, vpCarol, c.viaLvl)
		if c.selfTarget {
			users = vpJObj(vpAlice, c.senderLvl, vpCarol, c.viaLvl)
		}
		pl := vpJObj("users", users, "ban", c.banLvl, "kick", c.kickLvl, "invite", c.inviteLvl)
		_ = auth.AddEvent(vpMkEvent(ver, "$pl:x", room, c.creator, spec.MRoomPowerLevels, vpStrPtr(""), pl))
	}
	if c.oldMembership != "" {
		_ = auth.AddEvent(vpMkEvent(ver, "$mt:x", room, target, spec.MRoomMember, vpStrPtr(target), vpJObj("membership", c.oldMembership)))
	}
	if !c.selfTarget && c.senderMember != "" {
		_ = auth.AddEvent(vpMkEvent(ver, "$ms:x", room, sender, spec.MRoomMember, vpStrPtr(sender), vpJObj("membership", c.senderMember)))
	}
	if c.via != "" && c.viaMember != "" {
		_ = auth.AddEvent(vpMkEvent(ver, "$mv:y", room, vpCarol, spec.MRoomMember, vpStrPtr(vpCarol), vpJObj("membership", c.viaMember)))
	}
	content := vpJObj("membership", c.newMembership)
	if c.tpi != "" {
		idPub, idPriv := vpKey("identity-server")
		_, impostor := vpKey("impostor")
		signer := ed25519.PrivateKey(idPriv)
		if c.tpi == "forged" {
			signer = ed25519.PrivateKey(impostor)
		}
		mxid := target
		if c.tpi == "wrong-mxid" {
			mxid = vpCarol
		}
		signed, serr := SignJSON("id.example", "ed25519:0", signer, vpJObj("mxid", mxid, "token", "tok"))
		vpAssume(serr == nil)
		content = vpJObj("membership", c.newMembership, "third_party_invite", vpJObj("display_name", "d", "signed", signed))
		if c.tpi != "no-pending-invite" {
			issuer := sender
			if c.tpi == "other-inviter" {
				issuer = vpCarol
			}
			k := spec.Base64Bytes(idPub).Encode()
			_ = auth.AddEvent(vpMkEvent(ver, "$tpi:x", room, issuer, spec.MRoomThirdPartyInvite, vpStrPtr("tok"),
				vpJObj("display_name", "d", "public_keys", vpJArr(vpJObj("public_key", k)))))
		}
	}
	if c.via != "" {
		content = vpJObj("membership", c.newMembership, "join_authorised_via_users_server", c.via)
	}
	// a further content key of an unexpected JSON type (clients put anything there); the rules do not look at it
	if vpNondetBool("odd_displayname") {
		var cm map[string]spec.RawJSON
		vpAssume(json.Unmarshal(content, &cm) == nil)
		cm["displayname"] = vpJVal(int64(42))
		var merr error
		content, merr = json.Marshal(cm)
		vpAssume(merr == nil)
	}
	ev := vpMkEvent(ver, "$e:x", room, sender, spec.MRoomMember, vpStrPtr(target), content)
	prev := "$other:x"
	if c.prevIsCreate {
		prev = createID
	}
	switch e := ev.(type) {
	case *eventV1:
		e.PrevEvents = []eventReference{{EventID: prev}}
	case *eventV2:
		e.PrevEvents = []string{prev}
	case *eventV3:
		e.PrevEvents = []string{prev}
	}
	// (fixed: KF-C18-1 - org.matrix.msc3787 had no checkRestrictedJoinAllowedFunc and panicked here)
	err := Allowed(ev, auth, vpUserIDForSender)
	got := err == nil
	want, either := vpSpecMember2(c)
	nver, _ := vpVerNum(ver)
	// KF-C07-2: stable versions 8 and 9 do not define knock_restricted, yet a join under it is treated as a restricted join
	kf2 := c.newMembership == spec.Join && c.selfTarget && c.joinRule == spec.KnockRestricted && (nver == 8 || nver == 9) && ver != "org.matrix.msc3787"
	// (fixed: KF-C07-1 - a user whose current membership is knock joining a public room was refused)
	vpAssertKF("member-verdict", got == want || either, "KF-C07-2", kf2)
	vpReach("accepted", got)
	vpReach("rejected", !got)
}
