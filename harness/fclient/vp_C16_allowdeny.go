//go:build verif

package fclient

import (
	"context"
	"net"
)

// vpParseCIDR4: reference parser for the catalogue entries "a.b.c.d/n" (decimal, n <= 32); ok=false otherwise.
func vpParseCIDR4(s string) (base [4]byte, bits int, ok bool) {
	part, idx, val, digits := 0, 0, 0, 0
	for idx < len(s) {
		c := s[idx]
		switch {
		case c >= '0' && c <= '9':
			val = val*10 + int(c-'0')
			digits++
			if val > 255 {
				return base, 0, false
			}
		case c == '.' && part < 3 && digits > 0:
			base[part] = byte(val)
			part, val, digits = part+1, 0, 0
		case c == '/' && part == 3 && digits > 0:
			base[3] = byte(val)
			n, nd := 0, 0
			for j := idx + 1; j < len(s); j++ {
				if s[j] < '0' || s[j] > '9' {
					return base, 0, false
				}
				n = n*10 + int(s[j]-'0')
				nd++
			}
			if nd == 0 || n > 32 {
				return base, 0, false
			}
			return base, n, true
		default:
			return base, 0, false
		}
		idx++
	}
	return base, 0, false
}

func vpInCIDR4(ip [4]byte, base [4]byte, bits int) bool {
	x := uint32(ip[0])<<24 | uint32(ip[1])<<16 | uint32(ip[2])<<8 | uint32(ip[3])
	b := uint32(base[0])<<24 | uint32(base[1])<<16 | uint32(base[2])<<8 | uint32(base[3])
	if bits == 0 {
		return true
	}
	mask := ^uint32(0) << uint(32-bits)
	return x&mask == b&mask
}

// vpInAny: ip lies in some parsable range of the list; firstBad: an unparsable entry precedes a parsable one that
// contains ip (the region of KF-C16-1).
func vpInAny(ip [4]byte, list []string) (in bool, shadowed bool) {
	sawBad := false
	for _, c := range list {
		base, bits, ok := vpParseCIDR4(c)
		if !ok {
			sawBad = true
			continue
		}
		if vpInCIDR4(ip, base, bits) {
			in = true
			if sawBad {
				shadowed = true
			}
		}
	}
	return
}

func vpCIDRList(name string, catalogue ...string) []string {
	var l []string
	for i := 0; i < 2; i++ {
		e := vpChoice(name+string(rune('0'+i)), catalogue...)
		if e != "" {
			l = append(l, e)
		}
	}
	return l
}

// vp:check C16 both K=40 timeout=900
// vp_C16_allowdeny: with allow / deny lists configured, an IPv4 address is let through exactly when it lies in no
// parsable denied range and in at least one parsable allowed range; only tcp4/tcp6 are dialled. The address is fully
// symbolic; list entries range over a catalogue including unparsable ones.
func vp_C16_allowdeny() {
	deny := vpCIDRList("deny", "", "garbage", "10.0.0.0/8", "192.168.1.0/24")
	allow := vpCIDRList("allow", "", "300.1.1.1/8", "0.0.0.0/0", "10.0.0.0/8")
	var ip4 [4]byte
	b := vpNondetBytes("ip", 4)
	copy(ip4[:], b)
	ip := net.IPv4(b[0], b[1], b[2], b[3])
	got := isAllowed(ip, allow, deny)
	denied, dShadow := vpInAny(ip4, deny)
	allowed, aShadow := vpInAny(ip4, allow)
	want := !denied && allowed
	// (fixed: KF-C16-1 - inRange gave up at the first unparsable entry, so later ranges of that list were ignored)
	_, _ = dShadow, aShadow
	vpAssert("allow-deny", got == want)
	vpReach("let-through", got)
	vpReach("blocked-by-deny", !got && denied)
	vpReach("not-in-allow", !got && !denied && !allowed)
}

// vp:check C16 both K=40 timeout=900
// vp_C16_control: the dialer control function refuses every network other than tcp4/tcp6 and every address that is not
// ip:port, and otherwise applies the allow/deny decision.
func vp_C16_control() {
	ctl := allowDenyNetworksControl([]string{"0.0.0.0/0"}, []string{"10.0.0.0/8"})
	network := vpChoice("network", "tcp4", "tcp6", "tcp", "udp4", "unix")
	addr := vpChoice("addr", "10.1.2.3:8448", "11.1.2.3:8448", "example.org:8448", "11.1.2.3", "[::1]:8448")
	err := ctl(context.Background(), network, addr, nil)
	want := (network == "tcp4" || network == "tcp6") && addr == "11.1.2.3:8448"
	vpAssert("control", (err == nil) == want)
	vpReach("connect", err == nil)
}
