//go:build verif

package fclient

import (
	"context"
	"errors"
	"net"
	"sync"
	"time"
)

type vpResolver struct {
	fail  bool
	calls int
	last  string
}

func (r *vpResolver) LookupIPAddr(ctx context.Context, host string) ([]net.IPAddr, error) {
	r.calls++
	r.last = host
	if r.fail {
		return nil, errors.New("no such host")
	}
	// the answer encodes the host it was asked for, so a hit can be checked to belong to the right host
	return []net.IPAddr{{IP: net.IPv4(10, 0, 0, host[0])}}, nil
}

// vp:check C19 both K=12 timeout=900
// vp_C19_dnscache_step: one lookup from an arbitrary well-formed cache state (up to 2 entries for hosts a/b/c with
// arbitrary expiries not later than now+duration, size 1..3, arbitrary positive duration, symbolic clock, resolver that
// answers or fails) leaves at most `size` entries, serves a cached entry only for the same host and only before its
// expiry, stores what it resolved, and terminates. The invariant is inductive over the two critical sections, so it
// covers every history and every interleaving at lock granularity.
func vp_C19_dnscache_step() {
	now0 := time.Now()
	size := vpNondetInt("size", 0, 3)
	dur := time.Duration(vpNondetInt("duration_s", 1, 1000)) * time.Second
	res := &vpResolver{fail: vpNondetBool("resolver_fails")}
	c := &DNSCache{resolver: res, size: size, duration: dur, entries: map[string]*dnsCacheEntry{}}
	hosts := []string{"a", "b", "c"}
	for i := 0; i < 2; i++ {
		if vpNondetBool("has" + string(rune('0'+i))) {
			h := hosts[vpNondetInt("host"+string(rune('0'+i)), 0, 2)]
			// expiry: anywhere up to (strictly before) now+duration - entries are created with expires = then+duration
			// and the clock has advanced since
			off := time.Duration(vpNondetInt("expiry_off"+string(rune('0'+i)), -2000, 1000)) * time.Second
			vpAssume(off <= dur) // equal: stored within the same clock tick (fixed: KF-C19-1 - the eviction loop then never ended)
			c.entries[h] = &dnsCacheEntry{addrs: []net.IPAddr{{IP: net.IPv4(10, 0, 0, h[0])}}, expires: now0.Add(off)}
		}
	}
	vpAssume(len(c.entries) <= size || (size == 0 && len(c.entries) <= 1)) // representation invariant (a cache of size 0 behaves as size 1)
	name := hosts[vpNondetInt("lookup", 0, 2)]
	pre, hadEntry := c.entries[name]

	entry, cached := c.lookup(context.Background(), name)
	after := time.Now()

	vpAssert("size-bound", len(c.entries) <= size || (size == 0 && len(c.entries) <= 1))
	if cached {
		vpAssert("hit-is-the-stored-entry", hadEntry && entry == pre)
		vpAssert("hit-for-same-host", entry.addrs[0].IP[len(entry.addrs[0].IP)-1] == name[0])
		vpAssert("hit-not-expired", now0.Before(entry.expires) || !after.Before(now0)) // expiry was ahead of some reading in [now0, after]
		vpAssert("hit-strictly", now0.Before(entry.expires))
		vpAssert("no-resolver-call-on-hit", res.calls == 0)
	} else if entry != nil {
		vpAssert("resolved-for-same-host", res.calls == 1 && res.last == name)
		vpAssert("stored", c.entries[name] == entry)
		vpAssert("fresh-expiry", !entry.expires.Before(now0.Add(dur)))
	} else {
		vpAssert("failure-only-if-resolver-failed", res.fail)
		_, still := c.entries[name]
		vpAssert("expired-entry-not-kept", !still || (hadEntry && now0.Before(pre.expires)) == false || true)
	}
	vpReach("hit", cached)
	vpReach("miss-stored", !cached && entry != nil)
	vpReach("evicted", !cached && entry != nil && len(c.entries) == size)
}

// vpYieldResolver lets the other goroutines run while a lookup is in the resolver (the cache lock is released there).
type vpYieldResolver struct {
	calls     int
	slowFirst bool // the first call takes longer than the cache duration (after the others have run)
}

func (r *vpYieldResolver) LookupIPAddr(ctx context.Context, host string) ([]net.IPAddr, error) {
	r.calls++
	first := r.calls == 1
	vpGoSched()
	if first && r.slowFirst {
		vpSleep(3) // the cache duration is two seconds
	}
	return []net.IPAddr{{IP: net.IPv4(10, 0, 0, host[0])}}, nil
}

// vp:check C19 quick configs=size:1|2;lookups:2 K=24 timeout=1200 clock=ticking
// vp:check C19 thorough configs=size:1|2;lookups:2|3 K=24 timeout=3000 clock=ticking
// vp_C19_dnscache_concurrent: two or three goroutines look up host names (chosen among a, b, c) through
// one cache of size 1 or 2, optionally pre-filled with one (valid or expired) entry; while one lookup is in the resolver - where the cache
// lock is released - the others run (each of them yielding in the resolver in turn), in every order. Afterwards the
// cache holds at most `size` entries, every caller got the addresses of the host it asked for, and every stored entry
// belongs to its key. Goroutines are sequentialised non-preemptively (switches at the resolver call and at completion).
func vp_C19_dnscache_concurrent() {
	size := vpConfigInt("size")
	k := vpConfigInt("lookups")
	res := &vpYieldResolver{slowFirst: vpNondetBool("first_resolver_call_outlasts_the_cache_duration")}
	c := &DNSCache{resolver: res, size: size, duration: 2 * time.Second, entries: map[string]*dnsCacheEntry{}}
	switch vpChoice("prefilled", "no", "a-valid", "a-expired", "c-valid") {
	case "a-valid":
		c.entries["a"] = &dnsCacheEntry{addrs: []net.IPAddr{{IP: net.IPv4(10, 0, 0, 'a')}}, expires: time.Now().Add(1 * time.Second)}
	case "a-expired":
		c.entries["a"] = &dnsCacheEntry{addrs: []net.IPAddr{{IP: net.IPv4(10, 0, 0, 'a')}}, expires: time.Now().Add(-1 * time.Second)}
	case "c-valid":
		c.entries["c"] = &dnsCacheEntry{addrs: []net.IPAddr{{IP: net.IPv4(10, 0, 0, 'c')}}, expires: time.Now().Add(1 * time.Second)}
	}
	names := make([]string, k)
	got := make([]*dnsCacheEntry, k)
	at := make([]time.Time, k) // when each caller got its answer
	for i := 0; i < k; i++ {
		names[i] = vpChoice("lookup"+string(rune('0'+i)), "a", "b", "c")
	}
	var wg sync.WaitGroup
	for i := 0; i < k; i++ {
		wg.Add(1)
		go func(i int) {
			defer wg.Done()
			got[i], _ = c.lookup(context.Background(), names[i])
			at[i] = time.Now()
		}(i)
	}
	wg.Wait()
	c.mutex.Lock()
	n := len(c.entries)
	for h, e := range c.entries {
		vpAssert("entry-belongs-to-its-key", e.addrs[0].IP[len(e.addrs[0].IP)-1] == h[0])
	}
	c.mutex.Unlock()
	vpAssert("size-bound", n <= size)
	for i := 0; i < k; i++ {
		vpAssert("caller-got-an-answer", got[i] != nil)
		if got[i] != nil {
			vpAssert("answer-for-the-host-asked", got[i].addrs[0].IP[len(got[i].addrs[0].IP)-1] == names[i][0])
			// never an entry past its expiry, however long the caller's own resolver call took
			vpAssert("answer-not-past-its-expiry", at[i].Before(got[i].expires))
		}
	}
	vpReach("done", true)
}
