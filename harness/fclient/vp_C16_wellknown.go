//go:build verif

package fclient

import (
	"bytes"
	"context"
	"errors"
	"io"
	"net/http"
	"time"
)

// vpWellKnownRT: scripted transport answering the one well-known request.
type vpWellKnownRT struct {
	status int
	header http.Header
	body   []byte
	fail   bool
	asked  string
}

func (rt *vpWellKnownRT) RoundTrip(req *http.Request) (*http.Response, error) {
	rt.asked = req.URL.String()
	if rt.fail {
		return nil, errors.New("connection refused")
	}
	return &http.Response{StatusCode: rt.status, Header: rt.header, Body: io.NopCloser(bytes.NewReader(rt.body)), Request: req}, nil
}

// vp:check C16 both K=40 timeout=900
// vp_C16_wellknown: LookupWellKnown honours a reply only if it has status 200, does not announce more than 50 KiB and
// names an m.server; the cache lifetime comes from max-age (any integer, also 0 and negative values) in preference to
// Expires, from Expires when there is no usable max-age, and is 0 otherwise. Scripted transport; symbolic clock.
func vp_C16_wellknown() {
	rt := &vpWellKnownRT{header: http.Header{}}
	rt.fail = vpNondetBool("transport_fails")
	rt.status = vpNondetInt("status", 100, 599) // any status code; only 200 counts
	bodyKind := vpChoice("body", "delegates", "delegates-with-port", "delegates-and-names-a-lifetime", "no-m.server", "empty-m.server", "not-json", "oversized", "exactly-50KiB")
	switch bodyKind {
	case "delegates":
		rt.body = []byte(`{"m.server":"matrix.example.org"}`)
	case "delegates-with-port":
		rt.body = []byte(`{"m.server":"matrix.example.org:8449","other":1}`)
	case "delegates-and-names-a-lifetime":
		// the body is the remote server's: it must not be able to set the cache lifetime the caller computes
		rt.body = []byte(`{"m.server":"matrix.example.org","CacheExpiresAt":12345,"cacheexpiresat":67890}`)
	case "no-m.server":
		rt.body = []byte(`{"server":"matrix.example.org"}`)
	case "empty-m.server":
		rt.body = []byte(`{"m.server":""}`)
	case "oversized", "exactly-50KiB":
		// a well-formed delegation padded with white space to exactly 50 KiB, resp. more: the size limit
		// must hold whether or not the reply announces its length
		// (the oversized one continues after 50 KiB, so that its first 50 KiB are a complete document)
		b := make([]byte, 51200)
		for i := range b {
			b[i] = ' '
		}
		copy(b, `{"m.server":"matrix.example.org"`)
		b[51199] = '}'
		if bodyKind == "oversized" {
			b = append(b, []byte("   and a lot more")...)
		}
		rt.body = b
	default:
		rt.body = []byte(`<html>`)
	}
	cl := vpChoice("content_length", "absent", "exact", "51200", "51201", "garbage")
	switch cl {
	case "exact":
		rt.header.Set("Content-Length", "33")
	case "51200", "51201":
		rt.header.Set("Content-Length", cl)
	case "garbage":
		rt.header.Set("Content-Length", "many")
	}
	expires := vpChoice("expires", "absent", "valid", "invalid")
	const expiresUnix = 4102444800 // Fri, 01 Jan 2100 00:00:00 GMT
	switch expires {
	case "valid":
		rt.header.Set("Expires", "Fri, 01 Jan 2100 00:00:00 GMT")
	case "invalid":
		rt.header.Set("Expires", "tomorrow")
	}
	maxAge := vpChoice("max_age", "absent", "0", "-5", "3600", "junk", "other-directives-first")
	age, hasAge := int64(0), false
	switch maxAge {
	case "0":
		rt.header.Set("Cache-Control", "max-age=0")
		age, hasAge = 0, true
	case "-5":
		rt.header.Set("Cache-Control", "public, max-age=-5")
		age, hasAge = -5, true
	case "3600":
		rt.header.Set("Cache-Control", "Max-Age=3600")
		age, hasAge = 3600, true
	case "junk":
		rt.header.Set("Cache-Control", "max-age=soon")
	case "other-directives-first":
		rt.header.Set("Cache-Control", "no-transform, s-maxage=7 , max-age=60")
		age, hasAge = 60, true
	}
	old := http.DefaultTransport
	http.DefaultTransport = rt
	before := time.Now().Unix()
	res, err := LookupWellKnown(context.Background(), "example.org")
	after := time.Now().Unix()
	http.DefaultTransport = old

	vpAssert("asked-the-well-known-url", rt.asked == "https://example.org/.well-known/matrix/server")
	honoured := !rt.fail && rt.status == 200 && cl != "51201" && (bodyKind == "delegates" || bodyKind == "delegates-with-port" || bodyKind == "delegates-and-names-a-lifetime" || bodyKind == "exactly-50KiB")
	vpAssert("honoured-iff-valid", (err == nil) == honoured)
	if err == nil {
		wantAddr := "matrix.example.org"
		if bodyKind == "delegates-with-port" {
			wantAddr = "matrix.example.org:8449"
		}
		vpAssert("delegated-name", string(res.NewAddress) == wantAddr)
		switch {
		case hasAge:
			vpAssert("lifetime-from-max-age", res.CacheExpiresAt >= before+age && res.CacheExpiresAt <= after+age)
		case expires == "valid":
			vpAssert("lifetime-from-expires", res.CacheExpiresAt == expiresUnix)
		default:
			vpAssert("no-lifetime", res.CacheExpiresAt == 0)
		}
	} else {
		vpAssert("no-result-on-refusal", res == nil)
	}
	vpReach("honoured", err == nil)
	vpReach("refused", err != nil)
}
