//go:build verif

package fclient

import (
	"time"

	"github.com/matrix-org/gomatrixserverlib/spec"
	"golang.org/x/crypto/ed25519"
)

// vp:check C13 both spelling=1 K=24 timeout=600
// vp_C13_spelling: a PUT request whose body (a string value, a member name, or a raw JSON body given in its unescaped
// spelling) holds a character encoding/json.Marshal spells differently from canonical JSON ('<', '>', '&', U+2028,
// U+2029) is accepted at its destination after Sign / HTTPRequest / VerifyHTTPRequest, and reports the signed content:
// signer and verifier take the signature over the same spelling. spelling=1 as in vp_C03_spelling (DESIGN.md 12.1
// round 7).
func vp_C13_spelling() {
	pubB, privB := vpKey("origin-key")
	origin, dest := spec.ServerName("origin.example"), spec.ServerName("dest.example")
	special := vpChoice("special", "<", ">", "&", " ", " ", "plain")
	fr := NewFederationRequest("PUT", origin, dest, "/_matrix/federation/v1/send/1?a=%3C")
	switch vpChoice("where", "value", "name", "raw") {
	case "value":
		vpAssume(fr.SetContent(map[string]string{"k": "x" + special + "y"}) == nil)
	case "name":
		vpAssume(fr.SetContent(map[string]string{"k" + special: "x"}) == nil)
	case "raw":
		vpAssume(fr.SetContent(spec.RawJSON([]byte("{\"k\":\"x"+special+"\"}"))) == nil)
	}
	vpAssume(fr.Sign(origin, "ed25519:k1", ed25519.PrivateKey(privB)) == nil)
	req, err := fr.HTTPRequest()
	vpAssert("http-request-built", err == nil)
	if err != nil {
		return
	}
	verifier := &vpReqVerifier{keys: map[spec.ServerName]ed25519.PublicKey{origin: ed25519.PublicKey(pubB)}}
	got, resp := VerifyHTTPRequest(req, time.Unix(1700000000, 0), dest, nil, verifier)
	vpAssert("accepted", got != nil && resp.Code == 200)
	if got != nil {
		vpAssert("origin", got.Origin() == origin)
		vpAssert("destination", got.Destination() == dest)
		vpAssert("method", got.Method() == "PUT")
		vpAssert("uri", got.RequestURI() == "/_matrix/federation/v1/send/1?a=%3C")
	}
	// a receiver that holds another key refuses
	pub2B, _ := vpKey("other-key")
	req2, err := fr.HTTPRequest()
	if err == nil {
		verifier2 := &vpReqVerifier{keys: map[spec.ServerName]ed25519.PublicKey{origin: ed25519.PublicKey(pub2B)}}
		got2, _ := VerifyHTTPRequest(req2, time.Unix(1700000000, 0), dest, nil, verifier2)
		vpAssert("wrong-key-refused", got2 == nil)
	}
}
