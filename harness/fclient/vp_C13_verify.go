//go:build verif

package fclient

import (
	"bytes"
	"context"
	"errors"
	"io"
	"net/http"
	"time"

	"github.com/matrix-org/gomatrixserverlib"
	"github.com/matrix-org/gomatrixserverlib/spec"
	"golang.org/x/crypto/ed25519"
)

type vpReqVerifier struct {
	keys     map[spec.ServerName]ed25519.PublicKey
	notValid bool // the key ring reports the key as not valid at the time of receipt
}

func (v *vpReqVerifier) VerifyJSONs(ctx context.Context, reqs []gomatrixserverlib.VerifyJSONRequest) ([]gomatrixserverlib.VerifyJSONResult, error) {
	res := make([]gomatrixserverlib.VerifyJSONResult, len(reqs))
	for i, r := range reqs {
		key, ok := v.keys[r.ServerName]
		if !ok || v.notValid {
			res[i].Error = errors.New("no valid key for server at that time")
			continue
		}
		ids, err := gomatrixserverlib.ListKeyIDs(string(r.ServerName), r.Message)
		if err != nil || len(ids) == 0 {
			res[i].Error = errors.New("not signed by server")
			continue
		}
		res[i].Error = gomatrixserverlib.VerifyJSON(string(r.ServerName), ids[0], key, r.Message)
	}
	return res, nil
}

// vp:check C13 both K=24 timeout=900
// vp_C13_verify: a request signed by its origin and sent through HTTPRequest is accepted at the named destination and
// reports exactly what was signed; it is refused when method, URI, body, origin or destination is altered, when it is
// addressed to a name the receiver does not own, when the Authorization header is missing, when the content type is not
// JSON, or when the key is not valid.
func vp_C13_verify() {
	pubB, privB := vpKey("origin-key")
	method := vpChoice("method", "GET", "PUT")
	uri := vpChoice("uri", "/_matrix/federation/v1/send/1", "/_matrix/key/v2/server?x=1", "/_matrix/federation/v1/publicRooms?",
		"/_matrix/federation/v1/event/%24abc%2Fdef", "/_matrix/federation/v1/state/!r:x?event_id=$e&a=b%20c")
	hasBody := method == "PUT"
	// the origin is a valid server name (with or without port, IPv6 literal) or an invalid one (port out of range,
	// signed port, empty port); the signature is genuine in every case - an invalid origin must be refused anyway
	origin := spec.ServerName(vpChoice("origin", "origin.example", "origin.example:8448", "[::1]:8448", "origin.example:65536", "origin.example:+8448", "origin.example:-1", "origin.example:", "[::1]:70000"))
	originValid := origin == "origin.example" || origin == "origin.example:8448" || origin == "[::1]:8448"
	// the request is addressed (and genuinely signed) to the receiver's default name, to a further name it owns through
	// its callback, or to a name it does not own
	dest := spec.ServerName(vpChoice("destination", "dest.example", "alias.example", "foreign.example"))
	fr := NewFederationRequest(method, origin, dest, uri)
	// the body is ordinary JSON, or JSON whose string holds bytes that are not UTF-8 (genuinely signed as such: the
	// receiver must refuse it all the same)
	notUTF8 := false
	if hasBody {
		if vpNondetBool("body_not_utf8") {
			notUTF8 = true
			vpAssume(fr.SetContent(spec.RawJSON([]byte("{\"k\":\"\xff\xfe\"}"))) == nil)
		} else {
			vpAssume(fr.SetContent(map[string]string{"k": vpNondetStringN("body", 2)}) == nil)
		}
	}
	vpAssume(fr.Sign(origin, "ed25519:k1", ed25519.PrivateKey(privB)) == nil)
	req, err := fr.HTTPRequest()
	vpAssert("http-request-built", err == nil)
	if err != nil {
		return
	}
	if req.Body == nil {
		// a server always sees a non-nil body (http.NoBody); HTTPRequest built a client request
		req.Body = io.NopCloser(bytes.NewReader(nil))
	}
	tamper := vpChoice("tamper", "none", "method", "uri", "uri-add-question-mark", "uri-drop-query", "body", "drop-auth", "content-type", "not-local", "key-invalid", "other-default-name")
	switch tamper {
	case "method":
		// any other method token of the same length (so also the signed one in another letter case), or a longer one
		if vpNondetBool("tampered_method_longer") {
			req.Method = "POST"
		} else {
			m := vpNondetStringN("tampered_method", 3)
			for i := 0; i < 3; i++ {
				vpAssume(m[i] > 0x20 && m[i] < 0x7F)
			}
			vpAssume(m != method)
			req.Method = m
		}
	case "uri":
		req.URL.Path = "/_matrix/federation/v1/send/2"
		req.URL.RawPath = ""
	case "uri-add-question-mark":
		vpAssume(req.URL.RawQuery == "" && !req.URL.ForceQuery)
		req.URL.ForceQuery = true
	case "uri-drop-query":
		vpAssume(req.URL.RawQuery != "" || req.URL.ForceQuery)
		req.URL.RawQuery = ""
		req.URL.ForceQuery = false
	case "body":
		if hasBody {
			req.Body = io.NopCloser(bytes.NewReader([]byte(`{"k":"zz","extra":1}`)))
		} else {
			req.Body = io.NopCloser(bytes.NewReader([]byte(`{"injected":true}`)))
			req.Header.Set("Content-Type", "application/json")
		}
	case "drop-auth":
		req.Header.Del("Authorization")
	case "content-type":
		vpAssume(hasBody)
		req.Header.Set("Content-Type", "text/plain")
	}
	verifier := &vpReqVerifier{keys: map[spec.ServerName]ed25519.PublicKey{origin: ed25519.PublicKey(pubB)}, notValid: tamper == "key-invalid"}
	local := spec.ServerName("dest.example")
	var isLocal func(spec.ServerName) bool
	switch tamper {
	case "not-local":
		isLocal = func(s spec.ServerName) bool { return s == "another.example" }
	case "other-default-name":
		local = "another.example"
	default:
		if vpNondetBool("use_is_local_func") {
			isLocal = func(s spec.ServerName) bool { return s == "dest.example" || s == "alias.example" }
		}
	}
	got, resp := VerifyHTTPRequest(req, time.Unix(1700000000, 0), local, isLocal, verifier)
	accepted := got != nil && resp.Code == 200
	owned := dest == "dest.example" || (dest == "alias.example" && isLocal != nil && tamper != "not-local")
	if tamper == "not-local" {
		owned = false
	}
	if tamper == "other-default-name" {
		owned = false
	}
	vpAssert("verdict", accepted == (tamper == "none" && originValid && owned && !notUTF8))
	if accepted {
		vpAssert("reports-method", got.Method() == method)
		vpAssert("reports-uri", got.RequestURI() == uri)
		vpAssert("reports-origin", got.Origin() == origin)
		vpAssert("reports-destination", got.Destination() == dest)
		vpAssert("reports-body", bytes.Equal(got.Content(), fr.Content()))
	}
	vpReach("accepted", accepted)
	vpReach("refused", !accepted)
	_ = http.MethodGet
}
