//go:build verif

package fclient

// vpQdtextRef: RFC 7230 quoted-string content that needs no escaping: HTAB / SP / %x21 / %x23-5B / %x5D-7E / obs-text.
func vpQdtextRef(s string) bool {
	for i := 0; i < len(s); i++ {
		c := s[i]
		ok := c == '\t' || c == ' ' || c == 0x21 || (c >= 0x23 && c <= 0x5B) || (c >= 0x5D && c <= 0x7E) || c >= 0x80
		if !ok {
			return false
		}
	}
	return true
}

// vp:check C13 both
// vp_C13_qdtext: isSafeInHTTPQuotedString agrees with the RFC 7230 qdtext predicate on every string of up to 6 bytes.
func vp_C13_qdtext() {
	s := vpNondetString("s", 6)
	got := isSafeInHTTPQuotedString(s)
	vpAssert("qdtext", got == vpQdtextRef(s))
	vpReach("safe", got && len(s) == 6)
	vpReach("unsafe", !got)
}
