//go:build verif

package fclient

// vpQdtextRef: RFC 7230 quoted-string content that needs no escaping: HTAB / SP / %x21 / %x23-5B / %x5D-7E / obs-text.
func vpQdtextRef(s string) bool {
	for i := 0; i < len(s); i++ {
		c := s[i]
		ok := c == '\t' || c == ' ' || c == 0x21 || (c >= 0x23 && c <= 0x5B) || (c >= 0x5D && c <= 0x7E) || c >= 0x80
		if !ok {
			return false
		}
	}
	return true
}

// vp:check C13 both
// vp_C13_qdtext: isSafeInHTTPQuotedString agrees with the RFC 7230 qdtext predicate on every string of up to 6 bytes.
func vp_C13_qdtext() {
	s := vpNondetString("s", 6)
	got := isSafeInHTTPQuotedString(s)
	vpAssert("qdtext", got == vpQdtextRef(s))
	vpReach("safe", got && len(s) == 6)
	vpReach("unsafe", !got)
}

// vpRefParseAuth: reference parser of the X-Matrix Authorization header:
//   "X-Matrix" SP param *( "," param ), param = name "=" value, names/values trimmed of whitespace, values of one
//   pair of surrounding double quotes (all quotes at both ends, as strings.Trim does); later duplicates win.
func vpRefParseAuth(h string) (scheme, origin, dest, key, sig string) {
	sp := -1
	for i := 0; i < len(h); i++ {
		if h[i] == ' ' {
			sp = i
			break
		}
	}
	if sp < 0 {
		return h, "", "", "", ""
	}
	scheme = h[:sp]
	if scheme != "X-Matrix" {
		return
	}
	rest := h[sp+1:]
	start := 0
	for i := 0; i <= len(rest); i++ {
		if i == len(rest) || rest[i] == ',' {
			part := rest[start:i]
			start = i + 1
			eq := -1
			for j := 0; j < len(part); j++ {
				if part[j] == '=' {
					eq = j
					break
				}
			}
			if eq < 0 {
				continue
			}
			name := vpTrimSpace(part[:eq])
			val := vpTrimQuotes(vpTrimSpace(part[eq+1:]))
			switch name {
			case "origin":
				origin = val
			case "key":
				key = val
			case "sig":
				sig = val
			case "destination":
				dest = val
			}
		}
	}
	return
}

func vpIsSpace(c byte) bool {
	return c == ' ' || c == '\t' || c == '\n' || c == '\v' || c == '\f' || c == '\r'
}

func vpTrimSpace(s string) string {
	for len(s) > 0 && vpIsSpace(s[0]) {
		s = s[1:]
	}
	for len(s) > 0 && vpIsSpace(s[len(s)-1]) {
		s = s[:len(s)-1]
	}
	return s
}

func vpTrimQuotes(s string) string {
	for len(s) > 0 && s[0] == '"' {
		s = s[1:]
	}
	for len(s) > 0 && s[len(s)-1] == '"' {
		s = s[:len(s)-1]
	}
	return s
}

// vp:check C13 both configs=tail:0|1|2|3|4 K=40 timeout=900
// vp:check C18 both configs=tail:0|1|2|3|4 K=40 timeout=900
// vp_C13_parse_auth: ParseAuthorization never panics and agrees with the reference parser on "X-Matrix " followed by
// an arbitrary ASCII tail of the configured length and a fixed well-formed remainder.
func vp_C13_parse_auth() {
	tail := vpNondetStringN("tail_bytes", vpConfigInt("tail"))
	for i := 0; i < len(tail); i++ {
		vpAssume(tail[i] < 0x80)
	}
	h := "X-Matrix " + tail + `,origin="o",key="k",sig="s"`
	scheme, origin, dest, key, sig := ParseAuthorization(h)
	rs, ro, rd, rk, rsig := vpRefParseAuth(h)
	vpAssert("scheme", scheme == rs)
	vpAssert("origin", string(origin) == ro)
	vpAssert("destination", string(dest) == rd)
	vpAssert("key", string(key) == rk)
	vpAssert("sig", sig == rsig)
	vpReach("done", true)
}
