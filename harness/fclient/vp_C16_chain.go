//go:build verif

package fclient

import (
	"bytes"
	"context"
	"errors"
	"io"
	"net"
	"net/http"
	"strings"
	"sync"

	"github.com/matrix-org/gomatrixserverlib/spec"
	"github.com/miekg/dns"
)

// vpChainRT: scripted transport for the well-known requests of one resolution; records every URL asked.
type vpChainRT struct {
	status int
	body   []byte
	fail   bool
	asked  []string
}

func (rt *vpChainRT) RoundTrip(req *http.Request) (*http.Response, error) {
	rt.asked = append(rt.asked, req.URL.String())
	if rt.fail {
		return nil, errors.New("connection refused")
	}
	return &http.Response{StatusCode: rt.status, Header: http.Header{}, Body: io.NopCloser(bytes.NewReader(rt.body)), Request: req}, nil
}

// vpSRVScript: what the DNS says about SRV records. Outcomes per service ("matrix-fed", "matrix"):
// notfound (NXDOMAIN), error (SERVFAIL), one, one-dot (target with trailing dot), two (two records, priorities 1 and 2).
type vpSRVScript struct {
	mu      sync.Mutex
	outcome map[string]string
	port    uint16
	asked   []string // "service/name" in the order asked (consecutive repeats dropped)
}

var vpSRV *vpSRVScript

func (s *vpSRVScript) note(service, name string) string {
	s.mu.Lock()
	defer s.mu.Unlock()
	key := service + "/" + name
	if n := len(s.asked); n == 0 || s.asked[n-1] != key {
		s.asked = append(s.asked, key)
	}
	return s.outcome[service]
}

func (s *vpSRVScript) records(service string) []*net.SRV {
	switch s.outcome[service] {
	case "one":
		return []*net.SRV{{Target: service + "1.example.net", Port: s.port, Priority: 1, Weight: 1}}
	case "one-dot":
		return []*net.SRV{{Target: service + "1.example.net.", Port: s.port, Priority: 1, Weight: 1}}
	case "two":
		return []*net.SRV{{Target: service + "1.example.net.", Port: s.port, Priority: 1, Weight: 1}, {Target: service + "2.example.net.", Port: 8449, Priority: 2, Weight: 1}}
	}
	return nil
}

// vpFakeLookupSRV replaces (*net.Resolver).LookupSRV under the symbolic engine (vpStub); natively the same script is
// served by an in-process DNS server (vpInstallFakeDNS), so the real resolver code runs in the replay.
func vpFakeLookupSRV(r *net.Resolver, ctx context.Context, service, proto, name string) (string, []*net.SRV, error) {
	switch vpSRV.note(service, name) {
	case "one", "one-dot", "two":
		return "_" + service + "._" + proto + "." + name + ".", vpSRV.records(service), nil
	case "error":
		return "", nil, &net.DNSError{Err: "server misbehaving", Name: name, IsTemporary: true}
	}
	return "", nil, &net.DNSError{Err: "no such host", Name: name, IsNotFound: true}
}

type vpDNSHandler struct{}

func (vpDNSHandler) ServeDNS(w dns.ResponseWriter, r *dns.Msg) {
	msg := dns.Msg{}
	msg.SetReply(r)
	q := r.Question[0]
	name := strings.TrimSuffix(q.Name, ".")
	handled := false
	if q.Qtype == dns.TypeSRV {
		for _, service := range []string{"matrix-fed", "matrix"} {
			prefix := "_" + service + "._tcp."
			host := strings.TrimPrefix(name, prefix)
			if !strings.HasPrefix(name, prefix) || (host != "example.org" && host != "deleg.example.org") {
				continue
			}
			handled = true
			switch vpSRV.note(service, host) {
			case "one", "one-dot", "two":
				msg.Authoritative = true
				for _, rec := range vpSRV.records(service) {
					msg.Answer = append(msg.Answer, &dns.SRV{
						Hdr:      dns.RR_Header{Name: q.Name, Rrtype: dns.TypeSRV, Class: dns.ClassINET, Ttl: 60},
						Priority: rec.Priority, Weight: rec.Weight, Port: rec.Port, Target: strings.TrimSuffix(rec.Target, ".") + ".",
					})
				}
			case "error":
				msg.Rcode = dns.RcodeServerFailure
			default:
				msg.Rcode = dns.RcodeNameError
			}
		}
	}
	if !handled {
		msg.Rcode = dns.RcodeNameError
	}
	_ = w.WriteMsg(&msg)
}

// vpInstallFakeDNS (native replay only): points net.DefaultResolver at an in-process DNS server answering from vpSRV.
func vpInstallFakeDNS() (cleanup func()) {
	if vpSymbolic() {
		return func() {}
	}
	old := net.DefaultResolver
	udpAddr, err := net.ResolveUDPAddr("udp", "127.0.0.1:0")
	if err != nil {
		panic(err)
	}
	conn, err := net.ListenUDP("udp", udpAddr)
	if err != nil {
		panic(err)
	}
	addr := conn.LocalAddr().String()
	srv := &dns.Server{PacketConn: conn, Handler: vpDNSHandler{}}
	go func() { _ = srv.ActivateAndServe() }()
	net.DefaultResolver = &net.Resolver{PreferGo: true, Dial: func(ctx context.Context, network, address string) (net.Conn, error) {
		return net.Dial("udp", addr)
	}}
	return func() { _ = srv.Shutdown(); net.DefaultResolver = old }
}

// vp:check C16 both configs=srv_port:8448|443|1|65535 K=40 timeout=900
// vp_C16_resolve_chain: the lookup steps of server-name resolution for a host name without port, against a
// transcription of the specification's steps: well-known (honoured / refused; delegating to an IP literal, a literal
// with port, an IPv6 literal, a host name, a host name with port, the name itself, an invalid name), then SRV
// (_matrix-fed before _matrix; not found / server failure / one record / trailing dot / two records; symbolic choice
// of port), then port 8448 - each target with the Host header and TLS name of its step. The delegated name is
// resolved without a second well-known request. DNS is scripted (vpStub of LookupSRV; natively a fake DNS server).
func vp_C16_resolve_chain() {
	const name = "example.org"
	rt := &vpChainRT{}
	wk := vpChoice("well_known", "unreachable", "404", "literal", "literal-port", "v6", "host", "host-port", "self", "invalid", "no-m.server")
	deleg := ""
	switch wk {
	case "unreachable":
		rt.fail = true
	case "404":
		rt.status, rt.body = 404, []byte(`{"m.server":"deleg.example.org"}`)
	case "literal":
		deleg = "1.2.3.4"
	case "literal-port":
		deleg = "1.2.3.4:8449"
	case "v6":
		deleg = "[::1]"
	case "host":
		deleg = "deleg.example.org"
	case "host-port":
		deleg = "deleg.example.org:8449"
	case "self":
		deleg = "example.org"
	case "invalid":
		deleg = "bad_host!"
	case "no-m.server":
		rt.status, rt.body = 200, []byte(`{"server":"deleg.example.org"}`)
	}
	if deleg != "" {
		rt.status, rt.body = 200, []byte(`{"m.server":"`+deleg+`"}`)
	}
	vpSRV = &vpSRVScript{outcome: map[string]string{}}
	vpSRV.outcome["matrix-fed"] = vpChoice("srv_fed", "notfound", "error", "one", "one-dot", "two")
	vpSRV.outcome["matrix"] = vpChoice("srv_matrix", "notfound", "error", "one", "one-dot", "two")
	portStr := vpConfig("srv_port")
	switch portStr {
	case "8448":
		vpSRV.port = 8448
	case "443":
		vpSRV.port = 443
	case "1":
		vpSRV.port = 1
	default:
		vpSRV.port = 65535
	}

	vpStub("(*net.Resolver).LookupSRV", vpFakeLookupSRV)
	cleanup := vpInstallFakeDNS()
	old := http.DefaultTransport
	http.DefaultTransport = rt
	res, err := ResolveServer(context.Background(), spec.ServerName(name))
	http.DefaultTransport = old
	cleanup()
	vpUnstub("(*net.Resolver).LookupSRV")

	vpAssert("one-well-known-request", len(rt.asked) == 1 && rt.asked[0] == "https://example.org/.well-known/matrix/server")

	// transcription of the specification
	type target struct{ dest, host, tls string }
	var want []target
	var alt []target // second acceptable answer where the specification leaves a DNS failure open
	srvHost := ""    // the name whose SRV records are to be consulted ("" = none)
	wantErr := false
	switch wk {
	case "literal":
		want = []target{{"1.2.3.4:8448", "1.2.3.4", "1.2.3.4"}}
	case "literal-port":
		want = []target{{"1.2.3.4:8449", "1.2.3.4:8449", "1.2.3.4"}}
	case "v6":
		want = []target{{"[::1]:8448", "[::1]", "::1"}}
	case "host-port":
		want = []target{{"deleg.example.org:8449", "deleg.example.org:8449", "deleg.example.org"}}
	case "host":
		srvHost = "deleg.example.org"
	case "invalid":
		wantErr = true // an invalid delegated name is refused; falling back to SRV / 8448 of the original name is also within the specification
		srvHost = name
	default:
		srvHost = name
	}
	if srvHost != "" {
		fed, mx := vpSRV.outcome["matrix-fed"], vpSRV.outcome["matrix"]
		recs := func(service string) []target {
			var out []target
			for _, r := range vpSRV.records(service) {
				p := "8449"
				if r.Port == vpSRV.port {
					p = portStr
				}
				out = append(out, target{strings.TrimSuffix(r.Target, ".") + ":" + p, srvHost, srvHost})
			}
			return out
		}
		fallback := []target{{srvHost + ":8448", srvHost, srvHost}}
		switch {
		case fed == "one" || fed == "one-dot" || fed == "two":
			want = recs("matrix-fed")
		case fed == "notfound" && (mx == "one" || mx == "one-dot" || mx == "two"):
			want = recs("matrix")
		case fed == "notfound":
			want = fallback
		default: // _matrix-fed lookup failed for another reason: the deprecated service or port 8448 may be used
			want = fallback
			if mx == "one" || mx == "one-dot" || mx == "two" {
				alt = recs("matrix")
			}
		}
	}
	same := func(w []target) bool {
		if len(res) != len(w) {
			return false
		}
		for i := range w {
			if res[i].Destination != w[i].dest || string(res[i].Host) != w[i].host || res[i].TLSServerName != w[i].tls {
				return false
			}
		}
		return true
	}
	if wantErr {
		vpAssert("invalid-delegation-refused-or-ignored", err != nil || same(want) || (alt != nil && same(alt)))
	} else {
		vpAssert("resolves", err == nil)
		vpAssert("targets-of-the-step", same(want) || (alt != nil && same(alt)))
	}
	// order and subject of the SRV lookups
	if srvHost == "" {
		vpAssert("no-srv-lookup", len(vpSRV.asked) == 0)
	} else if err == nil {
		vpAssert("srv-fed-asked-first", len(vpSRV.asked) >= 1 && vpSRV.asked[0] == "matrix-fed/"+srvHost)
		if vpSRV.outcome["matrix-fed"] != "notfound" && vpSRV.outcome["matrix-fed"] != "error" {
			vpAssert("deprecated-srv-not-asked-after-a-hit", len(vpSRV.asked) == 1)
		}
		if len(vpSRV.asked) > 1 {
			vpAssert("srv-matrix-asked-second", len(vpSRV.asked) == 2 && vpSRV.asked[1] == "matrix/"+srvHost)
		}
	}
	vpReach("resolved", err == nil)
	vpReach("refused", err != nil)
	vpReach("via-srv", err == nil && len(res) == 2)
	vpReach("via-delegation", err == nil && len(res) == 1 && res[0].TLSServerName == "deleg.example.org")
}
