//go:build verif

package fclient

import (
	"context"

	"github.com/matrix-org/gomatrixserverlib/spec"
)

// vp:check C16 both K=40 timeout=900
// vp_C16_resolve_literal: the steps of server-name resolution that need no lookup. An IP literal resolves to itself
// (port 8448 unless given) with the literal as TLS name and the full name as Host; a host name with an explicit port
// resolves to itself; names with an invalid port (not 1-5 decimal digits <= 65535) or invalid host are refused.
func vp_C16_resolve_literal() {
	host := vpChoice("host", "1.2.3.4", "[::1]", "example.org", "bad_host!")
	port := vpChoice("port", "", "8448", "0", "65535", "65536", "99999", "+80", "-1", "80a", "")
	hasPort := vpNondetBool("has_port")
	name := host
	if hasPort {
		name = host + ":" + port
	}
	validPort := port == "8448" || port == "0" || port == "65535"
	isLiteral := host == "1.2.3.4" || host == "[::1]"
	hostOK := host != "bad_host!"
	if !isLiteral && !hasPort {
		return // needs well-known / SRV lookups: not in this harness
	}
	if hasPort && !validPort && host == "example.org" && port == "" {
		return
	}
	res, err := ResolveServer(context.Background(), spec.ServerName(name))
	// an invalid or missing port makes the whole string the host part, which then fails the host grammar (':' '+' ...)
	want := hostOK && (!hasPort || validPort)
	if hasPort && !validPort && host == "[::1]" {
		want = false
	}
	vpAssert("refused-iff-invalid", (err == nil) == want)
	if err == nil {
		vpAssert("one-target", len(res) == 1)
		tls := host
		if host == "[::1]" {
			tls = "::1"
		}
		dest := name
		if !hasPort {
			dest = host + ":8448"
		}
		vpAssert("destination", res[0].Destination == dest)
		vpAssert("host-header", string(res[0].Host) == name)
		vpAssert("tls-name", res[0].TLSServerName == tls)
	}
	vpReach("resolved", err == nil)
	vpReach("refused", err != nil)
}
