//go:build verif

package fclient

import (
	"bytes"
	"context"
	"io"
	"net"
	"net/http"
	"net/http/httptest"
	"sync"
	"time"
)

// What reached a remote end: the TLS server name asked for, the address dialled (as "host:port" of the server name
// it belongs to) and the Host header.
type vpHit struct{ sni, dialed, host string }

var vpRT struct {
	mu          sync.Mutex
	hits        []vpHit
	tripper     *destinationTripper
	reapDuring  bool
	reaperPanic interface{}
	names       map[string]string // native: listener address -> "host:port" of the server name
}

// vpOnRoundTrip: the remote end under the engine ((*http.Transport).RoundTrip is a model that calls it).
func vpOnRoundTrip(t *http.Transport, req *http.Request) (*http.Response, error) {
	sni := ""
	if t.TLSClientConfig != nil {
		sni = t.TLSClientConfig.ServerName
	}
	vpRT.hits = append(vpRT.hits, vpHit{sni, req.URL.Host, req.Host})
	if vpRT.reapDuring {
		vpRT.tripper.reaper() // the reaper's timer fires while this request is in flight
	}
	return &http.Response{StatusCode: 200, Header: http.Header{}, Body: io.NopCloser(bytes.NewReader([]byte("{}"))), Request: req}, nil
}

// vpRemoteEnds (native replay): TLS servers on 127.0.0.1:P1, 127.0.0.2:P1 and 127.0.0.1:P2 standing for
// a.example:P1, b.example:P1 and a.example:P2; a resolver for the DNS cache that knows the two names.
func vpRemoteEnds() (p1, p2 string, resolver netResolver, stop func()) {
	resolver = &vpDialResolver{addrs: map[string][]net.IPAddr{"a.example": {{IP: net.ParseIP("127.0.0.1")}}, "b.example": {{IP: net.ParseIP("127.0.0.2")}}}}
	if vpSymbolic() {
		return "8448", "8449", resolver, func() {}
	}
	vpRT.names = map[string]string{}
	handler := http.HandlerFunc(func(w http.ResponseWriter, r *http.Request) {
		local, _ := r.Context().Value(http.LocalAddrContextKey).(net.Addr)
		sni := ""
		if r.TLS != nil {
			sni = r.TLS.ServerName
		}
		vpRT.mu.Lock()
		vpRT.hits = append(vpRT.hits, vpHit{sni, vpRT.names[local.String()], r.Host})
		reap := vpRT.reapDuring
		vpRT.mu.Unlock()
		if reap {
			func() {
				defer func() {
					if p := recover(); p != nil {
						vpRT.mu.Lock()
						vpRT.reaperPanic = p
						vpRT.mu.Unlock()
					}
				}()
				vpRT.tripper.reaper()
			}()
		}
		_, _ = w.Write([]byte("{}"))
	})
	var servers []*httptest.Server
	start := func(addr string) string {
		l, err := net.Listen("tcp4", addr)
		if err != nil {
			panic(err)
		}
		s := httptest.NewUnstartedServer(handler)
		s.Listener = l
		s.StartTLS()
		servers = append(servers, s)
		_, port, _ := net.SplitHostPort(l.Addr().String())
		return port
	}
	p1 = start("127.0.0.1:0")
	start("127.0.0.2:" + p1)
	p2 = start("127.0.0.1:0")
	vpRT.names["127.0.0.1:"+p1] = "a.example:" + p1
	vpRT.names["127.0.0.2:"+p1] = "b.example:" + p1
	vpRT.names["127.0.0.1:"+p2] = "a.example:" + p2
	return p1, p2, resolver, func() {
		for _, s := range servers {
			s.Close()
		}
	}
}

// vp:check C16 both configs=first:ap1|ap2|bp1;second:ap1|ap2|bp1 K=40 timeout=600 clock=ticking
// vp:check C19 both configs=first:ap1|bp1;second:ap1|ap2|bp1 K=40 timeout=600 clock=ticking
// vp_C16_roundtrip: two requests through one federation transport (destinationTripper with resolution enabled and a
// DNS cache), to server names chosen among a.example:P1, a.example:P2 and b.example:P1 (same host / other port, other
// host / same port, the same name twice). Each request must arrive at the destination of its own server name with
// that name as Host header and the host part as TLS server name - whatever was resolved or cached before; the
// transport cache holds one transport per TLS name; a reaper run while a request is in flight does not crash.
// Under the engine the HTTP transport is a model (remote end = vpOnRoundTrip); natively real TLS listeners on
// loopback addresses, reached through the DNS cache, record what arrives.
func vp_C16_roundtrip() {
	p1, p2, resolver, stop := vpRemoteEnds()
	defer stop()
	cache := NewDNSCache(4, time.Minute, []string{"127.0.0.0/8"}, nil)
	cache.resolver = resolver
	tripper := newDestinationTripper(true, cache, vpNondetBool("keep_alives"), true, nil, nil)
	vpRT.tripper, vpRT.hits, vpRT.reaperPanic = tripper, nil, nil
	vpRT.reapDuring = vpNondetBool("reaper_runs_during_a_request")
	names := map[string]string{"ap1": "a.example:" + p1, "ap2": "a.example:" + p2, "bp1": "b.example:" + p1}
	hosts := map[string]string{"ap1": "a.example", "ap2": "a.example", "bp1": "b.example"}
	k1 := vpConfig("first")
	k2 := vpConfig("second")
	for _, k := range []string{k1, k2} {
		req, err := http.NewRequestWithContext(context.Background(), "GET", "matrix://"+names[k]+"/_matrix/federation/v1/version", nil)
		vpAssume(err == nil)
		resp, err := tripper.RoundTrip(req)
		vpAssert("request-succeeds", err == nil)
		if err == nil && resp.Body != nil {
			_ = resp.Body.Close()
		}
	}
	vpRT.mu.Lock()
	hits := append([]vpHit{}, vpRT.hits...)
	rp := vpRT.reaperPanic
	vpRT.mu.Unlock()
	if rp != nil {
		panic(rp) // (native replay) the reaper crashed on its own goroutine
	}
	vpAssert("one-arrival-per-request", len(hits) == 2)
	if len(hits) == 2 {
		for i, k := range []string{k1, k2} {
			vpAssert("arrives-at-its-own-destination", hits[i].dialed == names[k])
			vpAssert("host-header-is-the-server-name", hits[i].host == names[k])
			vpAssert("tls-name-is-the-host-part", hits[i].sni == hosts[k])
		}
	}
	tripper.transportsMutex.Lock()
	nTransports := len(tripper.transports)
	_, hasA := tripper.transports["a.example"]
	_, hasB := tripper.transports["b.example"]
	tripper.transportsMutex.Unlock()
	wantN := 1
	if hosts[k1] != hosts[k2] {
		wantN = 2
	}
	vpAssert("one-transport-per-tls-name", nTransports == wantN && hasA == (hosts[k1] == "a.example" || hosts[k2] == "a.example") && hasB == (hosts[k1] == "b.example" || hosts[k2] == "b.example"))
	vpReach("same-host-other-port", k1 == "ap1" && k2 == "ap2")
	vpReach("done", true)
}
