//go:build verif

package fclient

import (
	"context"
	"net"
	"strings"
	"sync"
	"time"
)

// vpConnLog: the connections that were actually made. Under the engine (*net.Dialer).DialContext is a model that
// runs the dialer's control hook and then calls vpOnConnect; natively real listeners on loopback addresses record
// what reaches them.
var vpConnLog struct {
	mu   sync.Mutex
	list []string
}

func vpOnConnect(network, address string) error {
	vpConnLog.mu.Lock()
	defer vpConnLog.mu.Unlock()
	host, _, _ := net.SplitHostPort(address)
	vpConnLog.list = append(vpConnLog.list, host)
	return nil
}

// vpListen (native replay): listeners on 127.0.0.1, .2, .3 with one common port; returns the port.
func vpListen() (port string, stop func()) {
	if vpSymbolic() {
		return "8448", func() {}
	}
	var ls []net.Listener
	for attempt := 0; attempt < 20; attempt++ {
		l1, err := net.Listen("tcp4", "127.0.0.1:0")
		if err != nil {
			panic(err)
		}
		_, port, _ = net.SplitHostPort(l1.Addr().String())
		ls = []net.Listener{l1}
		ok := true
		for _, ip := range []string{"127.0.0.2", "127.0.0.3"} {
			l, err := net.Listen("tcp4", ip+":"+port)
			if err != nil {
				ok = false
				break
			}
			ls = append(ls, l)
		}
		if ok {
			break
		}
		for _, l := range ls {
			_ = l.Close()
		}
		ls = nil
	}
	if ls == nil {
		panic("no common free port on the loopback addresses")
	}
	for _, l := range ls {
		go func(l net.Listener) {
			for {
				c, err := l.Accept()
				if err != nil {
					return
				}
				host, _, _ := net.SplitHostPort(c.LocalAddr().String())
				vpConnLog.mu.Lock()
				vpConnLog.list = append(vpConnLog.list, host)
				vpConnLog.mu.Unlock()
				_ = c.Close()
			}
		}(l)
	}
	return port, func() {
		time.Sleep(30 * time.Millisecond)
		for _, l := range ls {
			_ = l.Close()
		}
	}
}

type vpDialResolver struct{ addrs map[string][]net.IPAddr }

func (r *vpDialResolver) LookupIPAddr(ctx context.Context, host string) ([]net.IPAddr, error) {
	if ip := net.ParseIP(host); ip != nil {
		return []net.IPAddr{{IP: ip}}, nil // a literal resolves to itself
	}
	if a, ok := r.addrs[host]; ok {
		return a, nil
	}
	return nil, &net.DNSError{Err: "no such host", Name: host, IsNotFound: true}
}

// vp:check C16 both K=40 timeout=1200
// vp_C16_dial: connections made through the DNS cache's DialContext obey the allow / deny lists by whatever name the
// address was reached: a host name resolving to one or two loopback addresses (127.0.0.1 / .2 / .3, scripted resolver),
// or an IP literal. Lists come from a small catalogue. A connection is made to the first resolved address that lies
// in an allowed and in no denied range, and to nothing else; if there is none the dial fails. Under the engine the
// dialer is a model (control hook really called, connection recorded); natively real loopback listeners record it.
func vp_C16_dial() {
	port, stop := vpListen()
	pick := func(name string) string { return vpChoice(name, "127.0.0.1", "127.0.0.2", "127.0.0.3") }
	a1, a2 := pick("addr1"), pick("addr2")
	addrs := []string{a1}
	if vpNondetBool("two_addresses") {
		addrs = []string{a1, a2}
	}
	target := vpChoice("target", "name", "literal")
	host := "a.example"
	if target == "literal" {
		host, addrs = a1, []string{a1}
	}
	var ipAddrs []net.IPAddr
	for _, a := range addrs {
		ipAddrs = append(ipAddrs, net.IPAddr{IP: net.ParseIP(a)})
	}
	allow := map[string][]string{"all-loopback": {"127.0.0.0/8"}, "only-2": {"127.0.0.2/32"}, "1-and-3": {"127.0.0.1/32", "127.0.0.3/32"}, "elsewhere": {"10.0.0.0/8"}}[vpChoice("allow", "all-loopback", "only-2", "1-and-3", "elsewhere")]
	deny := map[string][]string{"none": {}, "deny-1": {"127.0.0.1/32"}, "deny-2-3": {"127.0.0.2/31"}, "deny-all": {"127.0.0.0/8"}}[vpChoice("deny", "none", "deny-1", "deny-2-3", "deny-all")]
	permitted := func(ip string) bool {
		in := func(list []string) bool {
			for _, c := range list {
				switch c {
				case "127.0.0.0/8":
					return true
				case "127.0.0.1/32":
					if ip == "127.0.0.1" {
						return true
					}
				case "127.0.0.2/32":
					if ip == "127.0.0.2" {
						return true
					}
				case "127.0.0.3/32":
					if ip == "127.0.0.3" {
						return true
					}
				case "127.0.0.2/31":
					if ip == "127.0.0.2" || ip == "127.0.0.3" {
						return true
					}
				}
			}
			return false
		}
		return in(allow) && !in(deny)
	}
	cache := NewDNSCache(4, time.Minute, allow, deny)
	cache.resolver = &vpDialResolver{addrs: map[string][]net.IPAddr{"a.example": ipAddrs}}
	vpConnLog.list = nil
	conn, err := cache.DialContext(context.Background(), "tcp", host+":"+port)
	if conn != nil {
		_ = conn.Close()
	}
	stop()
	vpConnLog.mu.Lock()
	made := append([]string{}, vpConnLog.list...)
	vpConnLog.mu.Unlock()
	first := ""
	for _, a := range addrs {
		if permitted(a) {
			first = a
			break
		}
	}
	for _, m := range made {
		vpAssert("connection-only-to-permitted-addresses", permitted(m))
	}
	vpAssert("dial-succeeds-iff-some-address-permitted", (err == nil) == (first != ""))
	if first != "" {
		vpAssert("connects-to-the-first-permitted-address", len(made) == 1 && made[0] == first)
	} else {
		vpAssert("no-connection", len(made) == 0)
	}
	_ = strings.Join
	vpReach("connected", err == nil)
	vpReach("refused", err != nil)
}
