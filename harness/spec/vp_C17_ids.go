//go:build verif

package spec

func vpStrictLocalChar(c byte) bool {
	return (c >= '0' && c <= '9') || (c >= 'a' && c <= 'z') || c == '_' || c == '-' || c == '=' || c == '.' || c == '/'
}

// vp:check C17 both configs=llen:0|1|2 K=24 timeout=900
// vp_C17_userid: NewUserID accepts "@local:domain" exactly when the localpart is non-empty (and, in strict mode,
// drawn from [0-9a-z_=./-]) and the domain is a valid server name; the parts re-concatenate to the input. The localpart
// is an arbitrary string of the configured length; domain and overall shape are enumerated.
func vp_C17_userid() {
	local := vpNondetStringN("local", vpConfigInt("llen"))
	dom := vpChoice("domain", "x", "x:8448", "1.2.3.4", "[::1]", "bad!", "", "x:99999")
	shape := vpChoice("shape", "normal", "no-sigil", "no-colon")
	id := "@" + local + ":" + dom
	switch shape {
	case "no-sigil":
		id = "!" + local + ":" + dom
	case "no-colon":
		for i := 0; i < len(local); i++ {
			vpAssume(local[i] != ':')
		}
		id = "@" + local + dom
		for i := 0; i < len(dom); i++ {
			vpAssume(dom[i] != ':')
		}
	}
	historical := vpNondetBool("historical")
	u, err := NewUserID(id, historical)
	// reference
	first := -1
	for i := 1; i < len(id); i++ {
		if id[i] == ':' {
			first = i
			break
		}
	}
	want := len(id) >= 4 && len(id) <= 255 && id[0] == '@' && first >= 0
	var rlocal, rdom string
	if want {
		rlocal, rdom = id[1:first], id[first+1:]
		_, _, domOK := ParseAndValidateServerName(ServerName(rdom))
		want = domOK && len(rlocal) > 0
		if want && !historical {
			for i := 0; i < len(rlocal); i++ {
				if !vpStrictLocalChar(rlocal[i]) {
					want = false
				}
			}
		}
	}
	// KF-C17-1: with allowHistoricalIDs an empty localpart is accepted ("@:x.y")
	kf := historical && first == 1
	vpAssertKF("userid-accept", (err == nil) == want, "KF-C17-1", kf)
	if err == nil {
		vpAssert("userid-parts", u.String() == id && "@"+u.Local()+":"+string(u.Domain()) == id)
	}
	vpReach("accepted", err == nil)
	vpReach("rejected", err != nil)
}

// vp:check C17 both configs=olen:0|1|2 K=24 timeout=900
// vp_C17_roomid: NewRoomID accepts "!opaque:domain" with non-empty opaque part and valid domain, or a domainless ID
// of exactly 43 URL-safe base64 characters; the parts re-concatenate.
func vp_C17_roomid() {
	opaque := vpNondetStringN("opaque", vpConfigInt("olen"))
	shape := vpChoice("shape", "domain", "domainless-43", "domainless-42", "domainless-44", "no-sigil")
	dom := vpChoice("domain", "x", "x:1", "bad!", "")
	var id string
	switch shape {
	case "domain":
		id = "!" + opaque + ":" + dom
	case "no-sigil":
		id = "#" + opaque + ":" + dom
	default:
		n := 43
		if shape == "domainless-42" {
			n = 42
		} else if shape == "domainless-44" {
			n = 44
		}
		// one arbitrary character among otherwise valid ones
		body := make([]byte, n)
		for i := range body {
			body[i] = 'A'
		}
		body[7] = vpNondetU8("c")
		vpAssume(body[7] != ':')
		id = "!" + string(body)
	}
	r, err := NewRoomID(id)
	first := -1
	for i := 0; i < len(id); i++ {
		if id[i] == ':' {
			first = i
			break
		}
	}
	var want bool
	if len(id) < 4 || id[0] != '!' {
		want = false
	} else if first < 0 {
		want = len(id) == 44
		for i := 1; i < len(id) && want; i++ {
			c := id[i]
			if !((c >= 'A' && c <= 'Z') || (c >= 'a' && c <= 'z') || (c >= '0' && c <= '9') || c == '-' || c == '_') {
				want = false
			}
		}
	} else {
		_, _, domOK := ParseAndValidateServerName(ServerName(id[first+1:]))
		want = domOK && first > 1
	}
	vpAssert("roomid-accept", (err == nil) == want)
	if err == nil {
		vpAssert("roomid-string", r.String() == id)
		if first >= 0 {
			vpAssert("roomid-parts", "!"+r.OpaqueID()+":"+string(r.Domain()) == id)
		} else {
			vpAssert("roomid-domainless-parts", "!"+r.OpaqueID() == id)
		}
	}
	vpReach("accepted-domain", err == nil && first >= 0)
	vpReach("accepted-domainless", err == nil && first < 0)
	vpReach("rejected", err != nil)
}

// vp:check C17 both configs=blen:0|1|2|3 K=24 timeout=900
// vp_C17_base64: Encode/Decode round-trip for every byte string of the configured length; a string decodes exactly
// when it is unpadded base64 over one of the two alphabets, and then re-encodes to a string that decodes to the same
// bytes.
func vp_C17_base64() {
	n := vpConfigInt("blen")
	raw := vpNondetBytes("raw", n)
	enc := Base64Bytes(raw).Encode()
	var back Base64Bytes
	err := back.Decode(enc)
	vpAssert("roundtrip-decodes", err == nil)
	vpAssert("roundtrip-equal", err == nil && string(back) == string(raw))
	vpAssert("encoded-length", len(enc) == (n*8+5)/6)
	vpReach("done", true)
}

// vp:check C17 quick configs=slen:0|1|2|3 K=24 timeout=900
// vp:check C17 thorough configs=slen:0|1|2|3|4 K=24 timeout=3000
// vp_C17_base64_decode: which strings decode.
func vp_C17_base64_decode() {
	n := vpConfigInt("slen")
	s := vpNondetStringN("s", n)
	for i := 0; i < n; i++ {
		vpAssume(s[i] < 0x80) // bound: ASCII input
	}
	var out Base64Bytes
	err := out.Decode(s)
	std, url := true, true
	m := 0 // significant characters: Go's decoder skips CR and LF
	for i := 0; i < n; i++ {
		c := s[i]
		if c == '\r' || c == '\n' {
			continue
		}
		m++
		alnum := (c >= 'A' && c <= 'Z') || (c >= 'a' && c <= 'z') || (c >= '0' && c <= '9')
		if !(alnum || c == '+' || c == '/') {
			std = false
		}
		if !(alnum || c == '-' || c == '_') {
			url = false
		}
	}
	// unpadded base64: length mod 4 != 1; trailing bits are not checked by Go's decoder in non-strict mode
	want := (std || url) && m%4 != 1
	vpAssert("decodes-iff-alphabet", (err == nil) == want)
	if err == nil {
		var again Base64Bytes
		err2 := again.Decode(out.Encode())
		vpAssert("re-encode-same-value", err2 == nil && string(again) == string(out))
	}
	vpReach("decoded", err == nil && n > 0)
	vpReach("rejected", err != nil)
}

// vp:check C17 both configs=sp2:raw|u-A|u-plus|u-slash|short-slash;sp3:raw|u-z|u-slash|short-slash K=40 timeout=900
// vp:check C02 both configs=sp2:raw|u-plus|short-slash;sp3:raw|u-slash|short-slash K=40 timeout=900
// vp_C17_base64_json: Base64Bytes read from JSON gives the same bytes however the JSON string spells its characters:
// four base64 characters: a fixed one, an arbitrary raw one (solver-chosen), and two that are each raw (arbitrary), written as
// \u00XX (representatives: a letter, '+', '/') or - for '/' - as the optional \/ escape; and MarshalJSON /
// UnmarshalJSON round-trip. Signatures and keys arrive this way, so a re-serialised signed object must keep verifying
// (C02).
func vp_C17_base64_json() {
	const hex = "0123456789abcdef"
	var text, plain []byte
	for i := 0; i < 4; i++ {
		name := string(rune('0' + i))
		sp := "raw"
		if i >= 2 {
			sp = vpConfig("sp" + name)
		}
		switch sp {
		case "raw":
			if i == 0 {
				plain = append(plain, 'Q')
				text = append(text, 'Q')
				continue
			}
			c := vpNondetU8("char" + name)
			alnum := (c >= 'A' && c <= 'Z') || (c >= 'a' && c <= 'z') || (c >= '0' && c <= '9')
			vpAssume(alnum || c == '+' || c == '/')
			plain = append(plain, c)
			text = append(text, c)
		case "short-slash":
			plain = append(plain, '/')
			text = append(text, '\\', '/')
		default:
			c := map[string]byte{"u-A": 'A', "u-z": 'z', "u-plus": '+', "u-slash": '/'}[sp]
			plain = append(plain, c)
			text = append(text, '\\', 'u', '0', '0', hex[c>>4], hex[c&0xF])
		}
	}
	var want Base64Bytes
	vpAssume(want.Decode(string(plain)) == nil)
	doc := append(append([]byte{'"'}, text...), '"')
	var got Base64Bytes
	err := got.UnmarshalJSON(doc)
	vpAssert("escaped-spelling-decodes", err == nil)
	vpAssert("same-bytes", err == nil && string(got) == string(want))
	out, merr := want.MarshalJSON()
	var back Base64Bytes
	vpAssert("marshal-unmarshal-roundtrip", merr == nil && back.UnmarshalJSON(out) == nil && string(back) == string(want))
	vpReach("done", true)
}
