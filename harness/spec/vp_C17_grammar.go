//go:build verif

package spec

func vpIsDigit(c byte) bool { return c >= '0' && c <= '9' }

func vpDNSChar(c byte) bool {
	return (c >= 'A' && c <= 'Z') || (c >= 'a' && c <= 'z') || vpIsDigit(c) || c == '-' || c == '.'
}

// vpPortRef: optional ":port" suffix with 1-5 digits (leading zeros allowed, as ParseUint accepts) and value <= 65535.
// Returns the host part and whether a valid port was split off.
func vpSplitRef(s string) (host string, port int) {
	last := -1
	for i := 0; i < len(s); i++ {
		if s[i] == ':' {
			last = i
		}
	}
	if last < 0 {
		return s, -1
	}
	p := s[last+1:]
	if len(p) == 0 {
		return s, -1
	}
	v := 0
	for i := 0; i < len(p); i++ {
		if !vpIsDigit(p[i]) {
			return s, -1
		}
		v = v*10 + int(p[i]-'0')
		if v > 65535 {
			return s, -1
		}
	}
	return s[:last], v
}

// vpIPv4Ref: dotted quad, each part 1-3 digits, no leading zero unless the part is "0", value <= 255.
func vpIPv4Ref(s string) bool {
	parts := 0
	i := 0
	for {
		if i >= len(s) || !vpIsDigit(s[i]) {
			return false
		}
		v := 0
		n := 0
		start := i
		for i < len(s) && vpIsDigit(s[i]) {
			v = v*10 + int(s[i]-'0')
			n++
			i++
			if n > 3 || v > 255 {
				return false
			}
		}
		if n > 1 && s[start] == '0' {
			return false
		}
		parts++
		if parts == 4 {
			return i == len(s)
		}
		if i >= len(s) || s[i] != '.' {
			return false
		}
		i++
	}
}

// vp:check C17 quick configs=len:0|1|2|3|4|5
// vp:check C17 thorough configs=len:0|1|2|3|4|5|6|7 timeout=3000
// vp_C17_servername_dns: for names without '[' the acceptance of ParseAndValidateServerName equals the grammar
// (DNS charset or IPv4 host, optional port <= 65535), and the reported parts re-concatenate to the input.
func vp_C17_servername_dns() {
	s := vpNondetStringN("s", vpConfigInt("len"))
	for i := 0; i < len(s); i++ {
		vpAssume(s[i] != '[')
	}
	host, port, valid := ParseAndValidateServerName(ServerName(s))
	rh, rp := vpSplitRef(s)
	want := len(s) > 0 && len(rh) > 0
	if want {
		for i := 0; i < len(rh); i++ {
			if !vpDNSChar(rh[i]) {
				want = false
			}
		}
	}
	vpAssert("servername-accept", valid == want)
	if valid {
		vpAssert("servername-host", host == rh)
		vpAssert("servername-port", port == rp)
	}
	vpReach("with-port", valid && port >= 0)
	vpReach("no-port", valid && port < 0 && len(s) >= 3)
	vpReach("rejected", !valid && len(s) > 0)
}
