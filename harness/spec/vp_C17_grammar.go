//go:build verif

package spec

func vpIsDigit(c byte) bool { return c >= '0' && c <= '9' }

func vpDNSChar(c byte) bool {
	return (c >= 'A' && c <= 'Z') || (c >= 'a' && c <= 'z') || vpIsDigit(c) || c == '-' || c == '.'
}

// vpPortRef: optional ":port" suffix with 1-5 digits (leading zeros allowed, as ParseUint accepts) and value <= 65535.
// Returns the host part and whether a valid port was split off.
func vpSplitRef(s string) (host string, port int) {
	last := -1
	for i := 0; i < len(s); i++ {
		if s[i] == ':' {
			last = i
		}
	}
	if last < 0 {
		return s, -1
	}
	p := s[last+1:]
	if len(p) == 0 || len(p) > 5 {
		return s, -1
	}
	v := 0
	for i := 0; i < len(p); i++ {
		if !vpIsDigit(p[i]) {
			return s, -1
		}
		v = v*10 + int(p[i]-'0')
		if v > 65535 {
			return s, -1
		}
	}
	return s[:last], v
}

// vpIPv4Ref: dotted quad, each part 1-3 digits, no leading zero unless the part is "0", value <= 255.
func vpIPv4Ref(s string) bool {
	parts := 0
	i := 0
	for {
		if i >= len(s) || !vpIsDigit(s[i]) {
			return false
		}
		v := 0
		n := 0
		start := i
		for i < len(s) && vpIsDigit(s[i]) {
			v = v*10 + int(s[i]-'0')
			n++
			i++
			if n > 3 || v > 255 {
				return false
			}
		}
		if n > 1 && s[start] == '0' {
			return false
		}
		parts++
		if parts == 4 {
			return i == len(s)
		}
		if i >= len(s) || s[i] != '.' {
			return false
		}
		i++
	}
}

// vp:check C17 quick configs=len:0|1|2|3|4|5
// vp:check C17 thorough configs=len:0|1|2|3|4|5|6|7 timeout=3000
// vp_C17_servername_dns: for names without '[' the acceptance of ParseAndValidateServerName equals the grammar
// (DNS charset or IPv4 host, optional port <= 65535), and the reported parts re-concatenate to the input.
func vp_C17_servername_dns() {
	s := vpNondetStringN("s", vpConfigInt("len"))
	for i := 0; i < len(s); i++ {
		vpAssume(s[i] != '[')
	}
	host, port, valid := ParseAndValidateServerName(ServerName(s))
	rh, rp := vpSplitRef(s)
	want := len(s) > 0 && len(rh) > 0
	if want {
		for i := 0; i < len(rh); i++ {
			if !vpDNSChar(rh[i]) {
				want = false
			}
		}
	}
	vpAssert("servername-accept", valid == want)
	if valid {
		vpAssert("servername-host", host == rh)
		vpAssert("servername-port", port == rp)
	}
	vpReach("with-port", valid && port >= 0)
	vpReach("no-port", valid && port < 0 && len(s) >= 3)
	vpReach("rejected", !valid && len(s) > 0)
}

func vpIsHex(c byte) bool {
	return vpIsDigit(c) || (c >= 'a' && c <= 'f') || (c >= 'A' && c <= 'F')
}

// vpIPv6Groups: s is a possibly empty sequence of groups of 1-4 hex digits separated by single colons, the last of
// which may be a dotted IPv4 address when v4Tail is allowed (counting as two groups). Returns the group count, -1 if malformed.
func vpIPv6Groups(s string, v4Tail bool) int {
	if len(s) == 0 {
		return 0
	}
	groups := 0
	i := 0
	for {
		start := i
		for i < len(s) && s[i] != ':' {
			i++
		}
		g := s[start:i]
		isLast := i == len(s)
		hex := len(g) >= 1 && len(g) <= 4
		for k := 0; k < len(g); k++ {
			if !vpIsHex(g[k]) {
				hex = false
			}
		}
		switch {
		case hex:
			groups++
		case isLast && v4Tail && vpIPv4Ref(g):
			groups += 2
		default:
			return -1
		}
		if isLast {
			return groups
		}
		i++ // the colon
		if i == len(s) {
			return -1 // trailing single colon
		}
	}
}

// vpIPv6Ref: RFC 4291 text form (no zone): eight groups, or fewer with exactly one "::".
func vpIPv6Ref(s string) bool {
	dc := -1
	for i := 0; i+1 < len(s); i++ {
		if s[i] == ':' && s[i+1] == ':' {
			if dc >= 0 {
				return false // a second "::" (also ":::")
			}
			dc = i
			i++
		}
	}
	if dc < 0 {
		return vpIPv6Groups(s, true) == 8
	}
	l, r := vpIPv6Groups(s[:dc], false), vpIPv6Groups(s[dc+2:], true)
	if dc+2 < len(s) && s[dc+2] == ':' {
		return false
	}
	return l >= 0 && r >= 0 && l+r <= 7
}

// vp:check C17 quick configs=ilen:0|1|2|3|4|5 timeout=1500
// vp:check C17 thorough configs=ilen:0|1|2|3|4|5|6|7 timeout=3000
// vp_C17_servername_v6: bracketed hosts. "[" + ilen arbitrary bytes + "]", with or without ":8448": accepted exactly
// when the bytes between the brackets are an IPv6 address (RFC 4291 text form, no zone), reporting host (with
// brackets) and port.
func vp_C17_servername_v6() {
	inner := vpNondetStringN("inner", vpConfigInt("ilen"))
	for i := 0; i < len(inner); i++ {
		vpAssume(inner[i] != ']' && inner[i] != '[')
	}
	withPort := vpNondetBool("with_port")
	s := "[" + inner + "]"
	if withPort {
		s += ":8448"
	}
	host, port, valid := ParseAndValidateServerName(ServerName(s))
	vpAssert("bracketed-host-accepted-iff-ipv6", valid == vpIPv6Ref(inner))
	if valid {
		vpAssert("host", host == "["+inner+"]")
		vpAssert("port", (withPort && port == 8448) || (!withPort && port == -1))
	}
	vpReach("accepted", valid)
	vpReach("rejected", !valid)
}

// vp:check C17 both configs=shape:v4-in-brackets|mapped-v4-bare|mapped-v4-in-brackets|long-port|zone K=24 timeout=900
// vp_C17_servername_templates: forms too long for the byte-by-byte harnesses, with symbolic characters at the places
// that matter: an IPv4 address in brackets (not an IPv6 address: refused), an IPv4-mapped IPv6 address without
// brackets (contains colons: neither DNS name nor IPv4 address: refused) and with brackets (accepted iff well formed),
// a port of six digits (at most five are allowed), an IPv6 literal with a zone suffix (refused).
func vp_C17_servername_templates() {
	d := vpNondetStringN("d", 4)
	quad := d[0:1] + "." + d[1:2] + "." + d[2:3] + "." + d[3:4]
	digits := vpIsDigit(d[0]) && vpIsDigit(d[1]) && vpIsDigit(d[2]) && vpIsDigit(d[3])
	var s string
	want := false
	switch vpConfig("shape") {
	case "v4-in-brackets":
		s = "[" + quad + "]"
	case "mapped-v4-bare":
		s = "::ffff:" + quad
	case "mapped-v4-in-brackets":
		s, want = "[::ffff:"+quad+"]", digits
	case "long-port":
		p := vpNondetStringN("port", 6)
		s = "a." + d[0:1] + ":" + p
		// the last colon splits off a port only if what follows is a valid port; otherwise the whole string is the host,
		// which then contains a colon and is no DNS name
	default:
		z := vpNondetStringN("zone", 1)
		vpAssume(z[0] != ']' && z[0] != '[')
		s = "[fe80::" + d[0:1] + "%" + z + "]"
	}
	_, _, valid := ParseAndValidateServerName(ServerName(s))
	vpAssert("accepted-iff-grammatical", valid == want)
	vpReach("rejected", !valid)
	if vpConfig("shape") == "mapped-v4-in-brackets" {
		vpReach("accepted", valid)
	}
}
