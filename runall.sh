#!/bin/bash
# usage: runall.sh [tier]  -- runs every property's check in turn on the current tree; one line per property
tier=${1:-quick}
L=${RUNALL_LOGDIR:-/tmp}
cd "$(dirname "$0")"
for p in C01 C02 C03 C04 C05 C06 C07 C08 C09 C10 C11 C12 C13 C14 C15 C16 C17 C18 C19 C20; do
  timeout 7200 ./check $p --tier $tier > $L/runall_$p.log 2>&1; rc=$?
  echo "$p exit=$rc kf=$(grep -c '^KNOWN-FINDING' $L/runall_$p.log) inc=$(grep -c '^INCONCLUSIVE' $L/runall_$p.log) $(tail -1 $L/runall_$p.log | cut -c1-220)"
done
