#!/bin/bash
# usage: seedverify.sh <seed-dir>  -- confirms in a scratch worktree: builds, existing tests pass with the patch, demo fails with / passes without
set -u
SD=$1; WT=/tmp/seedverify_$$
export GOFLAGS=-mod=mod GOPROXY=off GOSUMDB=off GOTOOLCHAIN=local
git -C /repo worktree add --detach $WT HEAD >/dev/null 2>&1 || exit 2
cd $WT
demo=$(ls $SD/*_test.go | head -1); pkgdir=$(python3 -c "import json;print(json.load(open('$SD/meta.json')).get('demo_dir','.'))" 2>/dev/null || echo .)
# locate package dir of demo by package clause
pk=$(grep -m1 '^package ' $demo | awk '{print $2}'); case $pk in gomatrixserverlib|gomatrixserverlib_test) d=.;; spec|spec_test) d=spec;; fclient|fclient_test) d=fclient;; tokens|tokens_test) d=tokens;; *) d=.;; esac
tname=$(grep -o 'func Test[A-Za-z0-9_]*' $demo | head -1 | awk '{print $2}')
cp $demo $d/
echo "-- demo without patch (expect PASS)"; go test -vet=off -count=1 -run "^${tname}\$" ./$d 2>&1 | tail -2
git apply $SD/patch.diff || { echo "patch failed"; }
echo "-- build+demo with patch (expect FAIL)"; go build ./... && go test -vet=off -count=1 -run "^${tname}\$" ./$d 2>&1 | tail -3
rm $d/$(basename $demo)
echo "-- existing suite with patch (expect ok)"; go test -vet=off -count=1 ./... 2>&1 | tail -5
cd /; git -C /repo worktree remove --force $WT
