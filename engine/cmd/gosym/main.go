package main

import (
	"encoding/json"
	"flag"
	"fmt"
	"os"
	"strings"

	"gosym/sym"
)

func main() {
	if len(os.Args) < 2 {
		fmt.Fprintln(os.Stderr, "usage: gosym run|check ...")
		os.Exit(2)
	}
	switch os.Args[1] {
	case "run":
		runCmd(os.Args[2:])
	case "check":
		os.Exit(checkCmd(os.Args[2:]))
	default:
		fmt.Fprintln(os.Stderr, "unknown command", os.Args[1])
		os.Exit(2)
	}
}

func runCmd(args []string) {
	fs := flag.NewFlagSet("run", flag.ExitOnError)
	repo := fs.String("repo", "/repo", "repository root")
	hdir := fs.String("harness", "/verif/harness", "harness directory")
	loadmod := fs.String("loadmod", "/verif/engine/loadmod", "scratch module dir")
	pkg := fs.String("pkg", sym.RepoModule, "package import path")
	fn := fs.String("func", "", "harness function")
	cfgs := fs.String("config", "", "k=v,k=v")
	trace := fs.Bool("trace", false, "trace calls")
	nomerge := fs.Bool("nomerge", false, "disable state merging")
	loop := fs.Int("K", 0, "loop bound")
	fs.Parse(args)
	ld, err := sym.Load(*repo, *hdir, *loadmod)
	if err != nil {
		fmt.Fprintln(os.Stderr, "load:", err)
		os.Exit(2)
	}
	p := ld.Pkgs[*pkg]
	if p == nil {
		fmt.Fprintln(os.Stderr, "no package", *pkg)
		os.Exit(2)
	}
	f := p.Func(*fn)
	if f == nil {
		fmt.Fprintln(os.Stderr, "no function", *fn)
		os.Exit(2)
	}
	c := sym.DefaultConfig()
	c.Trace = *trace
	if *nomerge {
		c.Merge = false
	}
	if *loop > 0 {
		c.LoopBound = *loop
	}
	e, err := sym.NewEngine(ld.Prog, c, os.TempDir())
	if err != nil {
		fmt.Fprintln(os.Stderr, err)
		os.Exit(2)
	}
	defer e.Close()
	if *trace {
		e.SetLog(os.Stderr)
	}
	conf := map[string]string{}
	if *cfgs != "" {
		for _, kv := range strings.Split(*cfgs, ",") {
			i := strings.Index(kv, "=")
			conf[kv[:i]] = kv[i+1:]
		}
	}
	res := e.RunHarness(f, conf)
	res.Functions = nil
	out, _ := json.MarshalIndent(res, "", " ")
	fmt.Println(string(out))
}
