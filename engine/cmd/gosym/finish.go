package main

import (
	"encoding/json"
	"fmt"
	"os"
	"path/filepath"
	"sort"
	"strings"
	"sync"
	"time"

	"gosym/sym"
)

type pendingReplay struct {
	item    *replayItem
	kind    string // violation | known | witness
	label   string
	kf      string
	job     *job
	viol    *sym.Violation
}

func finish(repo, vdir, prop, tier string, seed int, jobs []*job, funcs map[string][]string, t0 time.Time, noNative, verbose bool) int {
	known := loadKnown(filepath.Join(vdir, "known_findings.jsonl"))
	os.RemoveAll(filepath.Join(vdir, "replay", prop))
	var pend []*pendingReplay
	seenKF := map[string]bool{}
	nViol, nWit := 0, 0
	for _, j := range jobs {
		r := j.res.Report
		for i := range r.Violations {
			v := &r.Violations[i]
			nViol++
			f := writeReplay(vdir, prop, j.spec.Func, nViol, j.config, v, "violation")
			pend = append(pend, &pendingReplay{item: &replayItem{sub: j.spec.Sub, harness: j.spec.Func, file: f}, kind: "violation", label: v.Label, job: j, viol: v})
		}
		var kfIDs []string
		for id := range r.Known {
			kfIDs = append(kfIDs, id)
		}
		sort.Strings(kfIDs)
		for _, id := range kfIDs {
			if seenKF[id] {
				continue
			}
			seenKF[id] = true
			v := r.Known[id]
			f := writeReplay(vdir, prop, j.spec.Func, len(seenKF), j.config, v, "known-"+id)
			pend = append(pend, &pendingReplay{item: &replayItem{sub: j.spec.Sub, harness: j.spec.Func, file: f}, kind: "known", label: v.Label, kf: id, job: j, viol: v})
		}
		var labels []string
		for l := range r.Reached {
			labels = append(labels, l)
		}
		sort.Strings(labels)
		perJob := 0
		if _, skip := j.spec.Opts["nowitness"]; skip {
			labels = nil // e.g. clock-aligned harnesses: every native run may wait up to a minute
		}
		for _, l := range labels {
			if perJob >= 2 || nWit >= 48 {
				break
			}
			perJob++
			nWit++
			v := &sym.Violation{Label: l, Inputs: r.Reached[l]}
			f := writeReplay(vdir, prop, j.spec.Func, nWit, j.config, v, "witness")
			pend = append(pend, &pendingReplay{item: &replayItem{sub: j.spec.Sub, harness: j.spec.Func, file: f}, kind: "witness", label: l, job: j, viol: v})
		}
	}
	// native replay, one go test per package
	if len(pend) > 0 && !noNative {
		ov, err := prepareOverlay(repo, vdir, funcs)
		if err != nil {
			fmt.Fprintln(os.Stderr, "overlay:", err)
		} else {
			bySub := map[string][]*replayItem{}
			for _, p := range pend {
				bySub[p.item.sub] = append(bySub[p.item.sub], p.item)
			}
			var wg sync.WaitGroup
			for sub, items := range bySub {
				wg.Add(1)
				go func(sub string, items []*replayItem) {
					defer wg.Done()
					runNative(repo, vdir, sub, items, ov)
				}(sub, items)
			}
			wg.Wait()
		}
	}
	exit := 0
	var lines []string
	confirmed, spurious, validated, witnessMismatch := 0, 0, 0, 0
	var inconclusive []string
	knownPrinted := map[string]bool{}
	var kfList []string
	for _, p := range pend {
		nr := p.item.res
		switch p.kind {
		case "violation":
			if nr == nil {
				if noNative {
					lines = append(lines, fmt.Sprintf("UNCONFIRMED-VIOLATION property=%s harness=%s label=%s replay=%s", prop, p.item.harness, p.label, p.item.file))
				} else {
					inconclusive = append(inconclusive, fmt.Sprintf("%s: counterexample for %s could not be replayed: %s", p.item.harness, p.label, p.item.err))
				}
				continue
			}
			ok := false
			if p.viol.Kind == "panic" {
				ok = nr.Panic != "" && len(nr.PanicKF) == 0
			} else {
				ok = contains(nr.Failures, p.label)
			}
			if ok {
				confirmed++
				exit = 1
				lines = append(lines, fmt.Sprintf("VIOLATION property=%s replay=%s", prop, p.item.file))
				lines = append(lines, fmt.Sprintf("  harness=%s config=%v %s=%s %s inputs=%s", p.item.harness, p.job.config, p.viol.Kind, p.label, p.viol.Message, compactJSON(p.viol.Inputs)))
			} else {
				spurious++
				inconclusive = append(inconclusive, fmt.Sprintf("%s: solver counterexample for %q did not reproduce natively (encoding or stub mismatch): native=%s replay=%s", p.item.harness, p.label, compactJSON(nr), p.item.file))
			}
		case "known":
			kf, listed := known[p.kf]
			ok := false
			if nr != nil {
				for _, k := range nr.Known {
					if strings.HasPrefix(k, p.kf+":") {
						ok = true
					}
				}
				if contains(nr.PanicKF, p.kf) && nr.Panic != "" {
					ok = true
				}
			}
			if nr == nil && noNative {
				ok = true
			}
			if !ok {
				inconclusive = append(inconclusive, fmt.Sprintf("%s: known finding %s example did not reproduce natively: %s %s", p.item.harness, p.kf, compactJSON(nr), p.item.err))
				continue
			}
			if listed && kf.appliesTo(prop) {
				if !knownPrinted[p.kf] {
					knownPrinted[p.kf] = true
					kfList = append(kfList, p.kf)
					lines = append(lines, fmt.Sprintf("KNOWN-FINDING: property=%s %s (%s) example=%s", prop, kf.What, p.kf, compactJSON(p.viol.Inputs)))
				}
			} else {
				confirmed++
				exit = 1
				lines = append(lines, fmt.Sprintf("VIOLATION property=%s replay=%s", prop, p.item.file))
				lines = append(lines, fmt.Sprintf("  (region %s is not listed in known_findings.jsonl) harness=%s inputs=%s", p.kf, p.item.harness, compactJSON(p.viol.Inputs)))
			}
		case "witness":
			if nr == nil {
				continue
			}
			if contains(nr.Reached, p.label) && !nr.Assume {
				validated++
			} else {
				witnessMismatch++
				inconclusive = append(inconclusive, fmt.Sprintf("%s: witness for %q did not reproduce natively: %s replay=%s", p.item.harness, p.label, compactJSON(nr), p.item.file))
			}
		}
	}
	// aggregate
	var states, transitions, obligations, discharged, queries, ext, unknowns, merges, forks, unwind int
	var solverS float64
	fnSet := map[string]bool{}
	stubSet := map[string]bool{}
	var samples []interface{}
	var vacuous []string
	type jobSummary struct {
		Harness      string            `json:"harness"`
		Config       map[string]string `json:"config,omitempty"`
		Paths        int               `json:"paths"`
		Steps        int64             `json:"ssa_instructions"`
		Obligations  int               `json:"obligations"`
		Discharged   int               `json:"discharged"`
		Queries      int               `json:"queries"`
		SolverS      float64           `json:"solver_s"`
		WallS        float64           `json:"wall_s"`
		Aborted      string            `json:"aborted,omitempty"`
		Inconclusive []string          `json:"inconclusive,omitempty"`
		Bounds       map[string]string `json:"bounds,omitempty"`
		Reached      []string          `json:"reached,omitempty"`
		Unreached    []string          `json:"unreached,omitempty"`
	}
	var sums []jobSummary
	reachAgg := map[string]bool{} // witness label -> reached in at least one configuration of the harness
	for _, j := range jobs {
		r := j.res
		rep := r.Report
		states += r.Stats.Paths + r.Stats.Merges + r.Stats.Forks
		transitions += int(r.Stats.Steps)
		obligations += rep.Obligations
		discharged += rep.Discharged
		queries += r.Queries
		ext += r.External
		unknowns += r.Unknowns
		merges += r.Stats.Merges
		forks += r.Stats.Forks
		unwind += rep.UnwindFailures
		solverS += r.SolverS
		for _, f := range r.Functions {
			fnSet[f] = true
		}
		for _, s := range rep.Stubs {
			stubSet[s] = true
		}
		js := jobSummary{Harness: r.Harness, Config: j.config, Paths: r.Stats.Paths, Steps: r.Stats.Steps, Obligations: rep.Obligations, Discharged: rep.Discharged,
			Queries: r.Queries, SolverS: round3(r.SolverS), WallS: round3(r.WallS), Aborted: r.Aborted, Inconclusive: rep.Inconclusive, Bounds: j.spec.Opts}
		for l, ok := range rep.ReachLabels {
			key := r.Harness + ":" + l
			if ok {
				js.Reached = append(js.Reached, l)
				reachAgg[key] = true
			} else {
				js.Unreached = append(js.Unreached, l)
				if _, seen := reachAgg[key]; !seen {
					reachAgg[key] = false
				}
			}
		}
		sort.Strings(js.Reached)
		sort.Strings(js.Unreached)
		sums = append(sums, js)
		for _, m := range rep.Inconclusive {
			inconclusive = append(inconclusive, fmt.Sprintf("%s %v: %s", r.Harness, j.config, m))
		}
		if r.Aborted != "" && verbose {
			fmt.Fprintf(os.Stderr, "ABORT %s %v: %s\n  %s\n", r.Harness, j.config, r.Aborted, strings.Join(r.AbortStack, "\n  "))
		}
		if len(samples) < 12 {
			var labels []string
			for l := range rep.Reached {
				labels = append(labels, l)
			}
			sort.Strings(labels)
			for _, l := range labels {
				if len(samples) < 12 {
					samples = append(samples, map[string]interface{}{"harness": r.Harness, "config": j.config, "witness_for": l, "inputs": rep.Reached[l]})
					break
				}
			}
		}
	}
	for k, ok := range reachAgg {
		if !ok {
			vacuous = append(vacuous, k)
		}
	}
	sort.Strings(vacuous)
	if len(samples) == 0 {
		samples = append(samples, map[string]interface{}{"note": "no witness inputs were produced in this run", "harnesses": len(jobs)})
	}
	var fns, stubs []string
	for f := range fnSet {
		fns = append(fns, f)
	}
	sort.Strings(fns)
	for s := range stubSet {
		stubs = append(stubs, s)
	}
	sort.Strings(stubs)
	sort.Strings(inconclusive)
	if states < 1 {
		states = 1
	}
	if transitions < 1 {
		transitions = 1
	}
	ev := map[string]interface{}{
		"property_id": prop,
		"tier":        tier,
		"seed":        seed,
		"level":       "model_checking",
		"wall_s":      round3(time.Since(t0).Seconds()),
		"violations":  confirmed,
		"coverage": map[string]interface{}{
			"states":                        states,
			"transitions":                   transitions,
			"traces_validated_against_impl": validated + confirmed + len(kfList),
			"samples":                       samples,
			"obligations":                   obligations,
			"discharged":                    discharged,
			"harness_runs":                  len(jobs),
			"symbolic_paths_forked":         forks,
			"state_merges":                  merges,
			"solver_queries":                queries,
			"solver_external_portfolio":     ext,
			"solver_unknown":                unknowns,
			"solver_time_s":                 round3(solverS),
			"unwinding_assertion_failures":  unwind,
			"functions_encoded":             fns,
			"stubs_used":                    stubs,
			"known_findings_reproduced":     kfList,
			"spurious_counterexamples":      spurious,
			"witness_replay_mismatches":     witnessMismatch,
			"vacuous_witnesses":             vacuous,
			"inconclusive":                  inconclusive,
			"harnesses":                     sums,
			"explanation":                   "Each harness is executed symbolically over the go/ssa form of the current /repo tree; inputs are solver variables; every vpAssert and every reachable Go panic is a QF_BV query (unsat = holds for all inputs within the stated bounds). states = symbolic paths + forks + merges; transitions = SSA instructions executed symbolically.",
		},
		"assumptions": []string{
			"go/ssa lowering and the gosym instruction semantics (validated by native replay of witnesses and counterexamples)",
			"bounds given per harness under coverage.harnesses[].bounds and in the harness source; inputs beyond them are outside the claim",
			"stubs/idealisations listed in coverage.stubs_used and DESIGN.md section 3",
			"z3 4.8.12 (incremental) with z3/cvc5 portfolio for queries it cannot decide",
		},
	}
	os.MkdirAll(filepath.Join(vdir, "evidence"), 0o755)
	out, _ := json.MarshalIndent(ev, "", " ")
	os.WriteFile(filepath.Join(vdir, "evidence", prop+".json"), out, 0o644)
	for _, l := range lines {
		fmt.Println(l)
	}
	for _, m := range inconclusive {
		fmt.Println("INCONCLUSIVE:", m)
	}
	for _, v := range vacuous {
		fmt.Println("VACUOUS-WITNESS:", v)
	}
	fmt.Printf("SUMMARY property=%s tier=%s harness_runs=%d obligations=%d discharged=%d violations=%d known=%d inconclusive=%d queries=%d solver_s=%.1f wall_s=%.1f\n",
		prop, tier, len(jobs), obligations, discharged, confirmed, len(kfList), len(inconclusive), queries, solverS, time.Since(t0).Seconds())
	return exit
}

func contains(l []string, s string) bool {
	for _, x := range l {
		if x == s {
			return true
		}
	}
	return false
}

func compactJSON(v interface{}) string {
	b, _ := json.Marshal(v)
	if len(b) > 600 {
		return string(b[:600]) + "..."
	}
	return string(b)
}

func round3(f float64) float64 { return float64(int64(f*1000+0.5)) / 1000 }
