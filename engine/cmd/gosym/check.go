package main

import (
	"bufio"
	"encoding/json"
	"flag"
	"fmt"
	"os"
	"os/exec"
	"path/filepath"
	"regexp"
	"sort"
	"strconv"
	"strings"
	"sync"
	"time"

	"gosym/sym"
)

// harnessSpec is parsed from a "// vp:check" directive above a harness function.
type harnessSpec struct {
	Property string
	Tier     string // quick | thorough | both
	Sub      string // harness sub-directory (root, spec, fclient, tokens)
	Func     string
	Opts     map[string]string
	File     string
}

var directiveRe = regexp.MustCompile(`^//\s*vp:check\s+(.*)$`)
var funcRe = regexp.MustCompile(`^func\s+(vp_[A-Za-z0-9_]+)\s*\(\s*\)`)

var subPkg = map[string]string{"root": sym.RepoModule, "spec": sym.RepoModule + "/spec", "fclient": sym.RepoModule + "/fclient", "tokens": sym.RepoModule + "/tokens"}
var subDir = map[string]string{"root": "", "spec": "spec", "fclient": "fclient", "tokens": "tokens"}
var subPkgName = map[string]string{"root": "gomatrixserverlib", "spec": "spec", "fclient": "fclient", "tokens": "tokens"}

func scanHarnesses(hdir string) ([]harnessSpec, map[string][]string, error) {
	var specs []harnessSpec
	funcs := map[string][]string{} // sub -> all harness funcs
	for sub := range subPkg {
		files, _ := filepath.Glob(filepath.Join(hdir, sub, "*.go"))
		sort.Strings(files)
		for _, f := range files {
			fh, err := os.Open(f)
			if err != nil {
				return nil, nil, err
			}
			sc := bufio.NewScanner(fh)
			sc.Buffer(make([]byte, 1<<20), 1<<20)
			var pending []string
			for sc.Scan() {
				line := sc.Text()
				if m := directiveRe.FindStringSubmatch(line); m != nil {
					pending = append(pending, m[1])
					continue
				}
				if m := funcRe.FindStringSubmatch(line); m != nil {
					funcs[sub] = append(funcs[sub], m[1])
					for _, d := range pending {
						fields := strings.Fields(d)
						if len(fields) < 1 {
							continue
						}
						hs := harnessSpec{Property: fields[0], Tier: "both", Sub: sub, Func: m[1], Opts: map[string]string{}, File: f}
						for _, fl := range fields[1:] {
							switch {
							case fl == "quick" || fl == "thorough" || fl == "both":
								hs.Tier = fl
							case strings.Contains(fl, "="):
								i := strings.Index(fl, "=")
								hs.Opts[fl[:i]] = fl[i+1:]
							default:
								hs.Opts[fl] = "1"
							}
						}
						specs = append(specs, hs)
					}
					pending = nil
					continue
				}
				if strings.TrimSpace(line) != "" && !strings.HasPrefix(strings.TrimSpace(line), "//") {
					pending = nil
				}
			}
			fh.Close()
		}
	}
	return specs, funcs, nil
}

type job struct {
	spec   harnessSpec
	config map[string]string
	res    *sym.RunResult
}

type knownFinding struct {
	Status   string `json:"status"`
	ID       string `json:"id"`
	Property string `json:"property"`
	What     string `json:"what"`
	Commit   string `json:"commit,omitempty"`
	Also     []string `json:"also,omitempty"` // further properties whose checks exercise the same finding
}

func (k knownFinding) appliesTo(prop string) bool {
	if k.Property == prop {
		return true
	}
	for _, p := range k.Also {
		if p == prop {
			return true
		}
	}
	return false
}

func loadKnown(path string) map[string]knownFinding {
	res := map[string]knownFinding{}
	f, err := os.Open(path)
	if err != nil {
		return res
	}
	defer f.Close()
	sc := bufio.NewScanner(f)
	sc.Buffer(make([]byte, 1<<20), 1<<20)
	for sc.Scan() {
		line := strings.TrimSpace(sc.Text())
		if line == "" || strings.HasPrefix(line, "#") {
			continue
		}
		var kf knownFinding
		if json.Unmarshal([]byte(line), &kf) == nil && kf.Status == "known" {
			res[kf.ID] = kf
		}
	}
	return res
}

func expandConfigs(opts map[string]string, tier string) []map[string]string {
	// configs=name:a|b|c[;name2:x|y]
	spec := opts["configs"]
	if t, ok := opts["configs."+tier]; ok {
		spec = t
	}
	if spec == "" {
		return []map[string]string{{}}
	}
	res := []map[string]string{{}}
	for _, part := range strings.Split(spec, ";") {
		i := strings.Index(part, ":")
		name, vals := part[:i], strings.Split(part[i+1:], "|")
		if len(vals) == 1 && vals[0] == "ALLVERSIONS" {
			vals = allVersions
		}
		if len(vals) == 1 && vals[0] == "STABLEVERSIONS" {
			vals = stableVersions
		}
		var next []map[string]string
		for _, r := range res {
			for _, v := range vals {
				m := map[string]string{}
				for k, x := range r {
					m[k] = x
				}
				m[name] = v
				next = append(next, m)
			}
		}
		res = next
	}
	return res
}

var stableVersions = []string{"1", "2", "3", "4", "5", "6", "7", "8", "9", "10", "11", "12"}
var allVersions = append(append([]string{}, stableVersions...), "org.matrix.msc3667", "org.matrix.msc3787", "org.matrix.msc4014", "org.matrix.hydra.11")

func optInt(opts map[string]string, tier, key string, def int) int {
	if v, ok := opts[key+"."+tier]; ok {
		n, _ := strconv.Atoi(v)
		return n
	}
	if v, ok := opts[key]; ok {
		n, _ := strconv.Atoi(v)
		return n
	}
	return def
}

func checkCmd(args []string) int {
	fs := flag.NewFlagSet("check", flag.ExitOnError)
	repo := fs.String("repo", "/repo", "repository root")
	vdir := fs.String("verif", "/verif", "verification root")
	tier := fs.String("tier", "quick", "quick|thorough")
	only := fs.String("only", "", "run only harnesses whose name contains this")
	replay := fs.String("replay", "", "replay file")
	workers := fs.Int("j", 16, "parallel workers")
	verbose := fs.Bool("v", false, "verbose")
	noNative := fs.Bool("no-native", false, "skip native replay (debugging only; violations are then unconfirmed)")
	if len(args) < 1 {
		fmt.Fprintln(os.Stderr, "usage: gosym check <property> [--tier quick|thorough]")
		return 2
	}
	prop := args[0]
	fs.Parse(args[1:])
	if env := os.Getenv("VERIF_TIER"); env != "" && !flagSet(fs, "tier") {
		*tier = env
	}
	seed := 0
	if s := os.Getenv("VERIF_SEED"); s != "" {
		seed, _ = strconv.Atoi(s)
	}
	hdir := filepath.Join(*vdir, "harness")
	if *replay != "" {
		return replayCmd(*repo, *vdir, prop, *replay)
	}
	t0 := time.Now()
	specs, funcs, err := scanHarnesses(hdir)
	if err != nil {
		fmt.Fprintln(os.Stderr, err)
		return 2
	}
	var jobs []*job
	for _, hs := range specs {
		if hs.Property != prop {
			continue
		}
		if hs.Tier != "both" && hs.Tier != *tier {
			continue
		}
		if *only != "" && !strings.Contains(hs.Func, *only) {
			continue
		}
		for _, c := range expandConfigs(hs.Opts, *tier) {
			jobs = append(jobs, &job{spec: hs, config: c})
		}
	}
	if len(jobs) == 0 {
		fmt.Fprintf(os.Stderr, "no harnesses for property %s tier %s\n", prop, *tier)
		return 2
	}
	// deterministic order, rotated by seed
	if seed != 0 && len(jobs) > 1 {
		k := seed % len(jobs)
		if k < 0 {
			k += len(jobs)
		}
		jobs = append(jobs[k:], jobs[:k]...)
	}
	loadmod := filepath.Join(*vdir, "engine", "loadmod")
	ld, err := sym.Load(*repo, hdir, loadmod)
	if err != nil {
		fmt.Fprintln(os.Stderr, "load:", err)
		return 2
	}
	dropped := map[string]bool{}
	for _, d := range ld.Dropped {
		dropped[d] = true
		fmt.Printf("NOTE: harness file %s does not type-check against the current tree; its harnesses are not run\n", d)
	}
	scratch := filepath.Join(*vdir, "replay", "tmp")
	os.MkdirAll(scratch, 0o755)
	var wg sync.WaitGroup
	sem := make(chan struct{}, *workers)
	for _, j := range jobs {
		if dropped[j.spec.File] {
			j.res = &sym.RunResult{Harness: j.spec.Func, Config: j.config, Report: &sym.Report{Inconclusive: []string{"harness file dropped (does not type-check)"}}, Aborted: "dropped"}
			continue
		}
		wg.Add(1)
		go func(j *job) {
			defer wg.Done()
			sem <- struct{}{}
			defer func() { <-sem }()
			j.res = runJob(ld, j, *tier, scratch, *verbose)
		}(j)
	}
	wg.Wait()
	return finish(*repo, *vdir, prop, *tier, seed, jobs, funcs, t0, *noNative, *verbose)
}

func flagSet(fs *flag.FlagSet, name string) bool {
	found := false
	fs.Visit(func(f *flag.Flag) {
		if f.Name == name {
			found = true
		}
	})
	return found
}

func runJob(ld *sym.Loaded, j *job, tier, scratch string, verbose bool) (res *sym.RunResult) {
	defer func() {
		if r := recover(); r != nil {
			res = &sym.RunResult{Harness: j.spec.Func, Config: j.config, Report: &sym.Report{Inconclusive: []string{fmt.Sprintf("engine internal error: %v", r)}}, Aborted: fmt.Sprintf("internal error: %v", r)}
		}
	}()
	p := ld.Pkgs[subPkg[j.spec.Sub]]
	if p == nil {
		return &sym.RunResult{Harness: j.spec.Func, Report: &sym.Report{}, Aborted: "package not loaded"}
	}
	f := p.Func(j.spec.Func)
	if f == nil {
		return &sym.RunResult{Harness: j.spec.Func, Report: &sym.Report{}, Aborted: "function not found"}
	}
	c := sym.DefaultConfig()
	c.LoopBound = optInt(j.spec.Opts, tier, "K", c.LoopBound)
	c.MaxDepth = optInt(j.spec.Opts, tier, "D", c.MaxDepth)
	c.MaxConcretize = optInt(j.spec.Opts, tier, "concretize", c.MaxConcretize)
	c.TimeoutS = optInt(j.spec.Opts, tier, "timeout", 600)
	if _, ok := j.spec.Opts["nomerge"]; ok {
		c.Merge = false
	}
	if _, ok := j.spec.Opts["symlen"]; ok {
		c.SymbolicLen = true
	}
	if j.spec.Opts["codec"] == "real" {
		c.RealTokenCodec = true
	}
	if j.spec.Opts["spelling"] == "1" {
		c.Spellings = true
	}
	if j.spec.Opts["races"] == "1" {
		c.Races = true
	}
	if j.spec.Opts["clock"] == "fixed" {
		c.FixedClock = true
	}
	if j.spec.Opts["clock"] == "ticking" {
		c.FixedClock, c.TickingClock = true, true
	}
	if j.spec.Opts["panics"] == "assume" {
		c.PanicsAssume = true
	}
	if mo := j.spec.Opts["maporder"]; mo != "" {
		c.MapOrderFns = map[string]bool{}
		for _, fn := range strings.Split(mo, "|") {
			c.MapOrderFns[fn] = true
		}
	}
	e, err := sym.NewEngine(ld.Prog, c, scratch)
	if err != nil {
		return &sym.RunResult{Harness: j.spec.Func, Report: &sym.Report{}, Aborted: err.Error()}
	}
	defer e.Close()
	if tier == "thorough" {
		e.SetCrossCheck(true)
	}
	res = e.RunHarness(f, j.config)
	if verbose {
		fmt.Fprintf(os.Stderr, "[%s %v] %.1fs paths=%d steps=%d queries=%d viol=%d aborted=%q\n", j.spec.Func, j.config, res.WallS, res.Stats.Paths, res.Stats.Steps, res.Queries, len(res.Report.Violations), res.Aborted)
	}
	return res
}

// ---------------------------------------------------------------------------
// native replay

type nativeResult struct {
	Harness  string   `json:"harness"`
	Failures []string `json:"failures"`
	Known    []string `json:"known"`
	Panic    string   `json:"panic"`
	PanicAt  []string `json:"panic_at,omitempty"`
	PanicKF  []string `json:"panic_kf"`
	Assume   bool     `json:"assume_failed"`
	Reached  []string `json:"reached"`
}

type replayItem struct {
	sub     string
	harness string
	file    string
	res     *nativeResult
	err     string
}

// prepareOverlay writes the overlay JSON used for native builds of one package and returns its path.
func prepareOverlay(repo, vdir string, funcs map[string][]string) (string, error) {
	tmp := filepath.Join(vdir, "replay", "tmp", "native")
	os.RemoveAll(tmp)
	if err := os.MkdirAll(tmp, 0o755); err != nil {
		return "", err
	}
	repl := map[string]string{}
	hdir := filepath.Join(vdir, "harness")
	tmpl, err := os.ReadFile(filepath.Join(hdir, "vp_api.go.tmpl"))
	if err != nil {
		return "", err
	}
	for sub := range subPkg {
		d := filepath.Join(tmp, sub)
		os.MkdirAll(d, 0o755)
		api := filepath.Join(d, "zz_vp_api.go")
		os.WriteFile(api, []byte(strings.Replace(string(tmpl), "PKGNAME", subPkgName[sub], 1)), 0o644)
		repl[filepath.Join(repo, subDir[sub], "zz_vp_api.go")] = api
		files, _ := filepath.Glob(filepath.Join(hdir, sub, "*.go"))
		for _, f := range files {
			repl[filepath.Join(repo, subDir[sub], "zz_"+filepath.Base(f))] = f
		}
		var sb strings.Builder
		sb.WriteString("//go:build verif\n\npackage " + subPkgName[sub] + "\n\nimport (\n\t\"bufio\"\n\t\"fmt\"\n\t\"os\"\n\t\"strings\"\n\t\"testing\"\n)\n\n")
		sb.WriteString("var vpHarnesses = map[string]func(){\n")
		fl := append([]string{}, funcs[sub]...)
		sort.Strings(fl)
		for _, fn := range fl {
			sb.WriteString(fmt.Sprintf("\t%q: %s,\n", fn, fn))
		}
		sb.WriteString("}\n\n")
		sb.WriteString(`func TestVPReplay(t *testing.T) {
	f, err := os.Open(os.Getenv("VP_BATCH"))
	if err != nil {
		t.Fatal(err)
	}
	defer f.Close()
	sc := bufio.NewScanner(f)
	prevLine := ""
	vpLastProblem = false
	for sc.Scan() {
		parts := strings.SplitN(sc.Text(), "\t", 2)
		if len(parts) != 2 {
			continue
		}
		fn := vpHarnesses[parts[0]]
		if fn == nil {
			continue
		}
		if sc.Text() == prevLine && vpLastProblem {
			// a repeated replay that has already shown the problem: no need to run it again
			fmt.Printf("VP-RESULT: {\"harness\":%q,\"skipped\":true}\n", parts[0])
			continue
		}
		prevLine = sc.Text()
		os.Setenv("VP_REPLAY", parts[1])
		vpLoaded = false
		vpFailures, vpKnownHit, vpActiveKF = nil, nil, nil
		vpReached = map[string]bool{}
		vpUse = map[string]int{}
		vpRunNative(parts[0], fn)
	}
}
`)
		tf := filepath.Join(d, "zz_vp_replay_test.go")
		os.WriteFile(tf, []byte(sb.String()), 0o644)
		repl[filepath.Join(repo, subDir[sub], "zz_vp_replay_test.go")] = tf
	}
	ov, _ := json.Marshal(map[string]interface{}{"Replace": repl})
	p := filepath.Join(tmp, "overlay.json")
	return p, os.WriteFile(p, ov, 0o644)
}

// runNative replays all items of one package in a single go test invocation.
// nativeRepeats: a counterexample that depends on a nondeterministic choice the native run cannot control (map
// iteration order, goroutine schedule) is replayed several times; it counts as reproduced if any run shows it.
const nativeRepeats = 200

func replayIsNondet(file string) bool {
	data, err := os.ReadFile(file)
	if err != nil {
		return false
	}
	var doc struct {
		Inputs map[string]interface{} `json:"inputs"`
	}
	if json.Unmarshal(data, &doc) != nil {
		return false
	}
	for k := range doc.Inputs {
		if strings.HasPrefix(k, "maporder") || strings.HasPrefix(k, "sched") {
			return true
		}
	}
	return false
}

func nativeShowsProblem(nr *nativeResult) bool {
	return nr != nil && (len(nr.Failures) > 0 || nr.Panic != "")
}

func runNative(repo, vdir, sub string, items []*replayItem, overlay string) {
	if len(items) > 1 {
		// the race detector reports a given race once per process: data-race items get a process each
		var rest []*replayItem
		for _, it := range items {
			if strings.Contains(it.harness, "_race") {
				runNative(repo, vdir, sub, []*replayItem{it}, overlay)
			} else {
				rest = append(rest, it)
			}
		}
		if len(rest) < len(items) {
			if len(rest) > 0 {
				runNative(repo, vdir, sub, rest, overlay)
			}
			return
		}
	}
	batch := filepath.Join(vdir, "replay", "tmp", "native", "batch-"+sub+".txt")
	var sb strings.Builder
	var owner []int // batch line -> item
	for i, it := range items {
		n := 1
		if replayIsNondet(it.file) {
			n = nativeRepeats
		}
		for k := 0; k < n; k++ {
			sb.WriteString(it.harness + "\t" + it.file + "\n")
			owner = append(owner, i)
		}
	}
	os.WriteFile(batch, []byte(sb.String()), 0o644)
	pkg := "./" + subDir[sub]
	if subDir[sub] == "" {
		pkg = "."
	}
	args := []string{"test", "-v", "-tags", "verif", "-vet=off", "-count=1", "-run", "^TestVPReplay$", "-timeout", "20m", "-overlay", overlay}
	for _, it := range items {
		if strings.Contains(it.harness, "_race") {
			// harnesses about data races are replayed under the race detector
			args = append(args, "-race")
			break
		}
	}
	cmd := exec.Command("go", append(args, pkg)...)
	cmd.Dir = repo
	cmd.Env = append(os.Environ(), "GOFLAGS=-mod=readonly", "GOPROXY=off", "GOSUMDB=off", "GOTOOLCHAIN=local", "VP_BATCH="+batch)
	out, err := cmd.CombinedOutput()
	idx := 0
	raceSeen := false
	for _, line := range strings.Split(string(out), "\n") {
		if strings.Contains(line, "WARNING: DATA RACE") {
			raceSeen = true // reported by the race detector while the current item ran
		}
		if strings.HasPrefix(line, "VP-RESULT: ") {
			var nr nativeResult
			if json.Unmarshal([]byte(strings.TrimPrefix(line, "VP-RESULT: ")), &nr) == nil && idx < len(owner) {
				if raceSeen && nr.Panic == "" {
					nr.Panic = "DATA RACE (go test -race)"
				}
				raceSeen = false
				it := items[owner[idx]]
				if it.res == nil || (!nativeShowsProblem(it.res) && nativeShowsProblem(&nr)) {
					it.res = &nr
				}
				idx++
			}
		}
	}
	if idx < len(owner) {
		msg := "native replay produced no result"
		if err != nil {
			tail := string(out)
			if len(tail) > 1500 {
				tail = tail[len(tail)-1500:]
			}
			msg = fmt.Sprintf("native replay failed: %v: %s", err, tail)
		}
		for ; idx < len(owner); idx++ {
			if it := items[owner[idx]]; it.res == nil {
				it.err = msg
			}
		}
	}
}

func writeReplay(vdir, prop, harness string, n int, config map[string]string, v *sym.Violation, kind string) string {
	dir := filepath.Join(vdir, "replay", prop)
	os.MkdirAll(dir, 0o755)
	in := map[string]interface{}{}
	for k, x := range v.Inputs {
		in[k] = x
	}
	for k, x := range config {
		in[k] = x
	}
	doc := map[string]interface{}{"property": prop, "harness": harness, "kind": kind, "label": v.Label, "message": v.Message, "inputs": in, "config": config}
	out, _ := json.MarshalIndent(doc, "", " ")
	p := filepath.Join(dir, fmt.Sprintf("%s-%s-%d.json", harness, kind, n))
	os.WriteFile(p, out, 0o644)
	return p
}

func harnessSub(vdir, harness string) string {
	_, funcs, _ := scanHarnesses(filepath.Join(vdir, "harness"))
	for sub, fl := range funcs {
		for _, f := range fl {
			if f == harness {
				return sub
			}
		}
	}
	return ""
}

func replayCmd(repo, vdir, prop, file string) int {
	data, err := os.ReadFile(file)
	if err != nil {
		fmt.Fprintln(os.Stderr, err)
		return 2
	}
	var doc struct {
		Harness string `json:"harness"`
		Label   string `json:"label"`
		Kind    string `json:"kind"`
	}
	json.Unmarshal(data, &doc)
	_, funcs, _ := scanHarnesses(filepath.Join(vdir, "harness"))
	sub := harnessSub(vdir, doc.Harness)
	if sub == "" {
		fmt.Fprintln(os.Stderr, "unknown harness", doc.Harness)
		return 2
	}
	ov, err := prepareOverlay(repo, vdir, funcs)
	if err != nil {
		fmt.Fprintln(os.Stderr, err)
		return 2
	}
	abs, _ := filepath.Abs(file)
	it := &replayItem{sub: sub, harness: doc.Harness, file: abs}
	runNative(repo, vdir, sub, []*replayItem{it}, ov)
	if it.res == nil {
		fmt.Println("replay error:", it.err)
		return 2
	}
	out, _ := json.Marshal(it.res)
	fmt.Println(string(out))
	if len(it.res.Failures) > 0 || (it.res.Panic != "" && len(it.res.PanicKF) == 0) {
		fmt.Printf("VIOLATION property=%s replay=%s\n", prop, abs)
		return 1
	}
	if len(it.res.Known) > 0 || len(it.res.PanicKF) > 0 {
		fmt.Printf("KNOWN-FINDING reproduced: property=%s %v %v\n", prop, it.res.Known, it.res.PanicKF)
	}
	return 0
}
