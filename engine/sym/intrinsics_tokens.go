package sym

import (
	"strconv"

	"golang.org/x/tools/go/ssa"
)

// Idealised macaroon MAC: keyedHash(key, text) and makeKey(variableKey) are injective keyed functions realised with
// the same fork-on-equality scheme as sha256 (intrinsics_crypto.go). The rest of gopkg.in/macaroon.v2 (New,
// AddFirstPartyCaveat, VerifySignature, ...) is interpreted from its real code.
//
// tokens.serializeMacaroon / deSerializeMacaroon are summarised as an ideal codec: a token string stands for exactly the
// macaroon value it was produced from; any other string fails to parse (byte-level forgery is outside the model).

func (e *Engine) arrayPtrBytes(st *State, p *PtrV) *StrV {
	arr := e.load(st, p).(*ArrayV)
	b := make([]*Term, len(arr.E))
	for i, x := range arr.E {
		b[i] = x.(*Term)
	}
	return &StrV{N: e.tb.Int64(int64(len(b))), B: b}
}

func init() {
	reg("gopkg.in/macaroon.v2.keyedHash", func(e *Engine, st *State, args []Value, fn *ssa.Function) []Outcome {
		key := e.arrayPtrBytes(st, args[0].(*PtrV))
		msg := e.sliceToStr(st, args[1].(*SliceV))
		var outs []Outcome
		for _, cs := range e.concStr(st, msg) {
			for _, r := range e.idealApply(cs.st, "mac", key, cs.s, 32) {
				id := e.alloc(r.st, e.byteArrayValue(r.out))
				outs = append(outs, Outcome{st: r.st, ret: &PtrV{Obj: id}})
			}
		}
		return outs
	})
	reg("gopkg.in/macaroon.v2.makeKey", func(e *Engine, st *State, args []Value, fn *ssa.Function) []Outcome {
		msg := e.sliceToStr(st, args[0].(*SliceV))
		var outs []Outcome
		for _, cs := range e.concStr(st, msg) {
			for _, r := range e.idealApply(cs.st, "mackey", e.StrConst("macaroons-key-generator"), cs.s, 32) {
				id := e.alloc(r.st, e.byteArrayValue(r.out))
				outs = append(outs, Outcome{st: r.st, ret: &PtrV{Obj: id}})
			}
		}
		return outs
	})
	tok := RepoModule + "/tokens."
	reg(tok+"serializeMacaroon", func(e *Engine, st *State, args []Value, fn *ssa.Function) []Outcome {
		if e.cfg.RealTokenCodec {
			return e.mergeOutcomes(e.execFunction(fn, args, nil, st))
		}
		e.rep.noteStub(tok + "serializeMacaroon (ideal codec)")
		e.cryptoCounter++
		name := "vp-token-" + strconv.Itoa(e.cryptoCounter)
		st.setAux("token:"+name, args[0])
		return []Outcome{e.errTuple(st, e.StrConst(name), nil)}
	})
	reg(tok+"deSerializeMacaroon", func(e *Engine, st *State, args []Value, fn *ssa.Function) []Outcome {
		if e.cfg.RealTokenCodec {
			return e.mergeOutcomes(e.execFunction(fn, args, nil, st))
		}
		e.rep.noteStub(tok + "deSerializeMacaroon (ideal codec)")
		s := args[0].(*StrV)
		zero := e.zero(fn.Signature.Results().At(0).Type())
		if c, ok := s.Concrete(); ok {
			if m, ok := st.aux["token:"+c]; ok {
				return []Outcome{e.errTuple(st, m, nil)}
			}
		}
		return []Outcome{e.errTuple(st, zero, e.newError(st, e.StrConst("not a serialised macaroon")))}
	})
	// vpClockAlign(second): the next clock reading falls in the given second of a minute (natively: waits for it)
	vpAPI["vpClockAlign"] = func(e *Engine, st *State, args []Value, fn *ssa.Function) []Outcome {
		st.setAux("clock.align", args[0])
		return one(st, nil)
	}
	// vpSleep(seconds): the next clock reading is exactly that many whole seconds after the previous one
	vpAPI["vpSleep"] = func(e *Engine, st *State, args []Value, fn *ssa.Function) []Outcome {
		st.setAux("clock.sleep", args[0])
		return one(st, nil)
	}
}
