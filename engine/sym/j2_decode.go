package sym

import (
	"go/types"
	"reflect"
	"sort"
	"strconv"
	"strings"
	"sync"

	"golang.org/x/tools/go/ssa"
)

// jField describes one JSON-visible field of a struct type (after embedded-struct promotion, as encoding/json does).
type jField struct {
	name      string
	index     []int
	typ       types.Type
	omitEmpty bool
	quoted    bool
	tagged    bool
}

func parseTag(tag string) (name string, opts string, skip bool) {
	v, ok := reflect.StructTag(tag).Lookup("json")
	if !ok {
		return "", "", false
	}
	if v == "-" {
		return "", "", true
	}
	if i := strings.Index(v, ","); i >= 0 {
		return v[:i], v[i+1:], false
	}
	return v, "", false
}

// jFieldCache is shared by the engines of parallel jobs
var jFieldCache sync.Map // string -> []jField

// structFields computes the JSON fields of a struct type following encoding/json's dominance rules.
func structFields(t types.Type) []jField {
	key := types.TypeString(t, nil)
	if c, ok := jFieldCache.Load(key); ok {
		return c.([]jField)
	}
	st := t.Underlying().(*types.Struct)
	type cand struct {
		f     jField
		depth int
	}
	var all []cand
	type qent struct {
		st    *types.Struct
		index []int
		depth int
	}
	queue := []qent{{st, nil, 0}}
	visited := map[*types.Struct]bool{}
	for len(queue) > 0 {
		q := queue[0]
		queue = queue[1:]
		if visited[q.st] {
			continue
		}
		visited[q.st] = true
		for i := 0; i < q.st.NumFields(); i++ {
			f := q.st.Field(i)
			name, opts, skip := parseTag(q.st.Tag(i))
			if skip {
				continue
			}
			idx := append(append([]int{}, q.index...), i)
			ft := f.Type()
			if f.Embedded() {
				et := ft
				if p, ok := et.Underlying().(*types.Pointer); ok {
					et = p.Elem()
				}
				if !f.Exported() {
					if _, isStruct := et.Underlying().(*types.Struct); !isStruct {
						continue
					}
				}
				if es, isStruct := et.Underlying().(*types.Struct); isStruct && name == "" {
					queue = append(queue, qent{es, idx, q.depth + 1})
					continue
				}
			} else if !f.Exported() {
				continue
			}
			tagged := name != ""
			if name == "" {
				name = f.Name()
			}
			all = append(all, cand{jField{name: name, index: idx, typ: ft, omitEmpty: strings.Contains(","+opts+",", ",omitempty,"),
				quoted: strings.Contains(","+opts+",", ",string,"), tagged: tagged}, q.depth})
		}
	}
	// dominance per name
	byName := map[string][]cand{}
	var order []string
	for _, c := range all {
		if _, ok := byName[c.f.name]; !ok {
			order = append(order, c.f.name)
		}
		byName[c.f.name] = append(byName[c.f.name], c)
	}
	var res []jField
	for _, n := range order {
		cs := byName[n]
		minD := cs[0].depth
		for _, c := range cs {
			if c.depth < minD {
				minD = c.depth
			}
		}
		var top, topTagged []cand
		for _, c := range cs {
			if c.depth == minD {
				top = append(top, c)
				if c.f.tagged {
					topTagged = append(topTagged, c)
				}
			}
		}
		switch {
		case len(top) == 1:
			res = append(res, top[0].f)
		case len(topTagged) == 1:
			res = append(res, topTagged[0].f)
		}
	}
	sort.SliceStable(res, func(i, j int) bool {
		a, b := res[i].index, res[j].index
		for k := 0; k < len(a) && k < len(b); k++ {
			if a[k] != b[k] {
				return a[k] < b[k]
			}
		}
		return len(a) < len(b)
	})
	jFieldCache.Store(key, res)
	return res
}

type decOut struct {
	st  *State
	v   Value
	err Value // nil or error interface value
}

func (e *Engine) jsonErr(st *State, msg string) Value {
	return e.newError(st, e.StrConst("json: "+msg))
}

var anyType = types.NewInterfaceType(nil, nil)

func (e *Engine) typeOfAny() types.Type { return anyType }

// hasMethod returns the method fn if type t has a method with the given name in its method set.
func (e *Engine) methodOf(t types.Type, name string) *ssa.Function {
	return e.findMethod(t, name)
}

// fieldPtrPath: navigate/update nested struct values functionally.
func getField(v Value, index []int, e *Engine, t types.Type) (Value, bool) {
	cur := v
	ct := t
	for _, i := range index {
		if p, ok := cur.(*PtrV); ok {
			_ = p
			return nil, false // embedded pointers handled by caller
		}
		sv := cur.(*StructV)
		cur = sv.F[i]
		ct = ct.Underlying().(*types.Struct).Field(i).Type()
	}
	return cur, true
}

func setField(v Value, index []int, nv Value) Value {
	if len(index) == 0 {
		return nv
	}
	sv := v.(*StructV)
	f := make([]Value, len(sv.F))
	copy(f, sv.F)
	f[index[0]] = setField(sv.F[index[0]], index[1:], nv)
	return &StructV{F: f}
}

func hasEmbeddedPtr(t types.Type, index []int) bool {
	ct := t
	for _, i := range index[:len(index)-1] {
		ft := ct.Underlying().(*types.Struct).Field(i).Type()
		if _, ok := ft.Underlying().(*types.Pointer); ok {
			return true
		}
		ct = ft
	}
	return false
}

// decode stores JSON value n into a Go value of type t whose current value is cur.
func (e *Engine) decode(st *State, n *JNode, t types.Type, cur Value) []decOut {
	tb := e.tb
	// json.RawMessage and other Unmarshalers
	if um := e.unmarshalerFor(t); um != nil {
		if _, isPtr := t.Underlying().(*types.Pointer); !(isPtr && n.Kind == JNull) {
			return e.callUnmarshaler(st, um, n, t, cur)
		}
	}
	if n.Kind == JNull {
		switch t.Underlying().(type) {
		case *types.Pointer, *types.Map, *types.Slice, *types.Interface:
			return []decOut{{st, e.zero(t), nil}}
		}
		return []decOut{{st, cur, nil}}
	}
	switch u := t.Underlying().(type) {
	case *types.Pointer:
		p := cur.(*PtrV)
		var inner Value
		if p.IsNil() {
			inner = e.zero(u.Elem())
		} else {
			inner = e.load(st, p)
		}
		var res []decOut
		for _, d := range e.decode(st, n, u.Elem(), inner) {
			np := p
			if p.IsNil() {
				np = &PtrV{Obj: e.alloc(d.st, d.v)}
			} else {
				e.store(d.st, p, d.v)
			}
			res = append(res, decOut{d.st, np, d.err})
		}
		return res
	case *types.Interface:
		if u.NumMethods() != 0 {
			return []decOut{{st, cur, e.jsonErr(st, "cannot unmarshal into non-empty interface")}}
		}
		// encoding/json decodes into the existing pointer if the interface holds a non-nil pointer; otherwise generic
		if iv, ok := cur.(*IfaceV); ok && iv.T != nil {
			if _, isPtr := iv.T.Underlying().(*types.Pointer); isPtr && !iv.V.(*PtrV).IsNil() {
				var res []decOut
				for _, d := range e.decode(st, n, iv.T, iv.V) {
					res = append(res, decOut{d.st, &IfaceV{T: iv.T, V: d.v}, d.err})
				}
				return res
			}
		}
		return e.decodeAny(st, n)
	case *types.Struct:
		if n.Kind != JObj {
			return []decOut{{st, cur, e.jsonErr(st, "cannot unmarshal non-object into Go struct "+t.String())}}
		}
		fields := structFields(t)
		outs := []decOut{{st, cur, nil}}
		for mi := range n.Keys {
			var next []decOut
			for _, o := range outs {
				next = append(next, e.decodeMember(o, n.Keys[mi], n.Vals[mi], t, fields)...)
			}
			outs = next
		}
		return outs
	case *types.Map:
		if n.Kind != JObj {
			return []decOut{{st, cur, e.jsonErr(st, "cannot unmarshal non-object into Go map")}}
		}
		m := cur.(*MapV)
		if m.IsNil() {
			m = &MapV{Obj: e.alloc(st, &MapObj{})}
		}
		outs := []decOut{{st, m, nil}}
		for mi := range n.Keys {
			var next []decOut
			for _, o := range outs {
				for _, k := range e.decodeMapKey(o.st, n.Keys[mi], u.Key()) {
					if k.err != nil {
						next = append(next, decOut{k.st, m, firstErr(o.err, k.err)})
						continue
					}
					for _, d := range e.decode(k.st, n.Vals[mi], u.Elem(), e.zero(u.Elem())) {
						for _, up := range e.mapUpdate(d.st, m, k.v, d.v) {
							next = append(next, decOut{up.st, m, firstErr(o.err, d.err)})
						}
					}
				}
			}
			outs = next
		}
		return outs
	case *types.Slice:
		if eb, ok := u.Elem().Underlying().(*types.Basic); ok && eb.Kind() == types.Uint8 && n.Kind == JStr {
			if c, ok := n.Str.Concrete(); ok {
				dec, err := base64StdDecode(c)
				if err != nil {
					return []decOut{{st, cur, e.jsonErr(st, "illegal base64 data")}}
				}
				return []decOut{{st, e.newByteSlice(st, e.StrConst(string(dec))), nil}}
			}
			panic(e.abort("J2: []byte from symbolic base64 string"))
		}
		if n.Kind != JArr {
			return []decOut{{st, cur, e.jsonErr(st, "cannot unmarshal non-array into Go slice")}}
		}
		type acc struct {
			st   *State
			elts []Value
			err  Value
		}
		accs := []acc{{st, nil, nil}}
		for _, el := range n.Elems {
			var next []acc
			for _, a := range accs {
				for _, d := range e.decode(a.st, el, u.Elem(), e.zero(u.Elem())) {
					next = append(next, acc{d.st, append(a.elts[:len(a.elts):len(a.elts)], d.v), firstErr(a.err, d.err)})
				}
			}
			accs = next
		}
		var res []decOut
		for _, a := range accs {
			el := a.elts
			if el == nil {
				el = []Value{}
			}
			id := e.alloc(a.st, &ArrayV{E: el})
			res = append(res, decOut{a.st, &SliceV{Obj: id, N: tb.Int64(int64(len(el))), Cap: len(el)}, a.err})
		}
		return res
	case *types.Array:
		if n.Kind != JArr {
			return []decOut{{st, cur, e.jsonErr(st, "cannot unmarshal non-array into Go array")}}
		}
		panic(e.abort("J2: decode into array type %s", t))
	case *types.Basic:
		switch {
		case u.Info()&types.IsString != 0:
			if n.Kind != JStr {
				return []decOut{{st, cur, e.jsonErr(st, "cannot unmarshal non-string into Go string")}}
			}
			return []decOut{{st, n.Str, nil}}
		case u.Info()&types.IsBoolean != 0:
			if n.Kind != JBool {
				return []decOut{{st, cur, e.jsonErr(st, "cannot unmarshal non-bool into Go bool")}}
			}
			return []decOut{{st, n.B, nil}}
		case u.Info()&types.IsInteger != 0:
			if n.Kind != JNum || n.I == nil {
				return []decOut{{st, cur, e.jsonErr(st, "cannot unmarshal into Go integer")}}
			}
			w, signed, _ := e.width(t)
			var inRange *Term
			if signed {
				if w == 64 {
					inRange = tb.True
				} else {
					lo, hi := -(int64(1) << uint(w-1)), (int64(1)<<uint(w-1))-1
					inRange = tb.And(tb.Cmp(OpSLe, tb.Int64(lo), n.I), tb.Cmp(OpSLe, n.I, tb.Int64(hi)))
				}
			} else {
				// unsigned target: integers are modelled up to 2^63-1
				inRange = tb.Cmp(OpSLe, tb.Int64(0), n.I)
				if w < 64 {
					inRange = tb.And(inRange, tb.Cmp(OpSLe, n.I, tb.Int64(int64(mask(w)))))
				}
			}
			var res []decOut
			okSt, badSt := e.branch(st, inRange)
			if okSt != nil {
				res = append(res, decOut{okSt, tb.Resize(n.I, w, true), nil})
			}
			if badSt != nil {
				res = append(res, decOut{badSt, cur, e.jsonErr(badSt, "number out of range for Go integer")})
			}
			return res
		case u.Info()&types.IsFloat != 0:
			if n.Kind != JNum {
				return []decOut{{st, cur, e.jsonErr(st, "cannot unmarshal non-number into Go float")}}
			}
			return []decOut{{st, e.nodeFloat(n), nil}}
		}
	}
	panic(e.abort("J2: decode into unsupported type %s", t))
}

func firstErr(a, b Value) Value {
	if a != nil {
		return a
	}
	return b
}

// nodeFloat converts a number node to a float value: concrete -> FloatV, symbolic integer -> *SymFloatV.
func (e *Engine) nodeFloat(n *JNode) Value {
	if n.I != nil {
		if n.I.IsConst() {
			return FloatV(float64(n.I.SVal()))
		}
		return &SymFloatV{I: n.I}
	}
	if c, ok := n.Lit.Concrete(); ok {
		f, err := strconv.ParseFloat(c, 64)
		if err == nil {
			return FloatV(f)
		}
	}
	panic(e.abort("J2: symbolic non-integer number literal as float"))
}

// decodeAny decodes into interface{}.
func (e *Engine) decodeAny(st *State, n *JNode) []decOut {
	switch n.Kind {
	case JNull:
		return []decOut{{st, &IfaceV{}, nil}}
	case JBool:
		return []decOut{{st, &IfaceV{T: types.Typ[types.Bool], V: n.B}, nil}}
	case JNum:
		return []decOut{{st, &IfaceV{T: types.Typ[types.Float64], V: e.nodeFloat(n)}, nil}}
	case JStr:
		return []decOut{{st, &IfaceV{T: types.Typ[types.String], V: n.Str}, nil}}
	case JArr:
		t := types.NewSlice(anyType)
		var res []decOut
		for _, d := range e.decode(st, n, t, e.zero(t)) {
			res = append(res, decOut{d.st, &IfaceV{T: t, V: d.v}, d.err})
		}
		return res
	case JObj:
		t := types.NewMap(types.Typ[types.String], anyType)
		var res []decOut
		for _, d := range e.decode(st, n, t, e.zero(t)) {
			res = append(res, decOut{d.st, &IfaceV{T: t, V: d.v}, d.err})
		}
		return res
	}
	panic("decodeAny")
}

// decodeMember assigns one object member to the matching struct field (exact name, then ASCII case-insensitive).
func (e *Engine) decodeMember(o decOut, key *StrV, val *JNode, t types.Type, fields []jField) []decOut {
	assign := func(st *State, cur Value, f jField) []decOut {
		if hasEmbeddedPtr(t, f.index) {
			panic(e.abort("J2: field %s reached through embedded pointer", f.name))
		}
		old, _ := getField(cur, f.index, e, t)
		if f.quoted {
			panic(e.abort("J2: ,string option on field %s", f.name))
		}
		var res []decOut
		for _, d := range e.decode(st, val, f.typ, old) {
			res = append(res, decOut{d.st, setField(cur, f.index, d.v), firstErr(o.err, d.err)})
		}
		return res
	}
	if ck, ok := key.Concrete(); ok {
		for _, f := range fields {
			if f.name == ck {
				return assign(o.st, o.v, f)
			}
		}
		for _, f := range fields {
			if strings.EqualFold(f.name, ck) {
				return assign(o.st, o.v, f)
			}
		}
		return []decOut{o}
	}
	// symbolic key: fork on equality with each field name (ASCII case-insensitive, as encoding/json folds)
	var res []decOut
	cur := o.st
	for _, f := range fields {
		c := e.strEqFold(key, f.name)
		t1, f1 := e.branch(cur, c)
		if t1 != nil {
			res = append(res, assign(t1, o.v, f)...)
		}
		if f1 == nil {
			return res
		}
		cur = f1
	}
	return append(res, decOut{cur, o.v, o.err})
}

// strEqFold: s equals name ignoring ASCII case (non-ASCII folding such as U+212A is outside the model).
func (e *Engine) strEqFold(s *StrV, name string) *Term {
	t := e.tb
	r := t.Eq(s.N, t.Int64(int64(len(name))))
	if r.IsFalse() || len(name) > len(s.B) {
		return t.False
	}
	for i := 0; i < len(name); i++ {
		c := name[i]
		eq := t.Eq(s.B[i], t.Const(8, uint64(c)))
		switch {
		case c >= 'a' && c <= 'z':
			eq = t.Or(eq, t.Eq(s.B[i], t.Const(8, uint64(c-32))))
		case c >= 'A' && c <= 'Z':
			eq = t.Or(eq, t.Eq(s.B[i], t.Const(8, uint64(c+32))))
		}
		r = t.And(r, eq)
	}
	return r
}

func (e *Engine) decodeMapKey(st *State, key *StrV, kt types.Type) []decOut {
	if isString(kt) {
		return []decOut{{st, key, nil}}
	}
	if m := e.methodOf(types.NewPointer(kt), "UnmarshalText"); m != nil {
		tmp := e.alloc(st, e.zero(kt))
		var res []decOut
		for _, o := range e.callFunction(st, m, []Value{&PtrV{Obj: tmp}, e.newByteSlice(st, key)}, nil) {
			if o.panicked {
				panic(e.abort("J2: UnmarshalText panicked"))
			}
			var err Value
			if iv := o.ret.(*IfaceV); iv.T != nil {
				err = iv
			}
			res = append(res, decOut{o.st, e.get(o.st, tmp), err})
		}
		return res
	}
	if w, _, ok := e.width(kt); ok && w > 0 {
		if c, ok := key.Concrete(); ok {
			i, err := strconv.ParseInt(c, 10, 64)
			if err != nil {
				return []decOut{{st, nil, e.jsonErr(st, "bad integer map key")}}
			}
			return []decOut{{st, e.tb.Const(w, uint64(i)), nil}}
		}
	}
	panic(e.abort("J2: unsupported map key type %s", kt))
}

// unmarshalerFor returns the UnmarshalJSON method applicable to a value of type t (through *t), if any.
func (e *Engine) unmarshalerFor(t types.Type) *ssa.Function {
	if _, isIface := t.Underlying().(*types.Interface); isIface {
		return nil
	}
	pt := t
	if _, isPtr := t.Underlying().(*types.Pointer); !isPtr {
		pt = types.NewPointer(t)
	}
	m := e.methodOf(pt, "UnmarshalJSON")
	if m == nil {
		return nil
	}
	sig := m.Signature
	if sig.Params().Len() != 1 || sig.Results().Len() != 1 {
		return nil
	}
	return m
}

func (e *Engine) callUnmarshaler(st *State, m *ssa.Function, n *JNode, t types.Type, cur Value) []decOut {
	// receiver: pointer to the value
	var recv *PtrV
	isPtr := false
	if pt, ok := t.Underlying().(*types.Pointer); ok {
		isPtr = true
		p := cur.(*PtrV)
		if p.IsNil() {
			p = &PtrV{Obj: e.alloc(st, e.zero(pt.Elem()))}
		}
		recv = p
	} else {
		recv = &PtrV{Obj: e.alloc(st, cur)}
	}
	data := e.newDoc(st, n)
	var res []decOut
	for _, o := range e.callFunction(st, m, []Value{recv, data}, nil) {
		if o.panicked {
			// propagate as a decoding panic: surfaces at top level through the caller
			res = append(res, decOut{o.st, cur, &panicMarker{o}})
			continue
		}
		var err Value
		if iv := o.ret.(*IfaceV); iv.T != nil {
			err = iv
		}
		if isPtr {
			res = append(res, decOut{o.st, recv, err})
		} else {
			res = append(res, decOut{o.st, e.load(o.st, recv), err})
		}
	}
	return res
}

// panicMarker carries a panic that happened inside a user UnmarshalJSON/MarshalJSON method.
type panicMarker struct{ o Outcome }

// SymFloatV is a float64 whose value equals the (symbolic) integer I exactly (|I| < 2^53 assumed by users).
type SymFloatV struct{ I *Term }

// OpaqueFloatV is a float64 whose value is not modelled; using it in arithmetic or comparisons aborts the harness.
type OpaqueFloatV struct{ Why string }

func base64StdDecode(s string) ([]byte, error) {
	return stdB64.DecodeString(s)
}

func init() {
	reg("encoding/json.Unmarshal", func(e *Engine, st *State, args []Value, fn *ssa.Function) []Outcome {
		data := args[0].(*SliceV)
		target := args[1].(*IfaceV)
		root, ok := e.docOf(st, data)
		if !ok {
			if e.plainSymbolic(st, data) {
				panic(e.abort("J2: json.Unmarshal of bytes whose JSON structure is symbolic"))
			}
			return one(st, e.newError(st, e.StrConst("json: invalid JSON input")))
		}
		return e.unmarshalInto(st, root, target)
	})
	reg("(*encoding/json.RawMessage).UnmarshalJSON", func(e *Engine, st *State, args []Value, fn *ssa.Function) []Outcome {
		p := args[0].(*PtrV)
		if p.IsNil() {
			return one(st, e.newError(st, e.StrConst("json.RawMessage: UnmarshalJSON on nil pointer")))
		}
		e.store(st, p, args[1])
		return one(st, &IfaceV{})
	})
	reg("(encoding/json.RawMessage).MarshalJSON", func(e *Engine, st *State, args []Value, fn *ssa.Function) []Outcome {
		s := args[0].(*SliceV)
		if s.IsNil() {
			return one(st, &TupleV{E: []Value{e.newByteSlice(st, e.StrConst("null")), &IfaceV{}}})
		}
		return one(st, &TupleV{E: []Value{s, &IfaceV{}}})
	})
}

func (e *Engine) unmarshalInto(st *State, root *JNode, target *IfaceV) []Outcome {
	if target.T == nil {
		return one(st, e.newError(st, e.StrConst("json: Unmarshal(nil)")))
	}
	pt, ok := target.T.Underlying().(*types.Pointer)
	if !ok || target.V.(*PtrV).IsNil() {
		return one(st, e.newError(st, e.StrConst("json: Unmarshal(non-pointer or nil)")))
	}
	p := target.V.(*PtrV)
	var outs []Outcome
	for _, d := range e.decode(st, root, pt.Elem(), e.load(st, p)) {
		if pm, ok := d.err.(*panicMarker); ok {
			outs = append(outs, pm.o)
			continue
		}
		e.store(d.st, p, d.v)
		if d.err != nil {
			outs = append(outs, Outcome{st: d.st, ret: d.err})
		} else {
			outs = append(outs, Outcome{st: d.st, ret: &IfaceV{}})
		}
	}
	return outs
}
