package sym

import (
	"crypto/sha256"
	"fmt"
	"sort"
	"strconv"
	"strings"

	"golang.org/x/tools/go/ssa"
)

// Idealised cryptography (DESIGN.md 3.1).
//
// sha256: every application returns a *concrete* digest. Equal messages get equal digests: an application first forks on
// equality with each message hashed earlier on the path (the comparison is usually decided structurally); a message
// equal to none gets a fresh digest. Distinct messages always get distinct digests (collision freedom is assumed).
//
// ed25519: Sign(priv, m) returns a concrete 64-byte value registered for (public half of priv, m); signing is
// deterministic through the same fork-on-equality scheme. Verify(pub, m, sig) holds iff sig is a registered signature
// whose key equals pub and whose message equals m. Byte strings never produced by Sign do not verify (unforgeability
// is assumed, not shown).

type cryptoEntry struct {
	kind string // "hash" | "sig"
	msg  Value  // *JNode or *StrV
	key  *StrV  // signatures: public key bytes
	out  string // concrete output bytes
}

// cryptoLog is a persistent list kept in State.aux["crypto"].
type cryptoLog struct {
	entries []cryptoEntry
}

func (e *Engine) cryptoEntries(st *State) []cryptoEntry {
	if v, ok := st.aux["crypto"]; ok {
		return v.(*cryptoLog).entries
	}
	return nil
}

func (e *Engine) addCrypto(st *State, ent cryptoEntry) {
	old := e.cryptoEntries(st)
	st.setAux("crypto", &cryptoLog{entries: append(old[:len(old):len(old)], ent)})
}

// msgOf extracts the message identity of a byte slice: the document tree if it is one, else the bytes.
func (e *Engine) msgOf(st *State, s *SliceV) Value {
	if !s.IsNil() {
		if d, ok := e.get(st, s.Obj).(*JDocV); ok {
			if d.HTMLEsc && jnodeHasHTMLChar(d.Root) {
				r := *d.Root
				r.Esc = true
				return &r
			}
			return d.Root
		}
	}
	return e.sliceToStr(st, s)
}

func (e *Engine) msgEq(st *State, a, b Value) *Term {
	na, aDoc := a.(*JNode)
	nb, bDoc := b.(*JNode)
	switch {
	case aDoc && bDoc:
		if na.Esc != nb.Esc {
			// the same value in two spellings is two messages
			return e.tb.False
		}
		return e.nodeEq(na, nb)
	case !aDoc && !bDoc:
		return e.strEq(a.(*StrV), b.(*StrV))
	}
	// one document, one plain byte string: compare after parsing the plain one
	if aDoc {
		if p, ok := e.parseJSONStr(st, b.(*StrV)); ok {
			return e.nodeEq(na, p)
		}
		return e.tb.False
	}
	if p, ok := e.parseJSONStr(st, a.(*StrV)); ok {
		return e.nodeEq(p, nb)
	}
	return e.tb.False
}

func (e *Engine) freshBytes(kind string, n int) string {
	e.cryptoCounter++
	var out []byte
	for i := 0; len(out) < n; i++ {
		h := sha256.Sum256([]byte(fmt.Sprintf("gosym-%s-%d-%d", kind, e.cryptoCounter, i)))
		out = append(out, h[:]...)
	}
	return string(out[:n])
}

type cryptoRes struct {
	st  *State
	out string
}

// idealApply returns the output for (kind, key, msg), forking on equality with earlier applications.
func (e *Engine) idealApply(st *State, kind string, key *StrV, msg Value, n int) []cryptoRes {
	var res []cryptoRes
	cur := st
	for _, ent := range e.cryptoEntries(st) {
		if ent.kind != kind {
			continue
		}
		c := e.msgEq(cur, ent.msg, msg)
		if key != nil {
			c = e.tb.And(c, e.strEq(ent.key, key))
		}
		t, f := e.branch(cur, c)
		if t != nil {
			res = append(res, cryptoRes{t, ent.out})
		}
		if f == nil {
			return res
		}
		cur = f
	}
	out := e.freshBytes(kind, n)
	e.addCrypto(cur, cryptoEntry{kind: kind, msg: msg, key: key, out: out})
	return append(res, cryptoRes{cur, out})
}

func (e *Engine) byteArrayValue(s string) *ArrayV {
	el := make([]Value, len(s))
	for i := 0; i < len(s); i++ {
		el[i] = e.tb.Const(8, uint64(s[i]))
	}
	return &ArrayV{E: el}
}

func init() {
	reg("crypto/sha256.Sum256", func(e *Engine, st *State, args []Value, fn *ssa.Function) []Outcome {
		msg := e.msgOf(st, args[0].(*SliceV))
		var outs []Outcome
		for _, r := range e.idealApply(st, "hash", nil, msg, 32) {
			outs = append(outs, Outcome{st: r.st, ret: e.byteArrayValue(r.out)})
		}
		return outs
	})
	reg("crypto/sha1.Sum", func(e *Engine, st *State, args []Value, fn *ssa.Function) []Outcome {
		msg := e.msgOf(st, args[0].(*SliceV))
		var outs []Outcome
		for _, r := range e.idealApply(st, "sha1", nil, msg, 20) {
			outs = append(outs, Outcome{st: r.st, ret: e.byteArrayValue(r.out)})
		}
		return outs
	})
	sign := func(e *Engine, st *State, priv *SliceV, message *SliceV) []Outcome {
		pk := e.sliceToStr(st, priv)
		n, ok := pk.ConcreteLen()
		if !ok || n != 64 {
			return []Outcome{e.panicOut(st, "ed25519: bad private key length: "+strconv.Itoa(n))}
		}
		pub := &StrV{N: e.tb.Int64(32), B: pk.B[32:64]}
		msg := e.msgOf(st, message)
		var outs []Outcome
		for _, r := range e.idealApply(st, "sig", pub, msg, 64) {
			outs = append(outs, Outcome{st: r.st, ret: e.newByteSlice(r.st, e.StrConst(r.out))})
		}
		return outs
	}
	reg("crypto/ed25519.Sign", func(e *Engine, st *State, args []Value, fn *ssa.Function) []Outcome {
		return sign(e, st, args[0].(*SliceV), args[1].(*SliceV))
	})
	reg("golang.org/x/crypto/ed25519.Sign", func(e *Engine, st *State, args []Value, fn *ssa.Function) []Outcome {
		return sign(e, st, args[0].(*SliceV), args[1].(*SliceV))
	})
	verify := func(e *Engine, st *State, args []Value, fn *ssa.Function) []Outcome {
		pubS := e.sliceToStr(st, args[0].(*SliceV))
		if n, ok := pubS.ConcreteLen(); !ok || n != 32 {
			return []Outcome{e.panicOut(st, "ed25519: bad public key length: "+strconv.Itoa(n))}
		}
		msg := e.msgOf(st, args[1].(*SliceV))
		sig := e.sliceToStr(st, args[2].(*SliceV))
		res := e.tb.False
		for _, ent := range e.cryptoEntries(st) {
			if ent.kind != "sig" {
				continue
			}
			c := e.tb.AndN(e.strEq(sig, e.StrConst(ent.out)), e.strEq(pubS, ent.key), e.msgEq(st, ent.msg, msg))
			res = e.tb.Or(res, c)
		}
		return one(st, res)
	}
	reg("crypto/ed25519.Verify", verify)
	reg("golang.org/x/crypto/ed25519.Verify", verify)
	// vpKey(name) (pub, priv): deterministic key pair (natively a real ed25519 pair derived from the name)
	vpAPI["vpKey"] = func(e *Engine, st *State, args []Value, fn *ssa.Function) []Outcome {
		name := e.mustConcStr(args[0])
		seed := sha256.Sum256([]byte("vp-key-seed-" + name))
		pub := sha256.Sum256([]byte("vp-key-pub-" + name))
		priv := string(seed[:]) + string(pub[:])
		return one(st, &TupleV{E: []Value{e.newByteSlice(st, e.StrConst(string(pub[:]))), e.newByteSlice(st, e.StrConst(priv))}})
	}

	// Canonical JSON on documents: identity on values (statement C01, discharged separately on real bytes).
	docIdentity := func(argIdx int) Intrinsic {
		return func(e *Engine, st *State, args []Value, fn *ssa.Function) []Outcome {
			s := args[argIdx].(*SliceV)
			if !s.IsNil() {
				if dv, isDoc := e.get(st, s.Obj).(*JDocV); isDoc {
					e.rep.noteStub(fnKey(fn) + " (identity on J2 documents)")
					if dv.HTMLEsc {
						// the result is spelled canonically
						s = e.newDoc(st, dv.Root)
					}
					if fn.Signature.Results().Len() == 2 {
						return []Outcome{e.errTuple(st, s, nil)}
					}
					return one(st, s)
				}
			}
			return e.mergeOutcomes(e.execFunction(fn, args, nil, st))
		}
	}
	reg(RepoModule+".CanonicalJSON", docIdentity(0))
	reg(RepoModule+".CanonicalJSONAssumeValid", docIdentity(0))
	reg(RepoModule+".CompactJSON", docIdentity(0))
	reg(RepoModule+".SortJSON", docIdentity(0))
	// verifyEnforcedCanonicalJSON on documents: integers must lie within +/-(2^53-1) (summary, validated on real bytes
	// by vp_C01_enforced); literal (non-integer) number tokens are judged by the real function run on "[<literal>]".
	reg(RepoModule+".verifyEnforcedCanonicalJSON", func(e *Engine, st *State, args []Value, fn *ssa.Function) []Outcome {
		s := args[0].(*SliceV)
		if s.IsNil() {
			return e.mergeOutcomes(e.execFunction(fn, args, nil, st))
		}
		d, isDoc := e.get(st, s.Obj).(*JDocV)
		if !isDoc {
			return e.mergeOutcomes(e.execFunction(fn, args, nil, st))
		}
		e.rep.noteStub(fnKey(fn) + " (summary on J2 documents)")
		ok := e.tb.True
		var lits []*StrV
		var walk func(n *JNode)
		walk = func(n *JNode) {
			switch n.Kind {
			case JNum:
				if n.I != nil {
					ok = e.tb.AndN(ok, e.tb.Cmp(OpSLe, e.tb.Int64(-9007199254740991), n.I), e.tb.Cmp(OpSLe, n.I, e.tb.Int64(9007199254740991)))
				} else {
					lits = append(lits, n.Lit)
				}
			case JArr:
				for _, c := range n.Elems {
					walk(c)
				}
			case JObj:
				for _, c := range n.Vals {
					walk(c)
				}
			}
		}
		walk(d.Root)
		for _, l := range lits {
			c, conc := l.Concrete()
			if !conc {
				panic(e.abort("J2: symbolic number literal in enforced canonical JSON check"))
			}
			// the real function decides on the concrete token, wrapped in an array: "[<literal>]"
			sub := e.execFunction(fn, []Value{e.newByteSlice(st, e.StrConst("["+c+"]"))}, nil, st)
			if len(sub) != 1 || sub[0].panicked {
				panic(e.abort("J2: enforced canonical JSON check on literal %q did not run concretely", c))
			}
			st = sub[0].st
			if iv, isI := sub[0].ret.(*IfaceV); !isI || iv.T != nil {
				ok = e.tb.False
			}
		}
		var outs []Outcome
		t, f := e.branch(st, ok)
		if t != nil {
			outs = append(outs, Outcome{st: t, ret: &IfaceV{}})
		}
		if f != nil {
			// ErrCanonicalJSON
			var errV Value = e.newError(f, e.StrConst("value is outside of safe range"))
			if g, okg := fn.Pkg.Members["ErrCanonicalJSON"].(*ssa.Global); okg {
				errV = e.load(f, e.globalPtr(g))
			}
			outs = append(outs, Outcome{st: f, ret: errV})
		}
		return outs
	})
}

var _ = sort.Strings
var _ = strings.Contains

// jnodeHasHTMLChar: some concrete string or member name of the tree contains a character encoding/json.Marshal escapes
// beyond what JSON requires ('<', '>', '&', U+2028, U+2029). Symbolic strings count as free of them (spellings of
// symbolic strings are outside the model).
func jnodeHasHTMLChar(n *JNode) bool {
	if n == nil {
		return false
	}
	has := func(s *StrV) bool {
		if s == nil {
			return false
		}
		c, ok := s.Concrete()
		return ok && strings.ContainsAny(c, "<>&\u2028\u2029")
	}
	if n.Kind == JStr && has(n.Str) {
		return true
	}
	for _, k := range n.Keys {
		if has(k) {
			return true
		}
	}
	for _, x := range n.Elems {
		if jnodeHasHTMLChar(x) {
			return true
		}
	}
	for _, x := range n.Vals {
		if jnodeHasHTMLChar(x) {
			return true
		}
	}
	return false
}
