package sym

import (
	"go/token"
	"go/types"
	"math"
	"unicode/utf8"
)

func (e *Engine) binop(st *State, op token.Token, a, b Value, ta, tb types.Type) []Outcome {
	t := e.tb
	switch x := a.(type) {
	case *Term:
		y, ok := b.(*Term)
		if !ok {
			panic(e.abort("binop %s: mixed operands %T %T", op, a, b))
		}
		if x.W == 0 { // bool
			switch op {
			case token.EQL:
				return one(st, t.Eq(x, y))
			case token.NEQ:
				return one(st, t.Ne(x, y))
			case token.AND, token.LAND:
				return one(st, t.And(x, y))
			case token.OR, token.LOR:
				return one(st, t.Or(x, y))
			}
			panic(e.abort("bool binop %s", op))
		}
		_, signed, _ := e.width(ta)
		switch op {
		case token.ADD:
			return one(st, t.Bin(OpAdd, x, y))
		case token.SUB:
			return one(st, t.Bin(OpSub, x, y))
		case token.MUL:
			return one(st, t.Bin(OpMul, x, y))
		case token.QUO, token.REM:
			var outs []Outcome
			s := e.guard(st, t.Ne(y, t.Const(y.W, 0)), "integer divide by zero", &outs)
			if s == nil {
				return outs
			}
			var o Op
			switch {
			case op == token.QUO && signed:
				o = OpSDiv
			case op == token.QUO:
				o = OpUDiv
			case signed:
				o = OpSRem
			default:
				o = OpURem
			}
			return append(outs, Outcome{st: s, ret: t.Bin(o, x, y)})
		case token.AND:
			return one(st, t.Bin(OpBAnd, x, y))
		case token.OR:
			return one(st, t.Bin(OpBOr, x, y))
		case token.XOR:
			return one(st, t.Bin(OpBXor, x, y))
		case token.AND_NOT:
			return one(st, t.Bin(OpBAnd, x, t.BNot(y)))
		case token.SHL, token.SHR:
			_, ysigned, _ := e.width(tb)
			var outs []Outcome
			s := st
			if ysigned && !y.IsConst() {
				s = e.guard(st, t.Cmp(OpSLe, t.Const(y.W, 0), y), "negative shift amount", &outs)
				if s == nil {
					return outs
				}
			}
			var o Op
			switch {
			case op == token.SHL:
				o = OpShl
			case signed:
				o = OpAShr
			default:
				o = OpLShr
			}
			var r *Term
			switch {
			case y.W == x.W:
				r = t.Bin(o, x, y)
			case y.W < x.W:
				r = t.Bin(o, x, t.ZExt(y, x.W))
			default:
				// count wider than operand: saturate
				big := t.Cmp(OpULe, t.Const(y.W, uint64(x.W)), y)
				r = t.Ite(big, t.Bin(o, x, t.Const(x.W, uint64(x.W))), t.Bin(o, x, t.Trunc(y, x.W)))
			}
			return append(outs, Outcome{st: s, ret: r})
		case token.EQL:
			return one(st, t.Eq(x, y))
		case token.NEQ:
			return one(st, t.Ne(x, y))
		case token.LSS:
			if signed {
				return one(st, t.Cmp(OpSLt, x, y))
			}
			return one(st, t.Cmp(OpULt, x, y))
		case token.LEQ:
			if signed {
				return one(st, t.Cmp(OpSLe, x, y))
			}
			return one(st, t.Cmp(OpULe, x, y))
		case token.GTR:
			if signed {
				return one(st, t.Cmp(OpSLt, y, x))
			}
			return one(st, t.Cmp(OpULt, y, x))
		case token.GEQ:
			if signed {
				return one(st, t.Cmp(OpSLe, y, x))
			}
			return one(st, t.Cmp(OpULe, y, x))
		}
		panic(e.abort("int binop %s", op))
	case *OpaqueFloatV:
		panic(e.abort("use of an unmodelled float value (%s)", x.Why))
	case *SymFloatV:
		return e.symFloatOp(st, op, x, b)
	case FloatV:
		if sf, ok := b.(*SymFloatV); ok {
			return e.symFloatOp(st, flipCmp(op), sf, x)
		}
		y, ok := b.(FloatV)
		if !ok {
			panic(e.abort("float binop with %T", b))
		}
		fx, fy := float64(x), float64(y)
		switch op {
		case token.ADD:
			return one(st, FloatV(fx+fy))
		case token.SUB:
			return one(st, FloatV(fx-fy))
		case token.MUL:
			return one(st, FloatV(fx*fy))
		case token.QUO:
			return one(st, FloatV(fx/fy))
		case token.EQL:
			return one(st, t.Bool(fx == fy))
		case token.NEQ:
			return one(st, t.Bool(fx != fy))
		case token.LSS:
			return one(st, t.Bool(fx < fy))
		case token.LEQ:
			return one(st, t.Bool(fx <= fy))
		case token.GTR:
			return one(st, t.Bool(fx > fy))
		case token.GEQ:
			return one(st, t.Bool(fx >= fy))
		}
		panic(e.abort("float binop %s", op))
	case *StrV:
		y := b.(*StrV)
		switch op {
		case token.ADD:
			return e.concat(st, x, y)
		case token.EQL:
			return one(st, e.strEq(x, y))
		case token.NEQ:
			return one(st, t.Not(e.strEq(x, y)))
		case token.LSS:
			return one(st, e.strLess(x, y))
		case token.GTR:
			return one(st, e.strLess(y, x))
		case token.LEQ:
			return one(st, t.Not(e.strLess(y, x)))
		case token.GEQ:
			return one(st, t.Not(e.strLess(x, y)))
		}
		panic(e.abort("string binop %s", op))
	}
	switch op {
	case token.EQL:
		return one(st, e.valuesEqual(a, b))
	case token.NEQ:
		return one(st, t.Not(e.valuesEqual(a, b)))
	}
	panic(e.abort("binop %s on %T", op, a))
}

// strEq: equality of two symbolic strings.
func (e *Engine) strEq(a, b *StrV) *Term {
	t := e.tb
	if a == b {
		return t.True
	}
	n := len(a.B)
	if len(b.B) < n {
		n = len(b.B)
	}
	r := t.Eq(a.N, b.N)
	if r.IsFalse() {
		return r
	}
	if na, ok := a.ConcreteLen(); ok {
		if na > len(b.B) {
			return t.False
		}
		if n > na {
			n = na
		}
	}
	if nb, ok := b.ConcreteLen(); ok {
		if nb > len(a.B) {
			return t.False
		}
		if n > nb {
			n = nb
		}
	}
	aConc, bConc := a.N.IsConst(), b.N.IsConst()
	for k := 0; k < n; k++ {
		eq := t.Eq(a.B[k], b.B[k])
		if !(aConc || bConc) {
			eq = t.Or(t.Cmp(OpULe, a.N, t.Int64(int64(k))), eq)
		}
		r = t.And(r, eq)
		if r.IsFalse() {
			return r
		}
	}
	if !(aConc || bConc) && len(a.B) != len(b.B) {
		r = t.And(r, t.Cmp(OpULe, a.N, t.Int64(int64(n))))
	}
	return r
}

// strLess: lexicographic a < b.
func (e *Engine) strLess(a, b *StrV) *Term {
	t := e.tb
	ca, cb := len(a.B), len(b.B)
	n := ca
	if cb < n {
		n = cb
	}
	// L(n): beyond common capacity; a exhausted iff Na<=n (always when n==ca); then a<b iff n<Nb
	var r *Term
	nn := t.Int64(int64(n))
	if n == ca {
		r = t.Cmp(OpULt, nn, b.N)
	} else {
		r = t.False // b exhausted (n==cb >= Nb), so a >= b
	}
	for k := n - 1; k >= 0; k-- {
		kk := t.Int64(int64(k))
		aEnd := t.Cmp(OpULe, a.N, kk)
		bEnd := t.Cmp(OpULe, b.N, kk)
		lt := t.Cmp(OpULt, a.B[k], b.B[k])
		gt := t.Cmp(OpULt, b.B[k], a.B[k])
		r = t.Ite(aEnd, t.Not(bEnd), t.Ite(bEnd, t.False, t.Ite(lt, t.True, t.Ite(gt, t.False, r))))
	}
	return r
}

type concStrRes struct {
	st *State
	s  *StrV
}

// concStr forks so that the string has a concrete length.
func (e *Engine) concStr(st *State, s *StrV) []concStrRes {
	if n, ok := s.ConcreteLen(); ok {
		if n < len(s.B) {
			return []concStrRes{{st, &StrV{N: s.N, B: s.B[:n]}}}
		}
		return []concStrRes{{st, s}}
	}
	var res []concStrRes
	for _, c := range e.concretize(st, s.N) {
		if c.v < 0 || int(c.v) > len(s.B) {
			panic(e.abort("string length %d outside capacity %d", c.v, len(s.B)))
		}
		res = append(res, concStrRes{c.st, &StrV{N: e.tb.Int64(c.v), B: s.B[:c.v]}})
	}
	return res
}

func (e *Engine) concat(st *State, a, b *StrV) []Outcome {
	if n, ok := b.ConcreteLen(); ok && n == 0 {
		return one(st, a)
	}
	var outs []Outcome
	for _, ca := range e.concStr(st, a) {
		na, _ := ca.s.ConcreteLen()
		if na == 0 {
			outs = append(outs, Outcome{st: ca.st, ret: b})
			continue
		}
		bs := make([]*Term, 0, na+len(b.B))
		bs = append(bs, ca.s.B[:na]...)
		bs = append(bs, b.B...)
		n := e.tb.Bin(OpAdd, e.tb.Int64(int64(na)), b.N)
		if n.IsConst() {
			bs = bs[:n.Val]
		}
		outs = append(outs, Outcome{st: ca.st, ret: &StrV{N: n, B: bs}})
	}
	return outs
}

// valuesEqual builds the Go == relation on two values of the same static type.
func (e *Engine) valuesEqual(a, b Value) *Term {
	t := e.tb
	switch x := a.(type) {
	case nil:
		return t.Bool(b == nil)
	case *Term:
		return t.Eq(x, b.(*Term))
	case FloatV:
		return t.Bool(x == b.(FloatV))
	case *StrV:
		return e.strEq(x, b.(*StrV))
	case *StructV:
		y := b.(*StructV)
		r := t.True
		for i := range x.F {
			r = t.And(r, e.valuesEqual(x.F[i], y.F[i]))
		}
		return r
	case *ArrayV:
		y := b.(*ArrayV)
		r := t.True
		for i := range x.E {
			r = t.And(r, e.valuesEqual(x.E[i], y.E[i]))
		}
		return r
	case *PtrV:
		y := b.(*PtrV)
		if x.Obj != y.Obj || len(x.Path) != len(y.Path) {
			return t.False
		}
		for i := range x.Path {
			if x.Path[i] != y.Path[i] {
				return t.False
			}
		}
		if x.Sym != nil || y.Sym != nil {
			if x.Sym != nil && y.Sym != nil {
				return t.Eq(x.Sym, y.Sym)
			}
			panic(e.abort("pointer comparison with symbolic index"))
		}
		return t.True
	case *SliceV:
		y := b.(*SliceV)
		if x.IsNil() || y.IsNil() {
			return t.Bool(x.IsNil() && y.IsNil())
		}
		panic(e.abort("comparison of non-nil slices"))
	case *MapV:
		y := b.(*MapV)
		return t.Bool(x.Obj == y.Obj)
	case *ChanV:
		y := b.(*ChanV)
		return t.Bool(x.Obj == y.Obj)
	case *FuncV:
		y := b.(*FuncV)
		if x.IsNil() || y.IsNil() {
			return t.Bool(x.IsNil() && y.IsNil())
		}
		panic(e.abort("comparison of non-nil funcs"))
	case *IfaceV:
		y, ok := b.(*IfaceV)
		if !ok {
			panic(e.abort("iface compared with %T", b))
		}
		if x.T == nil || y.T == nil {
			return t.Bool(x.T == nil && y.T == nil)
		}
		if !types.Identical(x.T, y.T) {
			return t.False
		}
		return e.valuesEqual(x.V, y.V)
	}
	panic(e.abort("valuesEqual on %T", a))
}

// convert implements ssa.Convert.
func (e *Engine) convert(st *State, v Value, from, to types.Type) []Outcome {
	t := e.tb
	fu, tu := from.Underlying(), to.Underlying()
	if tp, ok := tu.(*types.TypeParam); ok {
		panic(e.abort("convert to type parameter %s", tp))
	}
	// integer -> integer / float
	if x, ok := v.(*Term); ok && x.W > 0 {
		if w, _, ok := e.width(to); ok && w > 0 {
			_, fsigned, _ := e.width(from)
			return one(st, t.Resize(x, w, fsigned))
		}
		if isFloat(to) {
			if x.IsConst() {
				_, fsigned, _ := e.width(from)
				if fsigned {
					return one(st, FloatV(float64(x.SVal())))
				}
				return one(st, FloatV(float64(x.Val)))
			}
			panic(e.abort("symbolic int -> float conversion"))
		}
		if isString(to) {
			// rune -> string
			var outs []Outcome
			for _, c := range e.concretize(st, t.Resize(x, 64, true)) {
				outs = append(outs, Outcome{st: c.st, ret: e.StrConst(string(rune(c.v)))})
			}
			return outs
		}
		if b, ok := tu.(*types.Basic); ok && b.Kind() == types.UnsafePointer {
			if x.IsConst() && x.Val == 0 {
				return one(st, &PtrV{})
			}
			panic(e.abort("uintptr -> unsafe.Pointer"))
		}
	}
	if sf, ok := v.(*SymFloatV); ok {
		if isFloat(to) {
			return one(st, sf)
		}
		if w, _, ok := e.width(to); ok && w > 0 {
			return one(st, t.Resize(sf.I, w, true))
		}
	}
	if f, ok := v.(FloatV); ok {
		if isFloat(to) {
			if b := tu.(*types.Basic); b.Kind() == types.Float32 {
				return one(st, FloatV(float64(float32(f))))
			}
			return one(st, f)
		}
		if w, signed, ok := e.width(to); ok && w > 0 {
			ff := float64(f)
			if math.IsNaN(ff) || math.IsInf(ff, 0) {
				return one(st, t.Const(w, 1<<63))
			}
			if signed {
				return one(st, t.Const(w, uint64(int64(ff))))
			}
			return one(st, t.Const(w, uint64(ff)))
		}
	}
	switch x := v.(type) {
	case *StrV:
		if isString(to) {
			return one(st, x)
		}
		if sl, ok := tu.(*types.Slice); ok {
			eb, _ := sl.Elem().Underlying().(*types.Basic)
			if eb != nil && eb.Kind() == types.Uint8 {
				return one(st, e.newByteSlice(st, x))
			}
			if eb != nil && eb.Kind() == types.Int32 {
				var outs []Outcome
				for _, rs := range e.decodeAll(st, x) {
					el := make([]Value, len(rs.runes))
					for i, r := range rs.runes {
						el[i] = r
					}
					id := e.alloc(rs.st, &ArrayV{E: el})
					outs = append(outs, Outcome{st: rs.st, ret: &SliceV{Obj: id, N: t.Int64(int64(len(el))), Cap: len(el)}})
				}
				return outs
			}
		}
	case *SliceV:
		if isString(to) {
			sl := fu.(*types.Slice)
			eb, _ := sl.Elem().Underlying().(*types.Basic)
			if eb != nil && eb.Kind() == types.Uint8 {
				return one(st, e.sliceToStr(st, x))
			}
			if eb != nil && eb.Kind() == types.Int32 {
				// []rune -> string: concrete lengths and runes only
				var outs []Outcome
				for _, cs := range e.concSlice(st, x) {
					n := int(cs.s.N.Val)
					var buf []byte
					conc := true
					for i := 0; i < n; i++ {
						r := e.sliceElem(cs.st, cs.s, i).(*Term)
						if !r.IsConst() {
							conc = false
							break
						}
						buf = utf8.AppendRune(buf, rune(r.SVal()))
					}
					if !conc {
						panic(e.abort("[]rune -> string with symbolic runes"))
					}
					outs = append(outs, Outcome{st: cs.st, ret: e.StrConst(string(buf))})
				}
				return outs
			}
		}
		if _, ok := tu.(*types.Slice); ok {
			return one(st, x)
		}
	case *PtrV:
		return one(st, x) // pointer <-> unsafe.Pointer
	}
	if types.Identical(fu, tu) {
		return one(st, v)
	}
	panic(e.abort("unsupported conversion %s -> %s (%T)", from, to, v))
}

// sliceToStr reads a []byte as a string value.
func (e *Engine) sliceToStr(st *State, s *SliceV) *StrV {
	if s.IsNil() {
		return e.StrConst("")
	}
	if d, ok := e.get(st, s.Obj).(*JDocV); ok {
		return &StrV{N: d.Len, Doc: d}
	}
	arr := getPath(e.get(st, s.Obj), s.Path).(*ArrayV)
	n := s.Cap
	if c, ok := constInt(s.N); ok {
		n = c
	}
	b := make([]*Term, n)
	for i := 0; i < n; i++ {
		b[i] = arr.E[s.Off+i].(*Term)
	}
	return &StrV{N: s.N, B: b}
}

func constInt(t *Term) (int, bool) {
	if t.IsConst() {
		return int(t.SVal()), true
	}
	return 0, false
}

type concSliceRes struct {
	st *State
	s  *SliceV
}

// concSlice forks so that the slice has a concrete length.
func (e *Engine) concSlice(st *State, s *SliceV) []concSliceRes {
	if s.N.IsConst() {
		return []concSliceRes{{st, s}}
	}
	var res []concSliceRes
	for _, c := range e.concretize(st, s.N) {
		res = append(res, concSliceRes{c.st, &SliceV{Obj: s.Obj, Path: s.Path, Off: s.Off, N: e.tb.Int64(c.v), Cap: s.Cap}})
	}
	return res
}

func (e *Engine) sliceElem(st *State, s *SliceV, i int) Value {
	arr := getPath(e.get(st, s.Obj), s.Path).(*ArrayV)
	return arr.E[s.Off+i]
}

// newByteSlice allocates a fresh []byte holding the string bytes.
func (e *Engine) newByteSlice(st *State, s *StrV) *SliceV {
	if s.Doc != nil {
		id := e.alloc(st, s.Doc)
		return &SliceV{Obj: id, N: s.Doc.Len, Cap: 1 << 30}
	}
	el := make([]Value, len(s.B))
	for i, b := range s.B {
		el[i] = b
	}
	id := e.alloc(st, &ArrayV{E: el})
	return &SliceV{Obj: id, N: s.N, Cap: len(el)}
}

type decoded struct {
	st   *State
	r    *Term // 32-bit rune
	size int
}

// decodeRune decodes the first rune of b (len(b)>0), forking on the encoding length.
func (e *Engine) decodeRune(st *State, b []*Term) []decoded {
	t := e.tb
	// fully concrete fast path
	conc := true
	var buf []byte
	for i := 0; i < len(b) && i < 4; i++ {
		if !b[i].IsConst() {
			conc = false
			break
		}
		buf = append(buf, byte(b[i].Val))
	}
	if conc {
		r, sz := utf8.DecodeRune(buf)
		return []decoded{{st, t.Const(32, uint64(uint32(r))), sz}}
	}
	var res []decoded
	b0 := b[0]
	c8 := func(v uint64) *Term { return t.Const(8, v) }
	z32 := func(x *Term) *Term { return t.ZExt(x, 32) }
	cont := func(x *Term) *Term { // 0x80..0xBF
		return t.And(t.Cmp(OpULe, c8(0x80), x), t.Cmp(OpULe, x, c8(0xBF)))
	}
	rng := func(x *Term, lo, hi uint64) *Term {
		return t.And(t.Cmp(OpULe, c8(lo), x), t.Cmp(OpULe, x, c8(hi)))
	}
	type alt struct {
		cond *Term
		r    *Term
		size int
	}
	var alts []alt
	// ASCII
	alts = append(alts, alt{t.Cmp(OpULt, b0, c8(0x80)), z32(b0), 1})
	valid := []*Term{}
	// 2-byte
	if len(b) >= 2 {
		c := t.And(rng(b0, 0xC2, 0xDF), cont(b[1]))
		r := t.Bin(OpBOr, t.Bin(OpShl, z32(t.Bin(OpBAnd, b0, c8(0x1F))), t.Const(32, 6)), z32(t.Bin(OpBAnd, b[1], c8(0x3F))))
		alts = append(alts, alt{c, r, 2})
		valid = append(valid, c)
	}
	if len(b) >= 3 {
		second := t.OrN(
			t.And(t.Eq(b0, c8(0xE0)), rng(b[1], 0xA0, 0xBF)),
			t.And(t.Or(rng(b0, 0xE1, 0xEC), rng(b0, 0xEE, 0xEF)), cont(b[1])),
			t.And(t.Eq(b0, c8(0xED)), rng(b[1], 0x80, 0x9F)))
		c := t.And(second, cont(b[2]))
		r := t.Bin(OpBOr, t.Bin(OpBOr, t.Bin(OpShl, z32(t.Bin(OpBAnd, b0, c8(0x0F))), t.Const(32, 12)),
			t.Bin(OpShl, z32(t.Bin(OpBAnd, b[1], c8(0x3F))), t.Const(32, 6))), z32(t.Bin(OpBAnd, b[2], c8(0x3F))))
		alts = append(alts, alt{c, r, 3})
		valid = append(valid, c)
	}
	if len(b) >= 4 {
		second := t.OrN(
			t.And(t.Eq(b0, c8(0xF0)), rng(b[1], 0x90, 0xBF)),
			t.And(rng(b0, 0xF1, 0xF3), cont(b[1])),
			t.And(t.Eq(b0, c8(0xF4)), rng(b[1], 0x80, 0x8F)))
		c := t.AndN(second, cont(b[2]), cont(b[3]))
		r := t.Bin(OpBOr, t.Bin(OpBOr, t.Bin(OpBOr, t.Bin(OpShl, z32(t.Bin(OpBAnd, b0, c8(0x07))), t.Const(32, 18)),
			t.Bin(OpShl, z32(t.Bin(OpBAnd, b[1], c8(0x3F))), t.Const(32, 12))),
			t.Bin(OpShl, z32(t.Bin(OpBAnd, b[2], c8(0x3F))), t.Const(32, 6))), z32(t.Bin(OpBAnd, b[3], c8(0x3F))))
		alts = append(alts, alt{c, r, 4})
		valid = append(valid, c)
	}
	// invalid: RuneError, size 1
	inv := t.Not(t.Cmp(OpULt, b0, c8(0x80)))
	for _, v := range valid {
		inv = t.And(inv, t.Not(v))
	}
	alts = append(alts, alt{inv, t.Const(32, 0xFFFD), 1})
	// group alternatives by size so that size-1 cases merge
	bySize := map[int][]alt{}
	var sizes []int
	for _, a := range alts {
		if _, ok := bySize[a.size]; !ok {
			sizes = append(sizes, a.size)
		}
		bySize[a.size] = append(bySize[a.size], a)
	}
	for _, sz := range sizes {
		as := bySize[sz]
		cond := t.False
		var r *Term
		for _, a := range as {
			cond = t.Or(cond, a.cond)
			if r == nil {
				r = a.r
			} else {
				r = t.Ite(a.cond, a.r, r)
			}
		}
		if cond.IsFalse() {
			continue
		}
		if e.solver.Check(append(st.pc[:len(st.pc):len(st.pc)], cond)) == Unsat {
			continue
		}
		ns := st.fork()
		ns.assume(cond)
		res = append(res, decoded{ns, r, sz})
	}
	return res
}

type decodedAll struct {
	st    *State
	runes []*Term
}

func (e *Engine) decodeAll(st *State, s *StrV) []decodedAll {
	var res []decodedAll
	for _, cs := range e.concStr(st, s) {
		n, _ := cs.s.ConcreteLen()
		var rec func(st *State, pos int, acc []*Term)
		rec = func(st *State, pos int, acc []*Term) {
			if pos >= n {
				res = append(res, decodedAll{st, acc})
				return
			}
			for _, d := range e.decodeRune(st, cs.s.B[pos:n]) {
				rec(d.st, pos+d.size, append(acc[:len(acc):len(acc)], d.r))
			}
		}
		rec(cs.st, 0, nil)
	}
	return res
}

func flipCmp(op token.Token) token.Token {
	switch op {
	case token.LSS:
		return token.GTR
	case token.GTR:
		return token.LSS
	case token.LEQ:
		return token.GEQ
	case token.GEQ:
		return token.LEQ
	}
	return op
}

// symFloatOp: comparisons of an integer-valued symbolic float with a constant or another integer-valued float.
func (e *Engine) symFloatOp(st *State, op token.Token, x *SymFloatV, b Value) []Outcome {
	t := e.tb
	var lo, hi *Term // b as integer bounds: x < b  <=>  x < hi ... computed per op
	switch y := b.(type) {
	case *SymFloatV:
		lo, hi = y.I, y.I
		switch op {
		case token.EQL:
			return one(st, t.Eq(x.I, y.I))
		case token.NEQ:
			return one(st, t.Ne(x.I, y.I))
		case token.LSS:
			return one(st, t.Cmp(OpSLt, x.I, y.I))
		case token.LEQ:
			return one(st, t.Cmp(OpSLe, x.I, y.I))
		case token.GTR:
			return one(st, t.Cmp(OpSLt, y.I, x.I))
		case token.GEQ:
			return one(st, t.Cmp(OpSLe, y.I, x.I))
		}
	case FloatV:
		f := float64(y)
		if math.IsNaN(f) {
			return one(st, t.Bool(op == token.NEQ))
		}
		if f >= 9.3e18 || f <= -9.3e18 {
			switch op {
			case token.EQL:
				return one(st, t.False)
			case token.NEQ:
				return one(st, t.True)
			case token.LSS, token.LEQ:
				return one(st, t.Bool(f > 0))
			default:
				return one(st, t.Bool(f < 0))
			}
		}
		fl, ce := int64(math.Floor(f)), int64(math.Ceil(f))
		integral := fl == ce
		switch op {
		case token.EQL:
			if !integral {
				return one(st, t.False)
			}
			return one(st, t.Eq(x.I, t.Int64(fl)))
		case token.NEQ:
			if !integral {
				return one(st, t.True)
			}
			return one(st, t.Ne(x.I, t.Int64(fl)))
		case token.LSS: // x < f  <=> x < ceil(f)
			return one(st, t.Cmp(OpSLt, x.I, t.Int64(ce)))
		case token.LEQ: // x <= f <=> x <= floor(f)
			return one(st, t.Cmp(OpSLe, x.I, t.Int64(fl)))
		case token.GTR: // x > f <=> x > floor(f)
			return one(st, t.Cmp(OpSLt, t.Int64(fl), x.I))
		case token.GEQ:
			return one(st, t.Cmp(OpSLe, t.Int64(ce), x.I))
		}
	}
	_, _ = lo, hi
	panic(e.abort("unsupported float operation %s on integer-valued symbolic float", op))
}

// concStrFull forks until the string is fully concrete (length and every byte); meant for strings that stem from a
// handful of vpChoice alternatives.
func (e *Engine) concStrFull(st *State, s *StrV) []concStrRes {
	var res []concStrRes
	for _, c := range e.concStr(st, s) {
		work := []concStrRes{c}
		for i := range c.s.B {
			var next []concStrRes
			for _, w := range work {
				if w.s.B[i].IsConst() {
					next = append(next, w)
					continue
				}
				for _, v := range e.concretize(w.st, w.s.B[i]) {
					b := append([]*Term{}, w.s.B...)
					b[i] = e.tb.Const(8, uint64(v.v)&0xff)
					next = append(next, concStrRes{v.st, &StrV{N: w.s.N, B: b}})
				}
			}
			work = next
		}
		res = append(res, work...)
	}
	return res
}
