package sym

import (
	"fmt"
	"go/types"
	"io"
	"os"
	"sort"
	"strings"
	"time"

	"golang.org/x/tools/go/ssa"
)

// Config carries the bounds of one harness run.
type Config struct {
	LoopBound      int // K: waves per loop instance
	MaxDepth       int // D: call depth
	MaxConcretize  int // values enumerated when a concrete integer is required
	MaxStrMerge    int // strings longer than this are merged only when identical
	MaxPaths       int // total path budget (forks)
	MaxSteps       int64
	Merge          bool
	PanicsAssume   bool // vp:panics=assume
	Trace          bool
	MapOrderFns    map[string]bool // functions in which map range order is nondeterministic
	SymbolicLen    bool            // vpNondetString keeps a symbolic length instead of forking
	TimeoutS       int             // wall-clock budget of one harness run
	Spellings      bool            // documents remember that encoding/json.Marshal wrote them (HTML-escaped spelling); hashes and signatures tell that spelling from the canonical one
	RealTokenCodec bool            // tokens.(de)serializeMacaroon are interpreted (base64 + macaroon binary format) instead of the ideal codec
	Races          bool            // log heap accesses of goroutines and report unsynchronised conflicting ones (goroutines.go)
	TickingClock   bool            // with FixedClock: every reading is one microsecond later than the previous one
	FixedClock     bool            // time.Now returns one fixed instant (harnesses whose logic depends on the clock only through offsets they choose)
}

func DefaultConfig() Config {
	return Config{LoopBound: 40, MaxDepth: 120, MaxConcretize: 80, MaxStrMerge: 80, MaxPaths: 400000, MaxSteps: 400_000_000, Merge: true}
}

type Stats struct {
	Steps           int64
	Forks           int
	Merges          int
	Allocs          int
	Goroutines      int
	PrunedSchedules int
	Paths           int
	Calls           int
	MaxDepthSeen    int
	ModelHits       int
	Functions       map[string]int
}

// Engine is one symbolic execution context (one harness run).
type Engine struct {
	prog                         *ssa.Program
	tb                           *TB
	solver                       *Solver
	cfg                          Config
	base                         map[int]Value
	nextObj                      int
	globals                      map[*ssa.Global]int
	pkgState                     map[*ssa.Package]int
	fninfo                       map[*ssa.Function]*FnInfo
	stats                        Stats
	rep                          *Report
	stack                        []*ssa.Function
	curGo, curGoMark, racesFound int
	raceSeen                     map[string]bool
	stubs                        map[string]*ssa.Function
	config                       map[string]string
	typeIDs                      map[string]int
	cryptoTabs                   *cryptoState
	j2                           *j2State
	funcObjs                     map[*ssa.Function]int
	lockHook                     func(st *State, kind string, p *PtrV)
	deadline                     time.Time
	uniqueTab                    []uniqueEnt
	cryptoCounter                int
	goCounter                    int
	initDepth                    int // >0 while a package initialiser is being interpreted
	progress                     bool
	lastTick                     time.Time
}

type abortErr struct {
	msg   string
	stack []string
}

func (a *abortErr) Error() string { return a.msg }

func (e *Engine) abort(format string, args ...interface{}) *abortErr {
	var st []string
	for i := len(e.stack) - 1; i >= 0 && len(st) < 14; i-- {
		st = append(st, e.stack[i].String())
	}
	return &abortErr{msg: fmt.Sprintf(format, args...), stack: st}
}

func NewEngine(prog *ssa.Program, cfg Config, scratch string) (*Engine, error) {
	tb := NewTB()
	sv, err := NewSolver(tb, scratch)
	if err != nil {
		return nil, err
	}
	e := &Engine{prog: prog, tb: tb, solver: sv, cfg: cfg, base: map[int]Value{}, globals: map[*ssa.Global]int{},
		pkgState: map[*ssa.Package]int{}, fninfo: map[*ssa.Function]*FnInfo{}, rep: &Report{}, stubs: map[string]*ssa.Function{},
		config: map[string]string{}, typeIDs: map[string]int{}, funcObjs: map[*ssa.Function]int{}}
	e.stats.Functions = map[string]int{}
	e.cryptoTabs = newCryptoState()
	e.j2 = newJ2State()
	e.progress = os.Getenv("GOSYM_PROGRESS") != ""
	return e, nil
}

func (e *Engine) Close() { e.solver.Close() }

// SetLog directs engine diagnostics to w.
func (e *Engine) SetLog(w io.Writer) { e.solver.Log = w }

// SetCrossCheck makes every verification condition be cross-checked with a second solver.
func (e *Engine) SetCrossCheck(b bool) { e.solver.CrossCheck = b }

// ---------------------------------------------------------------------------
// Function info: value numbering and loop forest

type FnInfo struct {
	fn          *ssa.Function
	idx         map[ssa.Value]int
	nregs       int
	rpo         []int // block.Index -> rpo number (-1 unreachable)
	root        *Region
	irreducible bool
}

type Region struct {
	header *ssa.BasicBlock
	isLoop bool
	in     []bool
	nodes  []regionNode
	size   int
}

type regionNode struct {
	block *ssa.BasicBlock
	loop  *Region
}

func (e *Engine) info(fn *ssa.Function) *FnInfo {
	if fi, ok := e.fninfo[fn]; ok {
		return fi
	}
	fi := &FnInfo{fn: fn, idx: map[ssa.Value]int{}}
	n := 0
	for _, p := range fn.Params {
		fi.idx[p] = n
		n++
	}
	for _, fv := range fn.FreeVars {
		fi.idx[fv] = n
		n++
	}
	for _, b := range fn.Blocks {
		for _, ins := range b.Instrs {
			if v, ok := ins.(ssa.Value); ok {
				fi.idx[v] = n
				n++
			}
		}
	}
	fi.nregs = n
	fi.buildRegions()
	e.fninfo[fn] = fi
	return fi
}

func (fi *FnInfo) buildRegions() {
	fn := fi.fn
	nb := len(fn.Blocks)
	fi.rpo = make([]int, nb)
	for i := range fi.rpo {
		fi.rpo[i] = -1
	}
	if nb == 0 {
		return
	}
	// DFS for post-order and retreating edges
	state := make([]int, nb) // 0 unvisited, 1 on stack, 2 done
	var post []*ssa.BasicBlock
	type edge struct{ u, h *ssa.BasicBlock }
	var retreat []edge
	var dfs func(b *ssa.BasicBlock)
	dfs = func(b *ssa.BasicBlock) {
		state[b.Index] = 1
		for _, s := range b.Succs {
			switch state[s.Index] {
			case 0:
				dfs(s)
			case 1:
				retreat = append(retreat, edge{b, s})
			}
		}
		state[b.Index] = 2
		post = append(post, b)
	}
	dfs(fn.Blocks[0])
	for i, b := range post {
		fi.rpo[b.Index] = len(post) - 1 - i
	}
	for _, ed := range retreat {
		if !ed.h.Dominates(ed.u) {
			fi.irreducible = true
		}
	}
	root := &Region{header: fn.Blocks[0], in: make([]bool, nb)}
	for _, b := range post {
		root.in[b.Index] = true
		root.size++
	}
	fi.root = root
	if fi.irreducible {
		return
	}
	// natural loops grouped by header
	loops := map[int]*Region{}
	for _, ed := range retreat {
		L := loops[ed.h.Index]
		if L == nil {
			L = &Region{header: ed.h, isLoop: true, in: make([]bool, nb)}
			L.in[ed.h.Index] = true
			L.size = 1
			loops[ed.h.Index] = L
		}
		var stack []*ssa.BasicBlock
		if !L.in[ed.u.Index] {
			L.in[ed.u.Index] = true
			L.size++
			stack = append(stack, ed.u)
		}
		for len(stack) > 0 {
			b := stack[len(stack)-1]
			stack = stack[:len(stack)-1]
			for _, p := range b.Preds {
				if fi.rpo[p.Index] < 0 {
					continue
				}
				if !L.in[p.Index] {
					L.in[p.Index] = true
					L.size++
					stack = append(stack, p)
				}
			}
		}
	}
	var all []*Region
	for _, L := range loops {
		all = append(all, L)
	}
	sort.Slice(all, func(i, j int) bool {
		if all[i].size != all[j].size {
			return all[i].size < all[j].size
		}
		return all[i].header.Index < all[j].header.Index
	})
	parent := map[*Region]*Region{}
	for i, L := range all {
		parent[L] = root
		for j := i + 1; j < len(all); j++ {
			if all[j].in[L.header.Index] && all[j] != L {
				parent[L] = all[j]
				break
			}
		}
	}
	children := map[*Region][]*Region{}
	for _, L := range all {
		children[parent[L]] = append(children[parent[L]], L)
	}
	var fill func(R *Region)
	fill = func(R *Region) {
		inChild := make([]bool, nb)
		for _, c := range children[R] {
			for i, v := range c.in {
				if v {
					inChild[i] = true
				}
			}
			R.nodes = append(R.nodes, regionNode{loop: c})
			fill(c)
		}
		for _, b := range fn.Blocks {
			if R.in[b.Index] && !inChild[b.Index] {
				R.nodes = append(R.nodes, regionNode{block: b})
			}
		}
		key := func(n regionNode) int {
			if n.loop != nil {
				return fi.rpo[n.loop.header.Index]
			}
			return fi.rpo[n.block.Index]
		}
		sort.Slice(R.nodes, func(i, j int) bool { return key(R.nodes[i]) < key(R.nodes[j]) })
	}
	fill(root)
}

// ---------------------------------------------------------------------------
// Types

// width returns the bit width and signedness of a scalar type; ok=false for non-integers.
func (e *Engine) width(t types.Type) (int, bool, bool) {
	switch u := t.Underlying().(type) {
	case *types.Basic:
		switch u.Kind() {
		case types.Bool, types.UntypedBool:
			return 0, false, true
		case types.Int8:
			return 8, true, true
		case types.Int16:
			return 16, true, true
		case types.Int32, types.UntypedRune:
			return 32, true, true
		case types.Int, types.Int64, types.UntypedInt:
			return 64, true, true
		case types.Uint8:
			return 8, false, true
		case types.Uint16:
			return 16, false, true
		case types.Uint32:
			return 32, false, true
		case types.Uint, types.Uint64, types.Uintptr:
			return 64, false, true
		}
	}
	return 0, false, false
}

func isString(t types.Type) bool {
	b, ok := t.Underlying().(*types.Basic)
	return ok && b.Info()&types.IsString != 0
}

func isFloat(t types.Type) bool {
	b, ok := t.Underlying().(*types.Basic)
	return ok && b.Info()&types.IsFloat != 0
}

func (e *Engine) zero(t types.Type) Value {
	switch u := t.Underlying().(type) {
	case *types.Basic:
		if u.Info()&types.IsString != 0 {
			return e.StrConst("")
		}
		if u.Info()&types.IsFloat != 0 {
			return FloatV(0)
		}
		if u.Kind() == types.UnsafePointer {
			return &PtrV{}
		}
		if u.Kind() == types.UntypedNil || u.Kind() == types.Invalid {
			return nil
		}
		w, _, ok := e.width(t)
		if !ok {
			panic(e.abort("zero: unsupported basic type %s", t))
		}
		return e.tb.Const(w, 0)
	case *types.Pointer:
		return &PtrV{}
	case *types.Slice:
		return &SliceV{N: e.tb.Int64(0)}
	case *types.Map:
		return &MapV{}
	case *types.Chan:
		return &ChanV{}
	case *types.Signature:
		return &FuncV{}
	case *types.Interface:
		return &IfaceV{}
	case *types.Struct:
		f := make([]Value, u.NumFields())
		for i := range f {
			f[i] = e.zero(u.Field(i).Type())
		}
		return &StructV{F: f}
	case *types.Array:
		n := int(u.Len())
		el := make([]Value, n)
		if n > 0 {
			z := e.zero(u.Elem())
			for i := range el {
				el[i] = z
			}
		}
		return &ArrayV{E: el}
	case *types.Tuple:
		el := make([]Value, u.Len())
		for i := range el {
			el[i] = e.zero(u.At(i).Type())
		}
		return &TupleV{E: el}
	}
	panic(e.abort("zero: unsupported type %s (%T)", t, t.Underlying()))
}

// ---------------------------------------------------------------------------
// Globals and lazy package initialisation

func (e *Engine) globalPtr(g *ssa.Global) *PtrV {
	id, ok := e.globals[g]
	if !ok {
		e.nextObj++
		id = e.nextObj
		e.globals[g] = id
		e.base[id] = e.zero(g.Type().(*types.Pointer).Elem())
	}
	e.ensureInit(g.Pkg)
	if e.pkgState[g.Pkg] == 3 && e.initDepth == 0 && !strings.HasSuffix(g.Name(), "init$guard") {
		key := g.Pkg.Pkg.Path() + "." + g.Name()
		if !allowZeroGlobal[key] {
			panic(e.abort("global %s belongs to a package whose initialiser is not interpreted (would read a zero value)", key))
		}
	}
	return &PtrV{Obj: id}
}

// allowZeroGlobal lists globals of uninterpreted packages that may be read as zero values.
var allowZeroGlobal = map[string]bool{
	"sync.expunged": true, "internal/godebug.empty": true,
	"net/http.DefaultTransport": true, // nil until a harness installs a scripted RoundTripper (see (*http.Client).Do)
}

// skipInit lists packages whose initialisers are not interpreted (their globals keep zero values unless set by intrinsics).
var skipInit = map[string]bool{
	"runtime": true, "os": true, "syscall": true, "internal/poll": true, "net": false, "net/http": true, "crypto/tls": true,
	"reflect": true, "sync": true, "internal/godebug": true, "crypto/rand": true, "math/rand": true, "log": true,
	"github.com/sirupsen/logrus": true, "internal/cpu": true, "golang.org/x/sys/cpu": true, "crypto/x509": true,
	"internal/testlog": true, "testing": true, "flag": true, "io/fs": true, "path/filepath": true, "os/exec": true,
	"internal/syscall/unix": true, "internal/oserror": true, "context": false, "fmt": true, "encoding/json": true,
	"mime": false, "net/textproto": false, "crypto/internal/fips140": true, "hash/crc32": true, "compress/flate": true, "compress/gzip": true,
	"vendor/golang.org/x/net/http2/hpack": true, "golang.org/x/net/http2/hpack": true, "net/http/internal": true, "math/big": true,
	"github.com/miekg/dns": true, "golang.org/x/net/idna": true, "vendor/golang.org/x/net/idna": true, "golang.org/x/text/unicode/norm": true,
	"vendor/golang.org/x/text/unicode/norm": true, "vendor/golang.org/x/text/unicode/bidi": true, "net/netip": false, "unicode": false,
}

func (e *Engine) ensureInit(pkg *ssa.Package) {
	if pkg == nil {
		return
	}
	if e.pkgState[pkg] != 0 {
		return
	}
	e.pkgState[pkg] = 1
	path := pkg.Pkg.Path()
	skip := skipInit[path] || strings.HasPrefix(path, "crypto/") || strings.HasPrefix(path, "runtime/") ||
		(strings.HasPrefix(path, "internal/") && !(path == "internal/bytealg" || path == "internal/stringslite" || path == "internal/itoa" || path == "internal/byteorder"))
	if strings.HasPrefix(path, "vendor/") && !strings.Contains(path, "httpguts") {
		skip = true
	}
	if skip {
		e.pkgState[pkg] = 3 // skipped
		return
	}
	init := pkg.Func("init")
	if init == nil {
		e.pkgState[pkg] = 2
		return
	}
	st := e.newState()
	savedStack := e.stack
	e.stack = nil
	savedCfg := e.cfg
	e.cfg.LoopBound = 1 << 30
	var outs []Outcome
	e.initDepth++
	func() {
		defer func() {
			e.cfg = savedCfg
			e.stack = savedStack
			e.initDepth--
		}()
		outs = e.execFunction(init, nil, nil, st)
	}()
	if len(outs) != 1 || outs[0].panicked {
		msg := ""
		if len(outs) > 0 && outs[0].panicked {
			msg = showValue(outs[0].pv)
		}
		panic(e.abort("package init of %s did not complete deterministically (%d outcomes) %s", path, len(outs), msg))
	}
	for id, v := range outs[0].st.heap {
		e.base[id] = v
	}
	e.pkgState[pkg] = 2
}

// typeID gives a stable small integer for a type (used in equality of interface values).
func (e *Engine) typeID(t types.Type) int {
	k := types.TypeString(t, nil)
	if id, ok := e.typeIDs[k]; ok {
		return id
	}
	id := len(e.typeIDs) + 1
	e.typeIDs[k] = id
	return id
}
