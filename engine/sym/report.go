package sym

import (
	"fmt"
	"sort"
	"strconv"
	"strings"
	"time"
)

// Inputs is a concrete assignment of the harness's nondeterministic inputs.
type Inputs map[string]interface{}

type Violation struct {
	Kind    string   `json:"kind"` // "assert" or "panic"
	Label   string   `json:"label"`
	Message string   `json:"message,omitempty"`
	Stack   []string `json:"stack,omitempty"`
	Inputs  Inputs   `json:"inputs"`
	Known   string   `json:"known,omitempty"` // known-finding id if inside a listed region
}

type Report struct {
	Violations     []Violation        `json:"violations"`
	Known          map[string]*Violation `json:"known"` // KF id -> example
	Reached        map[string]Inputs  `json:"reached"`
	ReachLabels    map[string]bool    `json:"reach_labels"` // all vpReach labels seen -> reached?
	Inconclusive   []string           `json:"inconclusive"`
	Obligations    int                `json:"obligations"`
	Discharged     int                `json:"discharged"`
	UnwindFailures int                `json:"unwind_failures"`
	Stubs          []string           `json:"stubs"`
	PathsCompleted int                `json:"paths_completed"`
	PathsPanicked  int                `json:"paths_panicked"`
	Observations   []Inputs           `json:"observations,omitempty"`
	FmtOpaque      int                `json:"fmt_opaque"`
	J2PlainAssumed int                `json:"j2_plain_bytes_assumed"`
	stubSet        map[string]bool
	violSeen       map[string]bool
}

func (r *Report) addInconclusive(format string, args ...interface{}) {
	msg := fmt.Sprintf(format, args...)
	for _, m := range r.Inconclusive {
		if m == msg {
			return
		}
	}
	r.Inconclusive = append(r.Inconclusive, msg)
}

func (r *Report) noteStub(name string) {
	if r.stubSet == nil {
		r.stubSet = map[string]bool{}
	}
	if !r.stubSet[name] {
		r.stubSet[name] = true
		r.Stubs = append(r.Stubs, name)
		sort.Strings(r.Stubs)
	}
}

func (r *Report) addViolation(v Violation) {
	if r.violSeen == nil {
		r.violSeen = map[string]bool{}
	}
	k := v.Kind + "|" + v.Label + "|" + v.Message
	if r.violSeen[k] {
		return
	}
	r.violSeen[k] = true
	r.Violations = append(r.Violations, v)
}

func (r *Report) addKnown(id string, v Violation) {
	if r.Known == nil {
		r.Known = map[string]*Violation{}
	}
	if _, ok := r.Known[id]; !ok {
		vv := v
		vv.Known = id
		r.Known[id] = &vv
	}
}

// latin1 encodes bytes as a string with one rune per byte (lossless through JSON).
func latin1(b []byte) string {
	r := make([]rune, len(b))
	for i, c := range b {
		r[i] = rune(c)
	}
	return string(r)
}

// modelInputs evaluates the nondet log of st under a model of the given conjunction.
func (e *Engine) modelInputs(st *State, extra ...*Term) (Inputs, Result) {
	var vars []*Term
	seen := map[*Term]bool{}
	add := func(t *Term) {
		if t != nil && !t.IsConst() && !seen[t] {
			seen[t] = true
			vars = append(vars, t)
		}
	}
	for _, le := range st.log {
		for _, t := range le.T {
			add(t)
		}
		add(le.Len)
	}
	conj := append(st.pc[:len(st.pc):len(st.pc)], extra...)
	// prefer models whose clock readings are close to the real time of this run, so that they replay natively
	var prefs []*Term
	for _, le := range st.log {
		if strings.HasPrefix(le.Name, "now.sec") && len(le.T) == 1 {
			real := uint64(time.Now().Unix())
			prefs = append(prefs, e.tb.Cmp(OpULe, e.tb.Const(le.T[0].W, real), le.T[0]), e.tb.Cmp(OpULe, le.T[0], e.tb.Const(le.T[0].W, real+1800)))
		}
	}
	var res Result
	var m map[string]uint64
	if len(prefs) > 0 {
		res, m = e.solver.CheckModel(append(conj[:len(conj):len(conj)], prefs...), vars)
	}
	if res != Sat {
		res, m = e.solver.CheckModel(conj, vars)
	}
	if res != Sat {
		return nil, res
	}
	val := func(t *Term) uint64 {
		if t.IsConst() {
			return t.Val
		}
		if t.Op == OpVar {
			return m[t.Name]
		}
		return m[termName(t)]
	}
	in := Inputs{}
	for _, le := range st.log {
		switch le.Kind {
		case "bool":
			in[le.Name] = val(le.T[0]) != 0
		case "u8", "u64":
			in[le.Name] = val(le.T[0])
		case "offset":
			base, _ := strconv.ParseInt(le.Strs[0], 10, 64)
			in[le.Name] = base + int64(val(le.T[0]))
		case "i64", "int":
			in[le.Name] = signExt(val(le.T[0]), le.T[0].W)
		case "bytes", "string":
			n := len(le.T)
			if le.Len != nil {
				n = int(val(le.Len))
				if n > len(le.T) {
					n = len(le.T)
				}
			}
			b := make([]byte, n)
			for i := 0; i < n; i++ {
				b[i] = byte(val(le.T[i]))
			}
			in[le.Name] = latin1(b)
		case "choice":
			idx := int(val(le.T[0]))
			if idx >= len(le.Strs) {
				idx = 0
			}
			in[le.Name] = le.Strs[idx]
		case "config":
			in[le.Name] = le.Strs[0]
		}
	}
	return in, Sat
}
