package sym

import (
	"encoding/json"
	"go/types"
	"strconv"
	"strings"
	"unicode/utf8"

	"golang.org/x/tools/go/ssa"
)

const (
	gjNull = iota
	gjFalse
	gjNumber
	gjString
	gjTrue
	gjJSON
)

// rawOf renders a node as the Raw string of a gjson.Result: real bytes for scalars where possible, a document-carrying
// string otherwise.
func (e *Engine) rawOf(st *State, n *JNode) *StrV {
	switch n.Kind {
	case JNull:
		return e.StrConst("null")
	case JBool:
		if n.B.IsConst() {
			if n.B.Val == 1 {
				return e.StrConst("true")
			}
			return e.StrConst("false")
		}
	case JNum:
		if n.I != nil && n.I.IsConst() {
			return e.StrConst(strconv.FormatInt(n.I.SVal(), 10))
		}
		if n.Lit != nil {
			return n.Lit
		}
	case JStr:
		if k, ok := n.Str.ConcreteLen(); ok {
			q := e.tb.Const(8, '"')
			b := append(append([]*Term{q}, n.Str.B[:k]...), q)
			return &StrV{N: e.tb.Int64(int64(k + 2)), B: b}
		}
	}
	return e.docStr(st, n)
}

// gjResult builds a gjson.Result struct value for node n (nil => non-existent).
func (e *Engine) gjResult(st *State, n *JNode) Value {
	tb := e.tb
	typ := tb.Int64(gjNull)
	var raw, str *StrV = e.StrConst(""), e.StrConst("")
	var num Value = FloatV(0)
	if n != nil {
		raw = e.rawOf(st, n)
		switch n.Kind {
		case JNull:
		case JBool:
			typ = tb.Ite(n.B, tb.Int64(gjTrue), tb.Int64(gjFalse))
		case JNum:
			typ = tb.Int64(gjNumber)
			num = e.nodeFloat(n)
		case JStr:
			typ = tb.Int64(gjString)
			str = n.Str
		default:
			typ = tb.Int64(gjJSON)
		}
	}
	return &StructV{F: []Value{typ, raw, str, num, tb.Int64(0), &SliceV{N: tb.Int64(0)}}}
}

// resultNode recovers the node behind a gjson.Result value (ok=false if the Result carries plain bytes).
func (e *Engine) resultNode(st *State, r *StructV) (*JNode, bool) {
	raw := r.F[1].(*StrV)
	if raw.Doc != nil {
		return raw.Doc.Root, true
	}
	return nil, false
}

type pathHit struct {
	st *State
	n  *JNode // nil: absent
}

// getPath resolves a gjson path of the forms used by the repository: dotted plain keys and a final "prefix*" wildcard.
func (e *Engine) jGetPath(st *State, root *JNode, path string) []pathHit {
	if strings.ContainsAny(path, "#|?@\\[") {
		panic(e.abort("J2: gjson path %q not modelled", path))
	}
	parts := strings.Split(path, ".")
	cur := []pathHit{{st, root}}
	for _, part := range parts {
		var next []pathHit
		for _, h := range cur {
			if h.n == nil {
				next = append(next, h)
				continue
			}
			switch h.n.Kind {
			case JObj:
				if strings.HasSuffix(part, "*") && !strings.Contains(part[:len(part)-1], "*") {
					prefix := part[:len(part)-1]
					next = append(next, e.firstWithPrefix(h.st, h.n, prefix)...)
					continue
				}
				for _, oh := range e.objLookup(h.st, h.n, part) {
					if oh.idx < 0 {
						next = append(next, pathHit{oh.st, nil})
					} else {
						next = append(next, pathHit{oh.st, h.n.Vals[oh.idx]})
					}
				}
			case JArr:
				i, err := strconv.Atoi(part)
				if err != nil || i < 0 || i >= len(h.n.Elems) {
					next = append(next, pathHit{h.st, nil})
				} else {
					next = append(next, pathHit{h.st, h.n.Elems[i]})
				}
			default:
				next = append(next, pathHit{h.st, nil})
			}
		}
		cur = next
	}
	return cur
}

func (e *Engine) firstWithPrefix(st *State, n *JNode, prefix string) []pathHit {
	var res []pathHit
	cur := st
	for i, k := range n.Keys {
		var c *Term
		if ck, ok := k.Concrete(); ok {
			c = e.tb.Bool(strings.HasPrefix(ck, prefix))
		} else {
			c = e.hasPrefixTerm(k, prefix)
		}
		t, f := e.branch(cur, c)
		if t != nil {
			res = append(res, pathHit{t, n.Vals[i]})
		}
		if f == nil {
			return res
		}
		cur = f
	}
	return append(res, pathHit{cur, nil})
}

func (e *Engine) hasPrefixTerm(s *StrV, prefix string) *Term {
	t := e.tb
	if len(prefix) > len(s.B) {
		return t.False
	}
	r := t.Cmp(OpULe, t.Int64(int64(len(prefix))), s.N)
	for i := 0; i < len(prefix); i++ {
		r = t.And(r, t.Eq(s.B[i], t.Const(8, uint64(prefix[i]))))
	}
	return r
}

// jDelete removes the member addressed by a dotted path.
func (e *Engine) jDelete(st *State, root *JNode, parts []string) []pathHit {
	if root.Kind != JObj {
		return []pathHit{{st, root}}
	}
	var res []pathHit
	for _, oh := range e.objLookup(st, root, parts[0]) {
		if oh.idx < 0 {
			res = append(res, pathHit{oh.st, root})
			continue
		}
		if len(parts) == 1 {
			nn := &JNode{Kind: JObj}
			for i := range root.Keys {
				if i != oh.idx {
					nn.Keys = append(nn.Keys, root.Keys[i])
					nn.Vals = append(nn.Vals, root.Vals[i])
				}
			}
			res = append(res, pathHit{oh.st, nn})
			continue
		}
		for _, sub := range e.jDelete(oh.st, root.Vals[oh.idx], parts[1:]) {
			nn := &JNode{Kind: JObj, Keys: root.Keys, Vals: append([]*JNode{}, root.Vals...)}
			nn.Vals[oh.idx] = sub.n
			res = append(res, pathHit{sub.st, nn})
		}
	}
	return res
}

// jSet sets the member addressed by a dotted path (creating intermediate objects).
func (e *Engine) jSet(st *State, root *JNode, parts []string, val *JNode) []pathHit {
	if root == nil || root.Kind != JObj {
		root = &JNode{Kind: JObj}
	}
	var res []pathHit
	for _, oh := range e.objLookup(st, root, parts[0]) {
		var sub []pathHit
		if len(parts) == 1 {
			sub = []pathHit{{oh.st, val}}
		} else {
			var child *JNode
			if oh.idx >= 0 {
				child = root.Vals[oh.idx]
			}
			sub = e.jSet(oh.st, child, parts[1:], val)
		}
		for _, s := range sub {
			nn := &JNode{Kind: JObj, Keys: append([]*StrV{}, root.Keys...), Vals: append([]*JNode{}, root.Vals...)}
			if oh.idx >= 0 {
				nn.Vals[oh.idx] = s.n
			} else {
				nn.Keys = append(nn.Keys, e.StrConst(parts[0]))
				nn.Vals = append(nn.Vals, s.n)
			}
			res = append(res, pathHit{s.st, nn})
		}
	}
	return res
}

func (e *Engine) errTuple(st *State, v Value, err Value) Outcome {
	if err == nil {
		err = &IfaceV{}
	}
	return Outcome{st: st, ret: &TupleV{E: []Value{v, err}}}
}

func splitPath(e *Engine, path string) []string {
	if strings.ContainsAny(path, "#|?@\\*[") || path == "" {
		panic(e.abort("J2: sjson path %q not modelled", path))
	}
	return strings.Split(path, ".")
}

func init() {
	getBytes := func(e *Engine, st *State, data *SliceV, path string) []Outcome {
		root, ok := e.docOf(st, data)
		if !ok {
			if e.plainSymbolic(st, data) {
				// bytes whose JSON structure is symbolic: run the real gjson code on them
				getFn := e.prog.ImportedPackage("github.com/tidwall/gjson").Func("Get")
				return e.callFunction(st, getFn, []Value{e.sliceToStr(st, data), e.StrConst(path)}, nil)
			}
			return one(st, e.gjResult(st, nil))
		}
		var outs []Outcome
		for _, h := range e.jGetPath(st, root, path) {
			outs = append(outs, Outcome{st: h.st, ret: e.gjResult(h.st, h.n)})
		}
		return outs
	}
	reg("github.com/tidwall/gjson.GetBytes", func(e *Engine, st *State, args []Value, fn *ssa.Function) []Outcome {
		return getBytes(e, st, args[0].(*SliceV), e.mustConcStr(args[1]))
	})
	reg("github.com/tidwall/gjson.Get", func(e *Engine, st *State, args []Value, fn *ssa.Function) []Outcome {
		s := args[0].(*StrV)
		if _, conc := s.Concrete(); s.Doc == nil && !conc {
			return e.mergeOutcomes(e.execFunction(fn, args, nil, st))
		}
		root, ok := e.docOfStr(st, s)
		if !ok {
			return one(st, e.gjResult(st, nil))
		}
		var outs []Outcome
		for _, h := range e.jGetPath(st, root, e.mustConcStr(args[1])) {
			outs = append(outs, Outcome{st: h.st, ret: e.gjResult(h.st, h.n)})
		}
		return outs
	})
	parse := func(e *Engine, st *State, root *JNode, ok bool, fn *ssa.Function, args []Value) []Outcome {
		if !ok {
			return e.mergeOutcomes(e.execFunction(fn, args, nil, st))
		}
		return one(st, e.gjResult(st, root))
	}
	reg("github.com/tidwall/gjson.ParseBytes", func(e *Engine, st *State, args []Value, fn *ssa.Function) []Outcome {
		s := args[0].(*SliceV)
		if s.IsNil() {
			return e.mergeOutcomes(e.execFunction(fn, args, nil, st))
		}
		if _, isDoc := e.get(st, s.Obj).(*JDocV); !isDoc {
			return e.mergeOutcomes(e.execFunction(fn, args, nil, st))
		}
		root, ok := e.docOf(st, s)
		return parse(e, st, root, ok, fn, args)
	})
	reg("github.com/tidwall/gjson.Parse", func(e *Engine, st *State, args []Value, fn *ssa.Function) []Outcome {
		s := args[0].(*StrV)
		if s.Doc == nil {
			return e.mergeOutcomes(e.execFunction(fn, args, nil, st))
		}
		return one(st, e.gjResult(st, s.Doc.Root))
	})
	reg("github.com/tidwall/gjson.Valid", func(e *Engine, st *State, args []Value, fn *ssa.Function) []Outcome {
		s := args[0].(*StrV)
		if s.Doc != nil {
			return one(st, e.tb.True)
		}
		return e.mergeOutcomes(e.execFunction(fn, args, nil, st))
	})
	reg("github.com/tidwall/gjson.ValidBytes", func(e *Engine, st *State, args []Value, fn *ssa.Function) []Outcome {
		s := args[0].(*SliceV)
		if !s.IsNil() {
			if _, isDoc := e.get(st, s.Obj).(*JDocV); isDoc {
				return one(st, e.tb.True)
			}
		}
		return e.mergeOutcomes(e.execFunction(fn, args, nil, st))
	})
	reg("github.com/tidwall/gjson.stringBytes", func(e *Engine, st *State, args []Value, fn *ssa.Function) []Outcome {
		return one(st, e.newByteSlice(st, args[0].(*StrV)))
	})
	reg("github.com/tidwall/gjson.bytesString", func(e *Engine, st *State, args []Value, fn *ssa.Function) []Outcome {
		return one(st, e.sliceToStr(st, args[0].(*SliceV)))
	})
	reg("github.com/tidwall/gjson.fillIndex", noop) // Result.Index is not used by the repository
	// Result methods on document-backed results
	withNode := func(f func(e *Engine, st *State, r *StructV, n *JNode, args []Value) []Outcome) Intrinsic {
		return func(e *Engine, st *State, args []Value, fn *ssa.Function) []Outcome {
			r := args[0].(*StructV)
			if n, ok := e.resultNode(st, r); ok {
				return f(e, st, r, n, args)
			}
			return e.mergeOutcomes(e.execFunction(fn, args, nil, st))
		}
	}
	reg("(github.com/tidwall/gjson.Result).IsObject", withNode(func(e *Engine, st *State, r *StructV, n *JNode, args []Value) []Outcome {
		return one(st, e.tb.Bool(n.Kind == JObj))
	}))
	reg("(github.com/tidwall/gjson.Result).IsArray", withNode(func(e *Engine, st *State, r *StructV, n *JNode, args []Value) []Outcome {
		return one(st, e.tb.Bool(n.Kind == JArr))
	}))
	reg("(github.com/tidwall/gjson.Result).String", withNode(func(e *Engine, st *State, r *StructV, n *JNode, args []Value) []Outcome {
		if n.Kind == JStr {
			return one(st, n.Str)
		}
		return one(st, r.F[1])
	}))
	reg("(github.com/tidwall/gjson.Result).Get", withNode(func(e *Engine, st *State, r *StructV, n *JNode, args []Value) []Outcome {
		var outs []Outcome
		for _, h := range e.jGetPath(st, n, e.mustConcStr(args[1])) {
			outs = append(outs, Outcome{st: h.st, ret: e.gjResult(h.st, h.n)})
		}
		return outs
	}))
	reg("(github.com/tidwall/gjson.Result).ForEach", withNode(func(e *Engine, st *State, r *StructV, n *JNode, args []Value) []Outcome {
		iter := args[1]
		type item struct{ k, v *JNode }
		var items []item
		switch n.Kind {
		case JObj:
			for i := range n.Keys {
				items = append(items, item{&JNode{Kind: JStr, Str: n.Keys[i]}, n.Vals[i]})
			}
		case JArr:
			for _, el := range n.Elems {
				items = append(items, item{nil, el})
			}
		default:
			return e.callValue(st, iter, []Value{e.gjResult(st, nil), r})
		}
		var done []Outcome
		cur := []*State{st}
		for _, it := range items {
			var next []*State
			for _, s := range cur {
				for _, o := range e.callValue(s, iter, []Value{e.gjResult(s, it.k), e.gjResult(s, it.v)}) {
					if o.panicked {
						done = append(done, o)
						continue
					}
					t, f := e.branch(o.st, o.ret.(*Term))
					if t != nil {
						next = append(next, t)
					}
					if f != nil {
						done = append(done, Outcome{st: f})
					}
				}
			}
			cur = next
		}
		for _, s := range cur {
			done = append(done, Outcome{st: s})
		}
		return done
	}))
	// sjson
	reg("github.com/tidwall/sjson.DeleteBytes", func(e *Engine, st *State, args []Value, fn *ssa.Function) []Outcome {
		data := args[0].(*SliceV)
		root, ok := e.docOf(st, data)
		if !ok {
			return []Outcome{e.errTuple(st, data, e.newError(st, e.StrConst("sjson: invalid json")))}
		}
		var outs []Outcome
		for _, h := range e.jDelete(st, root, splitPath(e, e.mustConcStr(args[1]))) {
			if h.n == root {
				outs = append(outs, e.errTuple(h.st, data, nil))
			} else {
				outs = append(outs, e.errTuple(h.st, e.newDoc(h.st, h.n), nil))
			}
		}
		return outs
	})
	reg("github.com/tidwall/sjson.SetRawBytes", func(e *Engine, st *State, args []Value, fn *ssa.Function) []Outcome {
		data := args[0].(*SliceV)
		root, ok := e.docOf(st, data)
		if !ok {
			root = nil
		}
		val, ok := e.docOf(st, args[2].(*SliceV))
		if !ok {
			panic(e.abort("J2: sjson.SetRawBytes with a raw value that is not a modelled document"))
		}
		var outs []Outcome
		for _, h := range e.jSet(st, root, splitPath(e, e.mustConcStr(args[1])), val) {
			outs = append(outs, e.errTuple(h.st, e.newDoc(h.st, h.n), nil))
		}
		return outs
	})
	reg("github.com/tidwall/sjson.SetBytes", func(e *Engine, st *State, args []Value, fn *ssa.Function) []Outcome {
		data := args[0].(*SliceV)
		root, ok := e.docOf(st, data)
		if !ok {
			root = nil
		}
		iv := args[2].(*IfaceV)
		var encs []encOut
		if iv.T == nil {
			encs = []encOut{{st, &JNode{Kind: JNull}, nil}}
		} else {
			encs = e.encode(st, iv.V, iv.T)
		}
		var outs []Outcome
		for _, eo := range encs {
			if eo.err != nil {
				outs = append(outs, e.errTuple(eo.st, data, eo.err))
				continue
			}
			for _, h := range e.jSet(eo.st, root, splitPath(e, e.mustConcStr(args[1])), eo.n) {
				outs = append(outs, e.errTuple(h.st, e.newDoc(h.st, h.n), nil))
			}
		}
		return outs
	})

	// strconv on document-backed strings (e.g. strconv.ParseInt(string(data), ...) inside UnmarshalJSON methods)
	numErr := func(e *Engine, st *State, fnName string) Value {
		return e.newError(st, e.StrConst("strconv."+fnName+": parsing document: invalid syntax"))
	}
	reg("strconv.ParseInt", func(e *Engine, st *State, args []Value, fn *ssa.Function) []Outcome {
		s := args[0].(*StrV)
		if s.Doc == nil {
			return e.mergeOutcomes(e.execFunction(fn, args, nil, st))
		}
		n := s.Doc.Root
		if n.Kind == JNum && n.I != nil {
			return []Outcome{e.errTuple(st, n.I, nil)}
		}
		return []Outcome{e.errTuple(st, e.tb.Int64(0), numErr(e, st, "ParseInt"))}
	})
	reg("strconv.ParseFloat", func(e *Engine, st *State, args []Value, fn *ssa.Function) []Outcome {
		s := args[0].(*StrV)
		if s.Doc == nil {
			if c, ok := s.Concrete(); ok {
				f, err := strconv.ParseFloat(c, 64)
				if err != nil {
					return []Outcome{e.errTuple(st, FloatV(f), numErr(e, st, "ParseFloat"))}
				}
				return []Outcome{e.errTuple(st, FloatV(f), nil)}
			}
			// the value is not modelled; it poisons any computation that later depends on it
			return []Outcome{e.errTuple(st, &OpaqueFloatV{Why: "strconv.ParseFloat on symbolic bytes"}, nil)}
		}
		n := s.Doc.Root
		if n.Kind == JNum {
			return []Outcome{e.errTuple(st, e.nodeFloat(n), nil)}
		}
		return []Outcome{e.errTuple(st, FloatV(0), numErr(e, st, "ParseFloat"))}
	})

	// io.ReadAll of a *bytes.Reader (possibly behind io.NopCloser) positioned at the start of a J2 document: the document
	reg("io.ReadAll", func(e *Engine, st *State, args []Value, fn *ssa.Function) []Outcome {
		iv := args[0].(*IfaceV)
		for depth := 0; depth < 3 && iv != nil && iv.T != nil; depth++ {
			if strings.HasSuffix(iv.T.String(), "bytes.Reader") {
				p, ok := iv.V.(*PtrV)
				if !ok || p.IsNil() {
					break
				}
				rd := e.load(st, p).(*StructV)
				sl, pos := rd.F[0].(*SliceV), rd.F[1].(*Term)
				if !sl.IsNil() && pos.IsConst() && pos.Val == 0 {
					if _, isDoc := e.get(st, sl.Obj).(*JDocV); isDoc {
						e.store(st, &PtrV{Obj: p.Obj, Path: pathAppend(p.Path, 1)}, sl.N)
						return []Outcome{e.errTuple(st, sl, nil)}
					}
				}
				break
			}
			// wrappers such as io.nopCloser{Reader}
			if sv, ok := iv.V.(*StructV); ok && len(sv.F) == 1 {
				iv, _ = sv.F[0].(*IfaceV)
				continue
			}
			break
		}
		return e.mergeOutcomes(e.execFunction(fn, args, nil, st))
	})
	reg("unicode/utf8.Valid", func(e *Engine, st *State, args []Value, fn *ssa.Function) []Outcome {
		sl := args[0].(*SliceV)
		if !sl.IsNil() {
			if doc, isDoc := e.get(st, sl.Obj).(*JDocV); isDoc {
				// symbolic string bytes of J2 documents are plain ASCII by construction (bound of the model); concrete
				// strings and member names are checked for real
				if !jnodeUTF8(doc.Root) {
					return one(st, e.tb.False)
				}
				return one(st, e.tb.True)
			}
		}
		return e.mergeOutcomes(e.execFunction(fn, args, nil, st))
	})

	// encoding/json.Valid: a J2 document is syntactically valid JSON by construction; concrete plain bytes are judged
	// by the real function; anything else is outside the model
	reg("encoding/json.Valid", func(e *Engine, st *State, args []Value, fn *ssa.Function) []Outcome {
		sl := args[0].(*SliceV)
		if sl.IsNil() {
			return one(st, e.tb.False)
		}
		if _, isDoc := e.get(st, sl.Obj).(*JDocV); isDoc {
			return one(st, e.tb.True)
		}
		if c, ok := e.sliceToStr(st, sl).Concrete(); ok {
			return one(st, e.tb.Bool(json.Valid([]byte(c))))
		}
		panic(e.abort("encoding/json.Valid on symbolic plain bytes is not modelled"))
	})

	// harness-side document builders
	vpAPI["vpJObj"] = func(e *Engine, st *State, args []Value, fn *ssa.Function) []Outcome {
		vs := e.variadicArgs(st, args[0])
		if len(vs)%2 != 0 {
			panic(e.abort("vpJObj: odd number of arguments"))
		}
		n := &JNode{Kind: JObj}
		for i := 0; i < len(vs); i += 2 {
			k, ok := vs[i].(*IfaceV).V.(*StrV)
			if !ok {
				panic(e.abort("vpJObj: key %d is not a string", i/2))
			}
			n.Keys = append(n.Keys, k)
			n.Vals = append(n.Vals, e.builderValue(st, vs[i+1].(*IfaceV)))
		}
		return one(st, e.newDoc(st, n))
	}
	vpAPI["vpJArr"] = func(e *Engine, st *State, args []Value, fn *ssa.Function) []Outcome {
		n := &JNode{Kind: JArr, Elems: []*JNode{}}
		for _, v := range e.variadicArgs(st, args[0]) {
			n.Elems = append(n.Elems, e.builderValue(st, v.(*IfaceV)))
		}
		return one(st, e.newDoc(st, n))
	}
	// vpJNumLit(lit string) []byte: a number token given literally (for fractions / exponents)
	vpAPI["vpJNumLit"] = func(e *Engine, st *State, args []Value, fn *ssa.Function) []Outcome {
		return one(st, e.newDoc(st, &JNode{Kind: JNum, Lit: args[0].(*StrV)}))
	}
	// vpJVal(v) []byte: a single scalar as a document
	vpAPI["vpJVal"] = func(e *Engine, st *State, args []Value, fn *ssa.Function) []Outcome {
		return one(st, e.newDoc(st, e.builderValue(st, args[0].(*IfaceV))))
	}
}

func (e *Engine) builderValue(st *State, iv *IfaceV) *JNode {
	if iv.T == nil {
		return &JNode{Kind: JNull}
	}
	switch v := iv.V.(type) {
	case *StrV:
		return &JNode{Kind: JStr, Str: v}
	case *Term:
		if v.W == 0 {
			return &JNode{Kind: JBool, B: v}
		}
		_, signed, _ := e.width(iv.T)
		return &JNode{Kind: JNum, I: e.tb.Resize(v, 64, signed)}
	case *SliceV:
		if sl, ok := iv.T.Underlying().(*types.Slice); ok {
			if eb, ok := sl.Elem().Underlying().(*types.Basic); ok && eb.Kind() == types.Uint8 {
				n, ok := e.docOf(st, v)
				if !ok {
					panic(e.abort("vpJ builder: []byte value is not a JSON document"))
				}
				return n
			}
		}
	}
	panic(e.abort("vpJ builder: unsupported value type %s", iv.T))
}

// jnodeUTF8: every concrete string and member name of the tree is well-formed UTF-8.
func jnodeUTF8(n *JNode) bool {
	if n == nil {
		return true
	}
	if n.BadUTF8 {
		return false
	}
	if n.Str != nil {
		if c, ok := n.Str.Concrete(); ok && !utf8.ValidString(c) {
			return false
		}
	}
	for _, k := range n.Keys {
		if c, ok := k.Concrete(); ok && !utf8.ValidString(c) {
			return false
		}
	}
	for _, x := range n.Elems {
		if !jnodeUTF8(x) {
			return false
		}
	}
	for _, x := range n.Vals {
		if !jnodeUTF8(x) {
			return false
		}
	}
	return true
}
