package sym

import (
	"go/types"
	"strings"

	"golang.org/x/tools/go/ssa"
)

func (e *Engine) lenOf(st *State, v Value) *Term {
	switch x := v.(type) {
	case *StrV:
		return x.N
	case *SliceV:
		return x.N
	case *MapV:
		if x.IsNil() {
			return e.tb.Int64(0)
		}
		return e.tb.Int64(int64(len(e.mapObj(st, x).Keys)))
	case *ArrayV:
		return e.tb.Int64(int64(len(x.E)))
	case *PtrV:
		arr := getPath(e.get(st, x.Obj), x.Path).(*ArrayV)
		return e.tb.Int64(int64(len(arr.E)))
	case *ChanV:
		if x.Obj == 0 {
			return e.tb.Int64(0)
		}
		return e.tb.Int64(int64(len(e.chanObj(st, x).Buf)))
	}
	panic(e.abort("len of %T", v))
}

func (e *Engine) callBuiltin(st *State, f *FuncV, args []Value, site *ssa.Call) []Outcome {
	name := strings.TrimPrefix(f.Builtin, "builtin.")
	t := e.tb
	switch name {
	case "len":
		return one(st, e.lenOf(st, args[0]))
	case "cap":
		switch x := args[0].(type) {
		case *SliceV:
			return one(st, t.Int64(int64(x.Cap)))
		case *ArrayV:
			return one(st, t.Int64(int64(len(x.E))))
		case *PtrV:
			return one(st, e.lenOf(st, x))
		case *ChanV:
			if x.Obj == 0 {
				return one(st, t.Int64(0))
			}
			return one(st, t.Int64(int64(e.chanObj(st, x).Cap)))
		}
	case "append":
		return e.appendOp(st, args[0].(*SliceV), args[1], site)
	case "copy":
		return e.copyOp(st, args[0].(*SliceV), args[1])
	case "delete":
		return e.mapDelete(st, args[0].(*MapV), args[1])
	case "clear":
		switch x := args[0].(type) {
		case *MapV:
			if !x.IsNil() {
				st.heap[x.Obj] = &MapObj{}
			}
			return one(st, nil)
		case *SliceV:
			if x.IsNil() {
				return one(st, nil)
			}
			var outs []Outcome
			for _, cs := range e.concSlice(st, x) {
				n := int(cs.s.N.Val)
				if n > 0 {
					root := e.get(cs.st, x.Obj)
					arr := getPath(root, x.Path).(*ArrayV)
					el := make([]Value, len(arr.E))
					copy(el, arr.E)
					z := e.zeroOfValue(arr.E[x.Off])
					for i := 0; i < n; i++ {
						el[x.Off+i] = z
					}
					cs.st.heap[x.Obj] = setPath(root, x.Path, &ArrayV{E: el})
				}
				outs = append(outs, Outcome{st: cs.st})
			}
			return outs
		}
	case "print", "println":
		return one(st, nil)
	case "recover":
		return one(st, &IfaceV{})
	case "close":
		return e.chanClose(st, args[0].(*ChanV))
	case "vp.noop":
		return one(st, nil)
	case "ssa:wrapnilchk":
		p := args[0].(*PtrV)
		if p.IsNil() {
			return []Outcome{e.panicOut(st, "value method called using nil pointer")}
		}
		return one(st, p)
	case "min", "max":
		typ := site.Call.Args[0].Type()
		res := args[0]
		for _, a := range args[1:] {
			var lt *Term
			switch x := res.(type) {
			case *Term:
				_, signed, _ := e.width(typ)
				if signed {
					lt = t.Cmp(OpSLt, a.(*Term), x)
				} else {
					lt = t.Cmp(OpULt, a.(*Term), x)
				}
				if name == "max" {
					lt = t.And(t.Not(lt), t.Ne(a.(*Term), x))
				}
				res = t.Ite(lt, a.(*Term), x)
			case FloatV:
				y := a.(FloatV)
				if (name == "min" && y < x) || (name == "max" && y > x) {
					res = y
				}
			default:
				panic(e.abort("min/max on %T", res))
			}
		}
		return one(st, res)
	case "String": // unsafe.String(ptr, len)
		p := args[0].(*PtrV)
		n := t.Resize(args[1].(*Term), 64, true)
		if p.IsNil() {
			return one(st, e.StrConst(""))
		}
		var outs []Outcome
		for _, c := range e.concretize(st, n) {
			sl := e.ptrToSlice(c.st, p, int(c.v))
			outs = append(outs, Outcome{st: c.st, ret: e.sliceToStr(c.st, sl)})
		}
		return outs
	case "Slice": // unsafe.Slice(ptr, len)
		p := args[0].(*PtrV)
		n := t.Resize(args[1].(*Term), 64, true)
		if p.IsNil() {
			return one(st, &SliceV{N: t.Int64(0)})
		}
		var outs []Outcome
		for _, c := range e.concretize(st, n) {
			outs = append(outs, Outcome{st: c.st, ret: e.ptrToSlice(c.st, p, int(c.v))})
		}
		return outs
	case "SliceData":
		s := args[0].(*SliceV)
		if s.IsNil() {
			return one(st, &PtrV{})
		}
		return one(st, &PtrV{Obj: s.Obj, Path: pathAppend(s.Path, s.Off)})
	case "StringData":
		s := args[0].(*StrV)
		sl := e.newByteSlice(st, s)
		return one(st, &PtrV{Obj: sl.Obj, Path: []int{0}})
	}
	panic(e.abort("unsupported builtin %s(%T...)", name, firstOr(args)))
}

func firstOr(a []Value) Value {
	if len(a) > 0 {
		return a[0]
	}
	return nil
}

// ptrToSlice views n elements starting at the array element p points to.
func (e *Engine) ptrToSlice(st *State, p *PtrV, n int) *SliceV {
	if p.Sym != nil || len(p.Path) == 0 {
		panic(e.abort("unsafe slice from unsupported pointer"))
	}
	base := p.Path[:len(p.Path)-1]
	off := p.Path[len(p.Path)-1]
	arr, ok := getPath(e.get(st, p.Obj), base).(*ArrayV)
	if !ok {
		panic(e.abort("unsafe slice: pointer does not address an array element"))
	}
	if off+n > len(arr.E) {
		panic(e.abort("unsafe slice: beyond backing array"))
	}
	return &SliceV{Obj: p.Obj, Path: base, Off: off, N: e.tb.Int64(int64(n)), Cap: len(arr.E) - off}
}

// appendOp implements append(s, more...) where more is a slice or a string.
func (e *Engine) appendOp(st *State, s *SliceV, more Value, site *ssa.Call) []Outcome {
	var outs []Outcome
	t := e.tb
	// normalise the appended elements to (state, []Value, n)
	type src struct {
		st   *State
		elts []Value
	}
	var srcs []src
	switch m := more.(type) {
	case *StrV:
		for _, cs := range e.concStr(st, m) {
			el := make([]Value, len(cs.s.B))
			for i, b := range cs.s.B {
				el[i] = b
			}
			srcs = append(srcs, src{cs.st, el})
		}
	case *SliceV:
		if m.IsNil() {
			srcs = append(srcs, src{st, nil})
			break
		}
		for _, cs := range e.concSlice(st, m) {
			n := int(cs.s.N.Val)
			el := make([]Value, n)
			for i := 0; i < n; i++ {
				el[i] = e.sliceElem(cs.st, cs.s, i)
			}
			srcs = append(srcs, src{cs.st, el})
		}
	default:
		panic(e.abort("append of %T", more))
	}
	for _, sr := range srcs {
		k := len(sr.elts)
		if k == 0 {
			outs = append(outs, Outcome{st: sr.st, ret: s})
			continue
		}
		if s.IsNil() {
			c := k
			if c < 4 {
				c = 4
			}
			el := make([]Value, c)
			copy(el, sr.elts)
			z := e.zeroLike(sr.elts[0], site)
			for i := k; i < c; i++ {
				el[i] = z
			}
			id := e.alloc(sr.st, &ArrayV{E: el})
			outs = append(outs, Outcome{st: sr.st, ret: &SliceV{Obj: id, N: t.Int64(int64(k)), Cap: c}})
			continue
		}
		// symbolic length with a single scalar element: conditional in-place store, fork only on reallocation
		if !s.N.IsConst() && k == 1 {
			if _, scalar := sr.elts[0].(*Term); scalar {
				fits := t.Cmp(OpSLt, s.N, t.Int64(int64(s.Cap)))
				in, grow := e.branch(sr.st, fits)
				if in != nil {
					idx := s.N
					if s.Off != 0 {
						idx = t.Bin(OpAdd, s.N, t.Int64(int64(s.Off)))
					}
					e.store(in, &PtrV{Obj: s.Obj, Path: s.Path, Sym: idx, SymN: s.Off + s.Cap}, sr.elts[0])
					outs = append(outs, Outcome{st: in, ret: &SliceV{Obj: s.Obj, Path: s.Path, Off: s.Off, N: t.Bin(OpAdd, s.N, t.Int64(1)), Cap: s.Cap}})
				}
				if grow != nil {
					// N == Cap here
					outs = append(outs, e.appendConcrete(grow, &SliceV{Obj: s.Obj, Path: s.Path, Off: s.Off, N: t.Int64(int64(s.Cap)), Cap: s.Cap}, sr.elts, site))
				}
				continue
			}
		}
		for _, cs := range e.concSlice(sr.st, s) {
			outs = append(outs, e.appendConcrete(cs.st, cs.s, sr.elts, site))
		}
	}
	return outs
}

func (e *Engine) appendConcrete(st *State, s *SliceV, elts []Value, site *ssa.Call) Outcome {
	t := e.tb
	n := int(s.N.Val)
	k := len(elts)
	if n+k <= s.Cap {
		root := e.get(st, s.Obj)
		arr := getPath(root, s.Path).(*ArrayV)
		el := make([]Value, len(arr.E))
		copy(el, arr.E)
		copy(el[s.Off+n:], elts)
		st.heap[s.Obj] = setPath(root, s.Path, &ArrayV{E: el})
		return Outcome{st: st, ret: &SliceV{Obj: s.Obj, Path: s.Path, Off: s.Off, N: t.Int64(int64(n + k)), Cap: s.Cap}}
	}
	c := 2 * s.Cap
	if c < n+k {
		c = n + k
	}
	if c < 4 {
		c = 4
	}
	el := make([]Value, c)
	arr := getPath(e.get(st, s.Obj), s.Path).(*ArrayV)
	copy(el, arr.E[s.Off:s.Off+n])
	copy(el[n:], elts)
	z := e.zeroLike(elts[0], site)
	for i := n + k; i < c; i++ {
		el[i] = z
	}
	id := e.alloc(st, &ArrayV{E: el})
	return Outcome{st: st, ret: &SliceV{Obj: id, N: t.Int64(int64(n + k)), Cap: c}}
}

// zeroLike returns the zero value for the element type of an append.
func (e *Engine) zeroLike(sample Value, site *ssa.Call) Value {
	if site != nil {
		if sl, ok := site.Type().Underlying().(*types.Slice); ok {
			return e.zero(sl.Elem())
		}
	}
	switch x := sample.(type) {
	case *Term:
		return e.tb.Const(x.W, 0)
	case *StrV:
		return e.StrConst("")
	}
	return e.zeroOfValue(sample)
}

// zeroOfValue builds a zero value structurally similar to v (used when no static type is at hand).
func (e *Engine) zeroOfValue(v Value) Value {
	switch x := v.(type) {
	case *Term:
		return e.tb.Const(x.W, 0)
	case *StrV:
		return e.StrConst("")
	case FloatV:
		return FloatV(0)
	case *PtrV:
		return &PtrV{}
	case *SliceV:
		return &SliceV{N: e.tb.Int64(0)}
	case *MapV:
		return &MapV{}
	case *IfaceV:
		return &IfaceV{}
	case *FuncV:
		return &FuncV{}
	case *StructV:
		f := make([]Value, len(x.F))
		for i := range f {
			f[i] = e.zeroOfValue(x.F[i])
		}
		return &StructV{F: f}
	case *ArrayV:
		el := make([]Value, len(x.E))
		for i := range el {
			el[i] = e.zeroOfValue(x.E[i])
		}
		return &ArrayV{E: el}
	}
	panic(e.abort("zeroOfValue %T", v))
}

// copyOp implements copy(dst, src).
func (e *Engine) copyOp(st *State, dst *SliceV, src Value) []Outcome {
	var outs []Outcome
	t := e.tb
	if dst.IsNil() {
		return one(st, t.Int64(0))
	}
	for _, cd := range e.concSlice(st, dst) {
		var elts []Value
		sts := []*State{cd.st}
		var eltss [][]Value
		switch m := src.(type) {
		case *StrV:
			sts = nil
			for _, cs := range e.concStr(cd.st, m) {
				el := make([]Value, len(cs.s.B))
				for i, b := range cs.s.B {
					el[i] = b
				}
				sts = append(sts, cs.st)
				eltss = append(eltss, el)
			}
		case *SliceV:
			if m.IsNil() {
				eltss = append(eltss, nil)
				break
			}
			sts = nil
			for _, cs := range e.concSlice(cd.st, m) {
				n := int(cs.s.N.Val)
				el := make([]Value, n)
				for i := 0; i < n; i++ {
					el[i] = e.sliceElem(cs.st, cs.s, i)
				}
				sts = append(sts, cs.st)
				eltss = append(eltss, el)
			}
		}
		_ = elts
		for i, s := range sts {
			el := eltss[i]
			n := int(cd.s.N.Val)
			if len(el) < n {
				n = len(el)
			}
			if n > 0 {
				root := e.get(s, cd.s.Obj)
				arr := getPath(root, cd.s.Path).(*ArrayV)
				ne := make([]Value, len(arr.E))
				copy(ne, arr.E)
				copy(ne[cd.s.Off:cd.s.Off+n], el[:n])
				s.heap[cd.s.Obj] = setPath(root, cd.s.Path, &ArrayV{E: ne})
			}
			outs = append(outs, Outcome{st: s, ret: t.Int64(int64(n))})
		}
	}
	return outs
}
