package sym

import "math"

// rng is a conservative value range of a bit-vector term: signed [slo,shi] (as sign-extended int64) and
// unsigned [ulo,uhi]. Both are always valid over-approximations.
type rng struct {
	slo, shi int64
	ulo, uhi uint64
	ok       bool
}

func fullRange(w int) rng {
	if w >= 64 {
		return rng{math.MinInt64, math.MaxInt64, 0, math.MaxUint64, true}
	}
	return rng{-(int64(1) << uint(w-1)), (int64(1) << uint(w-1)) - 1, 0, mask(w), true}
}

// normalise tightens each view using the other.
func (r rng) normalise(w int) rng {
	f := fullRange(w)
	if r.slo < f.slo {
		r.slo = f.slo
	}
	if r.shi > f.shi {
		r.shi = f.shi
	}
	if r.uhi > f.uhi {
		r.uhi = f.uhi
	}
	if r.slo > r.shi || r.ulo > r.uhi {
		return f
	}
	// unsigned -> signed
	if r.uhi <= uint64(f.shi) {
		if int64(r.ulo) > r.slo {
			r.slo = int64(r.ulo)
		}
		if int64(r.uhi) < r.shi {
			r.shi = int64(r.uhi)
		}
	}
	// signed -> unsigned
	if r.slo >= 0 {
		if uint64(r.slo) > r.ulo {
			r.ulo = uint64(r.slo)
		}
		if uint64(r.shi) < r.uhi {
			r.uhi = uint64(r.shi)
		}
	}
	if r.slo > r.shi || r.ulo > r.uhi {
		return f
	}
	return r
}

func addOv(a, b int64) (int64, bool) {
	c := a + b
	if (a > 0 && b > 0 && c < 0) || (a < 0 && b < 0 && c >= 0) {
		return 0, true
	}
	return c, false
}

func mulOv(a, b int64) (int64, bool) {
	if a == 0 || b == 0 {
		return 0, false
	}
	c := a * b
	if c/b != a || (a == -1 && b == math.MinInt64) || (b == -1 && a == math.MinInt64) {
		return 0, true
	}
	return c, false
}

func uaddOv(a, b uint64) (uint64, bool) {
	c := a + b
	return c, c < a
}

func umulOv(a, b uint64) (uint64, bool) {
	if a == 0 || b == 0 {
		return 0, false
	}
	c := a * b
	return c, c/b != a
}

func min64(a, b int64) int64 {
	if a < b {
		return a
	}
	return b
}
func max64(a, b int64) int64 {
	if a > b {
		return a
	}
	return b
}
func minU(a, b uint64) uint64 {
	if a < b {
		return a
	}
	return b
}
func maxU(a, b uint64) uint64 {
	if a > b {
		return a
	}
	return b
}

// Range computes (and caches) the value range of a bit-vector term.
func (tb *TB) Range(t *Term) rng { return tb.rangeEnv(t, nil, 0) }

// refine narrows the range of x under the assumption that comparison c (a Bool term) has the given truth value.
// Only comparisons of x with a constant are used. Returns the environment extended for x, or nil.
func (tb *TB) refine(c *Term, truth bool, env map[*Term]rng, depth int) map[*Term]rng {
	for c.Op == OpNot {
		c = c.Args[0]
		truth = !truth
	}
	if c.Op == OpAnd && truth {
		e1 := tb.refine(c.Args[0], true, env, depth)
		if e1 == nil {
			e1 = env
		}
		e2 := tb.refine(c.Args[1], true, e1, depth)
		if e2 == nil {
			return e1
		}
		return e2
	}
	if c.Op == OpOr && !truth {
		e1 := tb.refine(c.Args[0], false, env, depth)
		if e1 == nil {
			e1 = env
		}
		e2 := tb.refine(c.Args[1], false, e1, depth)
		if e2 == nil {
			return e1
		}
		return e2
	}
	if c.N != 2 {
		return nil
	}
	a, b := c.Args[0], c.Args[1]
	var x, k *Term
	xLeft := true
	switch {
	case b.IsConst() && !a.IsConst():
		x, k = a, b
	case a.IsConst() && !b.IsConst():
		x, k, xLeft = b, a, false
	default:
		return nil
	}
	if x.W == 0 {
		return nil
	}
	r := tb.rangeEnv(x, env, depth+1)
	ks, ku := signExt(k.Val, k.W), k.Val
	op := c.Op
	// normalise to "x op k" with truth
	switch op {
	case OpEq:
		if truth {
			r = rng{ks, ks, ku, ku, true}
		} else {
			return nil
		}
	case OpSLt, OpSLe:
		strict := op == OpSLt
		// x < k (xLeft) or k < x
		less := xLeft
		if !truth {
			// not(x < k) == x >= k ; not(k < x) == x <= k
			less = !less
			strict = !strict
		}
		if less { // x < k or x <= k
			hi := ks
			if strict {
				if ks == math.MinInt64 {
					return nil
				}
				hi = ks - 1
			}
			r.shi = min64(r.shi, hi)
		} else { // x > k or x >= k
			lo := ks
			if strict {
				if ks == math.MaxInt64 {
					return nil
				}
				lo = ks + 1
			}
			r.slo = max64(r.slo, lo)
		}
	case OpULt, OpULe:
		strict := op == OpULt
		less := xLeft
		if !truth {
			less = !less
			strict = !strict
		}
		if less {
			hi := ku
			if strict {
				if ku == 0 {
					return nil
				}
				hi = ku - 1
			}
			r.uhi = minU(r.uhi, hi)
		} else {
			lo := ku
			if strict {
				if ku == math.MaxUint64 {
					return nil
				}
				lo = ku + 1
			}
			r.ulo = maxU(r.ulo, lo)
		}
	default:
		return nil
	}
	if r.slo > r.shi || r.ulo > r.uhi {
		return nil // contradictory: leave unrefined
	}
	r = r.normalise(x.W)
	r.ok = true
	ne := make(map[*Term]rng, len(env)+1)
	for k2, v := range env {
		ne[k2] = v
	}
	ne[x] = r
	return ne
}

func (tb *TB) rangeEnv(t *Term, env map[*Term]rng, depth int) rng {
	if t.W == 0 {
		return rng{}
	}
	if env != nil {
		if r, ok := env[t]; ok {
			return r
		}
		if depth > 12 || len(t.Vars()) == 0 {
			return tb.rangeEnv(t, nil, 0)
		}
	} else if t.rng.ok {
		return t.rng
	}
	w := t.W
	f := fullRange(w)
	r := f
	arg := func(i int) rng { return tb.rangeEnv(t.Args[i], env, depth+1) }
	inW := func(lo, hi int64) bool { return lo >= f.slo && hi <= f.shi }
	switch t.Op {
	case OpConst:
		r = rng{signExt(t.Val, w), signExt(t.Val, w), t.Val, t.Val, true}
	case OpZExt:
		a := arg(0)
		r.ulo, r.uhi = a.ulo, a.uhi
	case OpSExt:
		a := arg(0)
		r.slo, r.shi = a.slo, a.shi
		if a.slo >= 0 {
			r.ulo, r.uhi = uint64(a.slo), uint64(a.shi)
		}
	case OpIte:
		a, b := arg(1), arg(2)
		if depth < 12 {
			if e1 := tb.refine(t.Args[0], true, env, depth); e1 != nil {
				a = tb.rangeEnv(t.Args[1], e1, depth+1)
			}
			if e2 := tb.refine(t.Args[0], false, env, depth); e2 != nil {
				b = tb.rangeEnv(t.Args[2], e2, depth+1)
			}
		}
		r = rng{min64(a.slo, b.slo), max64(a.shi, b.shi), minU(a.ulo, b.ulo), maxU(a.uhi, b.uhi), true}
	case OpAdd:
		a, b := arg(0), arg(1)
		lo, o1 := addOv(a.slo, b.slo)
		hi, o2 := addOv(a.shi, b.shi)
		if !o1 && !o2 && inW(lo, hi) {
			r.slo, r.shi = lo, hi
		}
		ulo, o3 := uaddOv(a.ulo, b.ulo)
		uhi, o4 := uaddOv(a.uhi, b.uhi)
		if !o3 && !o4 && uhi <= f.uhi {
			r.ulo, r.uhi = ulo, uhi
		}
	case OpSub:
		a, b := arg(0), arg(1)
		lo, o1 := addOv(a.slo, -b.shi)
		hi, o2 := addOv(a.shi, -b.slo)
		if b.shi != math.MinInt64 && b.slo != math.MinInt64 && !o1 && !o2 && inW(lo, hi) {
			r.slo, r.shi = lo, hi
		}
		if a.ulo >= b.uhi {
			r.ulo, r.uhi = a.ulo-b.uhi, a.uhi-b.ulo
		}
	case OpMul:
		a, b := arg(0), arg(1)
		c1, o1 := mulOv(a.slo, b.slo)
		c2, o2 := mulOv(a.slo, b.shi)
		c3, o3 := mulOv(a.shi, b.slo)
		c4, o4 := mulOv(a.shi, b.shi)
		if !o1 && !o2 && !o3 && !o4 {
			lo := min64(min64(c1, c2), min64(c3, c4))
			hi := max64(max64(c1, c2), max64(c3, c4))
			if inW(lo, hi) {
				r.slo, r.shi = lo, hi
			}
		}
		ulo, o5 := umulOv(a.ulo, b.ulo)
		uhi, o6 := umulOv(a.uhi, b.uhi)
		if !o5 && !o6 && uhi <= f.uhi {
			r.ulo, r.uhi = ulo, uhi
		}
	case OpUDiv:
		a, b := arg(0), arg(1)
		if b.ulo > 0 {
			r.ulo, r.uhi = a.ulo/b.uhi, a.uhi/b.ulo
		}
	case OpURem:
		a, b := arg(0), arg(1)
		if b.ulo > 0 {
			r.ulo, r.uhi = 0, minU(a.uhi, b.uhi-1)
		}
	case OpSDiv:
		a, b := arg(0), arg(1)
		if b.slo > 0 {
			c := []int64{a.slo / b.slo, a.slo / b.shi, a.shi / b.slo, a.shi / b.shi}
			r.slo = min64(min64(c[0], c[1]), min64(c[2], c[3]))
			r.shi = max64(max64(c[0], c[1]), max64(c[2], c[3]))
		}
	case OpSRem:
		a, b := arg(0), arg(1)
		if b.slo > 0 {
			m := b.shi - 1
			switch {
			case a.slo >= 0:
				r.slo, r.shi = 0, min64(a.shi, m)
			case a.shi <= 0:
				r.slo, r.shi = max64(a.slo, -m), 0
			default:
				r.slo, r.shi = max64(a.slo, -m), min64(a.shi, m)
			}
		}
	case OpBAnd:
		a, b := arg(0), arg(1)
		r.ulo, r.uhi = 0, minU(a.uhi, b.uhi)
	case OpBOr, OpBXor:
		a, b := arg(0), arg(1)
		m := maxU(a.uhi, b.uhi)
		// smallest all-ones value >= m
		p := uint64(0)
		for p < m {
			p = p<<1 | 1
		}
		r.ulo, r.uhi = 0, p
		if t.Op == OpBOr {
			r.ulo = maxU(a.ulo, b.ulo)
		}
	case OpLShr:
		a, b := arg(0), arg(1)
		if b.ulo == b.uhi && b.ulo < uint64(w) {
			r.ulo, r.uhi = a.ulo>>b.ulo, a.uhi>>b.ulo
		} else {
			r.ulo, r.uhi = 0, a.uhi
		}
	case OpShl:
		a, b := arg(0), arg(1)
		if b.ulo == b.uhi && b.ulo < uint64(w) {
			hi := a.uhi << b.ulo
			if hi>>b.ulo == a.uhi && hi <= f.uhi {
				r.ulo, r.uhi = a.ulo<<b.ulo, hi
			}
		}
	case OpAShr:
		a, b := arg(0), arg(1)
		if b.ulo == b.uhi && b.ulo < uint64(w) {
			r.slo, r.shi = a.slo>>b.ulo, a.shi>>b.ulo
		}
	case OpExtract:
		a := arg(0)
		if t.Val == 0 && a.uhi <= f.uhi {
			r.ulo, r.uhi = a.ulo, a.uhi
		} else if t.Val > 0 && t.Val < 64 {
			hi := a.uhi >> t.Val
			if hi <= f.uhi {
				r.ulo, r.uhi = 0, hi
				if a.ulo>>t.Val <= hi && (a.uhi-a.ulo) < (uint64(1)<<t.Val) {
					// no information on low bound in general
				}
			}
		}
	case OpConcat:
		hi, lo := arg(0), arg(1)
		lw := uint(t.Args[1].W)
		r.ulo, r.uhi = hi.ulo<<lw|lo.ulo, hi.uhi<<lw|lo.uhi
		if hi.ulo != hi.uhi {
			r.ulo, r.uhi = hi.ulo<<lw, hi.uhi<<lw|mask(int(lw))
		}
	case OpNeg:
		a := arg(0)
		if a.slo != f.slo {
			r.slo, r.shi = -a.shi, -a.slo
		}
	}
	r.ok = true
	r = r.normalise(w)
	r.ok = true
	if env == nil {
		t.rng = r
	}
	return r
}

// cmpByRange decides an ordering comparison from ranges; ok=false if undecided.
func (tb *TB) cmpByRange(op Op, a, b *Term) (bool, bool) {
	ra, rb := tb.Range(a), tb.Range(b)
	switch op {
	case OpULt:
		if ra.uhi < rb.ulo {
			return true, true
		}
		if ra.ulo >= rb.uhi {
			return false, true
		}
	case OpULe:
		if ra.uhi <= rb.ulo {
			return true, true
		}
		if ra.ulo > rb.uhi {
			return false, true
		}
	case OpSLt:
		if ra.shi < rb.slo {
			return true, true
		}
		if ra.slo >= rb.shi {
			return false, true
		}
	case OpSLe:
		if ra.shi <= rb.slo {
			return true, true
		}
		if ra.slo > rb.shi {
			return false, true
		}
	}
	return false, false
}

// disjointRanges reports whether a and b can never be equal.
func (tb *TB) disjointRanges(a, b *Term) bool {
	ra, rb := tb.Range(a), tb.Range(b)
	return ra.uhi < rb.ulo || rb.uhi < ra.ulo || ra.shi < rb.slo || rb.shi < ra.slo
}
