package sym

import (
	"go/types"

	"golang.org/x/tools/go/ssa"
)

// Symbolic clock: time.Now() returns an arbitrary instant between 2001 and 2100 (wall clock, no monotonic
// reading), non-decreasing across calls within one execution.
const (
	unixToInternal = (1969*365 + 1969/4 - 1969/100 + 1969/400) * 86400
	clockLo        = 978307200  // 2001-01-01
	clockHi        = 4102444800 // 2100-01-01
)

func init() {
	reg("time.Now", func(e *Engine, st *State, args []Value, fn *ssa.Function) []Outcome {
		t := e.tb
		if e.cfg.FixedClock {
			// one fixed instant; vpClockAlign moves it to the requested second of its minute, vpSleep advances it
			var loc Value = &PtrV{}
			if g, ok := fn.Pkg.Members["localLoc"].(*ssa.Global); ok {
				loc = e.globalPtr(g)
			}
			base := int64(1_700_000_000 - 1_700_000_000%60)
			if b, ok := st.aux["clock.fixed"]; ok {
				base = b.(*Term).SVal()
			}
			if al, ok := st.aux["clock.align"]; ok && al.(*Term).IsConst() {
				base = base - base%60 + al.(*Term).SVal()
				delete2(st, "clock.align")
			}
			if sl, ok := st.aux["clock.sleep"]; ok && sl.(*Term).IsConst() {
				base += sl.(*Term).SVal()
				delete2(st, "clock.sleep")
			}
			st.setAux("clock.fixed", t.Int64(base))
			wall := int64(0)
			if e.cfg.TickingClock {
				// strictly increasing readings: one microsecond per call (wall holds the nanoseconds)
				if tk, ok := st.aux["clock.tick"]; ok {
					wall = tk.(*Term).SVal()
				}
				wall += 1000
				if wall >= 1_000_000_000 {
					panic(e.abort("ticking clock: more than 10^6 readings"))
				}
				st.setAux("clock.tick", t.Int64(wall))
			}
			return one(st, &StructV{F: []Value{t.Int64(wall), t.Int64(base + unixToInternal), loc}})
		}
		nsec30 := t.Fresh("now.nsec", 30)
		nsec := t.ZExt(nsec30, 64)
		var sec *Term
		al, aligned := st.aux["clock.align"]
		sl, slept := st.aux["clock.sleep"]
		last, hasLast := st.aux["clock.last"]
		switch {
		case slept && hasLast:
			// exactly that many whole seconds after the previous reading
			sec = t.Bin(OpAdd, last.(*StructV).F[0].(*Term), t.Resize(sl.(*Term), 64, true))
			delete2(st, "clock.sleep")
		case aligned && al.(*Term).IsConst():
			// minute*60 + second: the second of the minute is structural
			m := t.Fresh("now.minute", 26)
			sec = t.Bin(OpAdd, t.Bin(OpMul, t.ZExt(m, 64), t.Int64(60)), t.Resize(al.(*Term), 64, true))
			st.log = append(st.log[:len(st.log):len(st.log)], LogEntry{Name: m.Name, Kind: "u64", T: []*Term{m}})
			delete2(st, "clock.align")
		default:
			sec33 := t.Fresh("now.sec", 33)
			sec = t.ZExt(sec33, 64)
			st.log = append(st.log[:len(st.log):len(st.log)], LogEntry{Name: sec33.Name, Kind: "u64", T: []*Term{sec33}})
			if aligned {
				st.assume(t.Eq(t.Bin(OpURem, sec, t.Int64(60)), t.Resize(al.(*Term), 64, true)))
				delete2(st, "clock.align")
			}
		}
		st.log = append(st.log[:len(st.log):len(st.log)], LogEntry{Name: nsec30.Name, Kind: "u64", T: []*Term{nsec30}})
		st.assume(t.Cmp(OpSLe, t.Int64(clockLo), sec))
		st.assume(t.Cmp(OpSLe, sec, t.Int64(clockHi)))
		st.assume(t.Cmp(OpULt, nsec, t.Int64(1_000_000_000)))
		if last, ok := st.aux["clock.last"]; ok {
			l := last.(*StructV)
			ls, ln := l.F[0].(*Term), l.F[1].(*Term)
			st.assume(t.Or(t.Cmp(OpSLt, ls, sec), t.And(t.Eq(ls, sec), t.Cmp(OpULe, ln, nsec))))
		}
		st.setAux("clock.last", &StructV{F: []Value{sec, nsec}})
		// locate &time.localLoc
		var loc Value = &PtrV{}
		if pkg := fn.Pkg; pkg != nil {
			if g, ok := pkg.Members["localLoc"].(*ssa.Global); ok {
				loc = e.globalPtr(g)
			}
		}
		ext := t.Bin(OpAdd, sec, t.Int64(unixToInternal))
		return one(st, &StructV{F: []Value{nsec, ext, loc}})
	})
	reg("(*time.Location).get", func(e *Engine, st *State, args []Value, fn *ssa.Function) []Outcome {
		// assumption: the local zone is UTC
		if g, ok := fn.Pkg.Members["utcLoc"].(*ssa.Global); ok {
			return one(st, e.globalPtr(g))
		}
		return one(st, args[0])
	})
	// Second(): second within the minute of the UTC reading (assumption: zone offsets are whole minutes)
	reg("(time.Time).Second", func(e *Engine, st *State, args []Value, fn *ssa.Function) []Outcome {
		tv := args[0].(*StructV)
		wall, ext := tv.F[0].(*Term), tv.F[1].(*Term)
		t := e.tb
		if !t.Eq(t.Bin(OpBAnd, wall, t.Const(64, 1<<63)), t.Const(64, 0)).IsTrue() {
			return e.mergeOutcomes(e.execFunction(fn, args, nil, st))
		}
		unix := t.Bin(OpSub, ext, t.Int64(unixToInternal))
		if r := t.Range(unix); r.slo < 0 {
			return e.mergeOutcomes(e.execFunction(fn, args, nil, st))
		}
		return one(st, t.Bin(OpURem, unix, t.Int64(60)))
	})
	reg("time.Sleep", noop)
	reg("time.runtimeNano", func(e *Engine, st *State, args []Value, fn *ssa.Function) []Outcome {
		return one(st, e.tb.Int64(1))
	})
}

var _ = types.Typ

func delete2(st *State, k string) {
	n := make(map[string]Value, len(st.aux))
	for a, b := range st.aux {
		if a != k {
			n[a] = b
		}
	}
	st.aux = n
}
