package sym

import (
	"go/types"

	"golang.org/x/tools/go/ssa"
)

// Symbolic clock: time.Now() returns an arbitrary instant between 2001 and 2100 (wall clock, no monotonic
// reading), non-decreasing across calls within one execution.
const (
	unixToInternal = (1969*365 + 1969/4 - 1969/100 + 1969/400) * 86400
	clockLo        = 978307200  // 2001-01-01
	clockHi        = 4102444800 // 2100-01-01
)

func init() {
	reg("time.Now", func(e *Engine, st *State, args []Value, fn *ssa.Function) []Outcome {
		t := e.tb
		sec33 := t.Fresh("now.sec", 33)
		nsec30 := t.Fresh("now.nsec", 30)
		sec, nsec := t.ZExt(sec33, 64), t.ZExt(nsec30, 64)
		st.log = append(st.log[:len(st.log):len(st.log)], LogEntry{Name: sec33.Name, Kind: "u64", T: []*Term{sec33}}, LogEntry{Name: nsec30.Name, Kind: "u64", T: []*Term{nsec30}})
		st.assume(t.Cmp(OpSLe, t.Int64(clockLo), sec))
		st.assume(t.Cmp(OpSLe, sec, t.Int64(clockHi)))
		st.assume(t.Cmp(OpULt, nsec, t.Int64(1_000_000_000)))
		if last, ok := st.aux["clock.last"]; ok {
			l := last.(*StructV)
			ls, ln := l.F[0].(*Term), l.F[1].(*Term)
			st.assume(t.Or(t.Cmp(OpSLt, ls, sec), t.And(t.Eq(ls, sec), t.Cmp(OpULe, ln, nsec))))
		}
		st.setAux("clock.last", &StructV{F: []Value{sec, nsec}})
		// locate &time.localLoc
		var loc Value = &PtrV{}
		if pkg := fn.Pkg; pkg != nil {
			if g, ok := pkg.Members["localLoc"].(*ssa.Global); ok {
				loc = e.globalPtr(g)
			}
		}
		ext := t.Bin(OpAdd, sec, t.Int64(unixToInternal))
		return one(st, &StructV{F: []Value{nsec, ext, loc}})
	})
	reg("(*time.Location).get", func(e *Engine, st *State, args []Value, fn *ssa.Function) []Outcome {
		// assumption: the local zone is UTC
		if g, ok := fn.Pkg.Members["utcLoc"].(*ssa.Global); ok {
			return one(st, e.globalPtr(g))
		}
		return one(st, args[0])
	})
	reg("time.Sleep", noop)
	reg("time.runtimeNano", func(e *Engine, st *State, args []Value, fn *ssa.Function) []Outcome {
		return one(st, e.tb.Int64(1))
	})
}

var _ = types.Typ
