// Package sym is the symbolic executor ("gosym"): go/ssa -> QF_BV.
package sym

import (
	"fmt"
	"math/bits"
	"strings"
)

// Op is a term operator.
type Op uint8

const (
	OpConst Op = iota // W-bit constant (W==0: bool)
	OpVar
	OpNot // bool
	OpAnd // bool, binary
	OpOr  // bool, binary
	OpIte // bool or bv
	OpEq  // any -> bool
	OpAdd
	OpSub
	OpMul
	OpUDiv
	OpURem
	OpSDiv
	OpSRem
	OpBAnd
	OpBOr
	OpBXor
	OpBNot
	OpNeg
	OpShl
	OpLShr
	OpAShr
	OpULt
	OpULe
	OpSLt
	OpSLe
	OpZExt    // to W
	OpSExt    // to W
	OpExtract // low W bits after shifting right by Val  (extract [Val+W-1:Val])
	OpConcat  // hi, lo
)

var opNames = [...]string{"const", "var", "not", "and", "or", "ite", "=", "bvadd", "bvsub", "bvmul", "bvudiv", "bvurem", "bvsdiv", "bvsrem",
	"bvand", "bvor", "bvxor", "bvnot", "bvneg", "bvshl", "bvlshr", "bvashr", "bvult", "bvule", "bvslt", "bvsle", "zext", "sext", "extract", "concat"}

// Term is a hash-consed node. W==0 means Bool.
type Term struct {
	ID   int
	Op   Op
	W    int
	Args [3]*Term
	N    int    // number of args
	Val  uint64 // constant value / extract low bit
	Name string // variable name
	// Arith: the term contains a wide multiplication / division / remainder (routes queries to the integer back end)
	Arith bool
	vars  []int32 // sorted ids of the variables occurring in the term (computed lazily)
	varsOK bool
	rng    rng
}

type termKey struct {
	op      Op
	w       int
	a, b, c int
	val     uint64
	name    string
}

// TB is a term builder (one per engine instance).
type TB struct {
	tab   map[termKey]*Term
	next  int
	True  *Term
	False *Term
	vars  []*Term
	varByID map[int]*Term
}

func NewTB() *TB {
	tb := &TB{tab: map[termKey]*Term{}, varByID: map[int]*Term{}}
	tb.True = tb.mk(OpConst, 0, 1, "", nil, nil, nil)
	tb.False = tb.mk(OpConst, 0, 0, "", nil, nil, nil)
	return tb
}

func id(t *Term) int {
	if t == nil {
		return -1
	}
	return t.ID
}

func (tb *TB) mk(op Op, w int, val uint64, name string, a, b, c *Term) *Term {
	k := termKey{op, w, id(a), id(b), id(c), val, name}
	if t, ok := tb.tab[k]; ok {
		return t
	}
	t := &Term{ID: tb.next, Op: op, W: w, Val: val, Name: name}
	tb.next++
	t.Args = [3]*Term{a, b, c}
	switch {
	case c != nil:
		t.N = 3
	case b != nil:
		t.N = 2
	case a != nil:
		t.N = 1
	}
	for i := 0; i < t.N; i++ {
		if t.Args[i].Arith {
			t.Arith = true
		}
	}
	switch op {
	case OpUDiv, OpURem, OpSDiv, OpSRem:
		if w >= 32 {
			t.Arith = true
		}
	case OpMul:
		if w >= 32 {
			small := (a.IsConst() && a.Val < 1024) || (b.IsConst() && b.Val < 1024)
			if !small {
				t.Arith = true
			}
		}
	}
	tb.tab[k] = t
	return t
}

// Vars returns the sorted ids of variables occurring in t.
func (t *Term) Vars() []int32 {
	if t.varsOK {
		return t.vars
	}
	switch {
	case t.Op == OpVar:
		t.vars = []int32{int32(t.ID)}
	case t.N == 0:
	default:
		cur := t.Args[0].Vars()
		for i := 1; i < t.N; i++ {
			cur = mergeVars(cur, t.Args[i].Vars())
		}
		t.vars = cur
	}
	t.varsOK = true
	return t.vars
}

func mergeVars(a, b []int32) []int32 {
	if len(a) == 0 {
		return b
	}
	if len(b) == 0 {
		return a
	}
	// fast path: identical
	if len(a) == len(b) {
		same := true
		for i := range a {
			if a[i] != b[i] {
				same = false
				break
			}
		}
		if same {
			return a
		}
	}
	r := make([]int32, 0, len(a)+len(b))
	i, j := 0, 0
	for i < len(a) && j < len(b) {
		switch {
		case a[i] < b[j]:
			r = append(r, a[i])
			i++
		case a[i] > b[j]:
			r = append(r, b[j])
			j++
		default:
			r = append(r, a[i])
			i++
			j++
		}
	}
	r = append(r, a[i:]...)
	r = append(r, b[j:]...)
	return r
}

func mask(w int) uint64 {
	if w >= 64 {
		return ^uint64(0)
	}
	return (uint64(1) << uint(w)) - 1
}

func (t *Term) IsConst() bool { return t.Op == OpConst }
func (t *Term) IsTrue() bool  { return t.Op == OpConst && t.W == 0 && t.Val == 1 }
func (t *Term) IsFalse() bool { return t.Op == OpConst && t.W == 0 && t.Val == 0 }

// SVal returns the constant as a sign-extended int64.
func (t *Term) SVal() int64 {
	return signExt(t.Val, t.W)
}

func signExt(v uint64, w int) int64 {
	if w >= 64 {
		return int64(v)
	}
	if v&(uint64(1)<<uint(w-1)) != 0 {
		return int64(v | ^mask(w))
	}
	return int64(v)
}

func (tb *TB) Bool(b bool) *Term {
	if b {
		return tb.True
	}
	return tb.False
}

func (tb *TB) Const(w int, v uint64) *Term {
	if w == 0 {
		return tb.Bool(v != 0)
	}
	return tb.mk(OpConst, w, v&mask(w), "", nil, nil, nil)
}

func (tb *TB) Int64(v int64) *Term { return tb.Const(64, uint64(v)) }

func (tb *TB) Var(name string, w int) *Term {
	k := termKey{OpVar, w, -1, -1, -1, 0, name}
	if t, ok := tb.tab[k]; ok {
		return t
	}
	t := tb.mk(OpVar, w, 0, name, nil, nil, nil)
	tb.vars = append(tb.vars, t)
	tb.varByID[t.ID] = t
	return t
}

// Fresh returns a new variable with a unique name derived from prefix.
func (tb *TB) Fresh(prefix string, w int) *Term {
	for i := 0; ; i++ {
		n := prefix
		if i > 0 {
			n = fmt.Sprintf("%s#%d", prefix, i)
		}
		k := termKey{OpVar, w, -1, -1, -1, 0, n}
		if _, ok := tb.tab[k]; !ok {
			return tb.Var(n, w)
		}
		// also avoid clash with different width
	}
}

func (tb *TB) Not(a *Term) *Term {
	if a.W != 0 {
		panic("Not on non-bool")
	}
	if a.IsConst() {
		return tb.Bool(a.Val == 0)
	}
	if a.Op == OpNot {
		return a.Args[0]
	}
	return tb.mk(OpNot, 0, 0, "", a, nil, nil)
}

func (tb *TB) And(a, b *Term) *Term {
	if a.IsFalse() || b.IsFalse() {
		return tb.False
	}
	if a.IsTrue() {
		return b
	}
	if b.IsTrue() {
		return a
	}
	if a == b {
		return a
	}
	if (a.Op == OpNot && a.Args[0] == b) || (b.Op == OpNot && b.Args[0] == a) {
		return tb.False
	}
	if a.ID > b.ID {
		a, b = b, a
	}
	return tb.mk(OpAnd, 0, 0, "", a, b, nil)
}

func (tb *TB) Or(a, b *Term) *Term {
	if a.IsTrue() || b.IsTrue() {
		return tb.True
	}
	if a.IsFalse() {
		return b
	}
	if b.IsFalse() {
		return a
	}
	if a == b {
		return a
	}
	if (a.Op == OpNot && a.Args[0] == b) || (b.Op == OpNot && b.Args[0] == a) {
		return tb.True
	}
	if a.ID > b.ID {
		a, b = b, a
	}
	return tb.mk(OpOr, 0, 0, "", a, b, nil)
}

func (tb *TB) AndN(ts ...*Term) *Term {
	r := tb.True
	for _, t := range ts {
		r = tb.And(r, t)
	}
	return r
}

func (tb *TB) OrN(ts ...*Term) *Term {
	r := tb.False
	for _, t := range ts {
		r = tb.Or(r, t)
	}
	return r
}

func (tb *TB) Implies(a, b *Term) *Term { return tb.Or(tb.Not(a), b) }

func (tb *TB) Ite(c, a, b *Term) *Term {
	if c.W != 0 {
		panic("Ite cond non-bool")
	}
	if a.W != b.W {
		panic(fmt.Sprintf("Ite width mismatch %d %d", a.W, b.W))
	}
	if c.IsTrue() {
		return a
	}
	if c.IsFalse() {
		return b
	}
	if a == b {
		return a
	}
	if a.W == 0 {
		if a.IsTrue() && b.IsFalse() {
			return c
		}
		if a.IsFalse() && b.IsTrue() {
			return tb.Not(c)
		}
		if a.IsTrue() {
			return tb.Or(c, b)
		}
		if a.IsFalse() {
			return tb.And(tb.Not(c), b)
		}
		if b.IsTrue() {
			return tb.Or(tb.Not(c), a)
		}
		if b.IsFalse() {
			return tb.And(c, a)
		}
	}
	if c.Op == OpNot {
		return tb.Ite(c.Args[0], b, a)
	}
	// ite(c, x, ite(c, y, z)) = ite(c, x, z)
	if b.Op == OpIte && b.Args[0] == c {
		return tb.Ite(c, a, b.Args[2])
	}
	if a.Op == OpIte && a.Args[0] == c {
		return tb.Ite(c, a.Args[1], b)
	}
	return tb.mk(OpIte, a.W, 0, "", c, a, b)
}

// iteDepthLimit bounds distribution of ops over ite-of-constants.
const iteDistLimit = 64

// constLeaves reports whether t is a (nested) ite whose leaves are all constants, up to n leaves.
func constLeaves(t *Term, n *int) bool {
	if t.IsConst() {
		*n--
		return *n >= 0
	}
	if t.Op == OpIte {
		return constLeaves(t.Args[1], n) && constLeaves(t.Args[2], n)
	}
	return false
}

// mapLeaves rebuilds an ite tree applying f to each constant leaf.
func (tb *TB) mapLeaves(t *Term, f func(*Term) *Term) *Term {
	if t.Op == OpIte {
		return tb.Ite(t.Args[0], tb.mapLeaves(t.Args[1], f), tb.mapLeaves(t.Args[2], f))
	}
	return f(t)
}

func (tb *TB) Eq(a, b *Term) *Term {
	if a.W != b.W {
		panic(fmt.Sprintf("Eq width mismatch %d %d (%v, %v)", a.W, b.W, a, b))
	}
	if a == b {
		return tb.True
	}
	if a.IsConst() && b.IsConst() {
		return tb.Bool(a.Val == b.Val)
	}
	if a.W == 0 {
		if a.IsTrue() {
			return b
		}
		if a.IsFalse() {
			return tb.Not(b)
		}
		if b.IsTrue() {
			return a
		}
		if b.IsFalse() {
			return tb.Not(a)
		}
	}
	if a.IsConst() {
		a, b = b, a
	}
	if b.IsConst() && a.Op == OpIte {
		n := iteDistLimit
		if constLeaves(a, &n) {
			return tb.mapLeaves(a, func(l *Term) *Term { return tb.Bool(l.Val == b.Val) })
		}
	}
	if b.IsConst() && a.Op == OpZExt {
		inner := a.Args[0]
		if b.Val&^mask(inner.W) != 0 {
			return tb.False
		}
		return tb.Eq(inner, tb.Const(inner.W, b.Val))
	}
	if a.W > 0 && tb.disjointRanges(a, b) {
		return tb.False
	}
	if a.ID > b.ID {
		a, b = b, a
	}
	return tb.mk(OpEq, 0, 0, "", a, b, nil)
}

func (tb *TB) Ne(a, b *Term) *Term { return tb.Not(tb.Eq(a, b)) }

func evalBin(op Op, w int, x, y uint64) (uint64, bool) {
	m := mask(w)
	switch op {
	case OpAdd:
		return (x + y) & m, true
	case OpSub:
		return (x - y) & m, true
	case OpMul:
		return (x * y) & m, true
	case OpUDiv:
		if y == 0 {
			return m, true
		}
		return x / y, true
	case OpURem:
		if y == 0 {
			return x, true
		}
		return x % y, true
	case OpSDiv:
		sx, sy := signExt(x, w), signExt(y, w)
		if sy == 0 {
			if sx < 0 {
				return 1, true
			}
			return m, true
		}
		if sy == -1 {
			return uint64(-sx) & m, true
		}
		return uint64(sx/sy) & m, true
	case OpSRem:
		sx, sy := signExt(x, w), signExt(y, w)
		if sy == 0 {
			return x, true
		}
		if sy == -1 {
			return 0, true
		}
		return uint64(sx%sy) & m, true
	case OpBAnd:
		return x & y, true
	case OpBOr:
		return x | y, true
	case OpBXor:
		return x ^ y, true
	case OpShl:
		if y >= uint64(w) {
			return 0, true
		}
		return (x << y) & m, true
	case OpLShr:
		if y >= uint64(w) {
			return 0, true
		}
		return x >> y, true
	case OpAShr:
		sx := signExt(x, w)
		if y >= uint64(w) {
			if sx < 0 {
				return m, true
			}
			return 0, true
		}
		return uint64(sx>>y) & m, true
	}
	return 0, false
}

func evalCmp(op Op, w int, x, y uint64) bool {
	switch op {
	case OpULt:
		return x < y
	case OpULe:
		return x <= y
	case OpSLt:
		return signExt(x, w) < signExt(y, w)
	case OpSLe:
		return signExt(x, w) <= signExt(y, w)
	}
	panic("evalCmp")
}

// Bin builds a bit-vector binary operation.
func (tb *TB) Bin(op Op, a, b *Term) *Term {
	if a.W != b.W || a.W == 0 {
		panic(fmt.Sprintf("Bin %s width mismatch %d %d", opNames[op], a.W, b.W))
	}
	w := a.W
	if a.IsConst() && b.IsConst() {
		v, _ := evalBin(op, w, a.Val, b.Val)
		return tb.Const(w, v)
	}
	switch op {
	case OpAdd:
		if a.IsConst() && a.Val == 0 {
			return b
		}
		if b.IsConst() && b.Val == 0 {
			return a
		}
		// (x + c1) + c2
		if b.IsConst() && a.Op == OpAdd && a.Args[1].IsConst() {
			return tb.Bin(OpAdd, a.Args[0], tb.Const(w, a.Args[1].Val+b.Val))
		}
		if a.IsConst() {
			a, b = b, a
		}
	case OpSub:
		if b.IsConst() && b.Val == 0 {
			return a
		}
		if a == b {
			return tb.Const(w, 0)
		}
		if b.IsConst() {
			return tb.Bin(OpAdd, a, tb.Const(w, -b.Val))
		}
	case OpMul:
		if a.IsConst() {
			a, b = b, a
		}
		if b.IsConst() {
			if b.Val == 0 {
				return b
			}
			if b.Val == 1 {
				return a
			}
		}
	case OpBAnd:
		if a.IsConst() {
			a, b = b, a
		}
		if b.IsConst() {
			if b.Val == 0 {
				return b
			}
			if b.Val == mask(w) {
				return a
			}
		}
		if a == b {
			return a
		}
	case OpBOr:
		if a.IsConst() {
			a, b = b, a
		}
		if b.IsConst() {
			if b.Val == 0 {
				return a
			}
			if b.Val == mask(w) {
				return b
			}
		}
		if a == b {
			return a
		}
	case OpBXor:
		if a.IsConst() {
			a, b = b, a
		}
		if b.IsConst() && b.Val == 0 {
			return a
		}
		if a == b {
			return tb.Const(w, 0)
		}
	case OpShl, OpLShr, OpAShr:
		if b.IsConst() && b.Val == 0 {
			return a
		}
	}
	// (x*c) / c == x and (x*c) % c == 0 when the product cannot wrap
	if (op == OpSDiv || op == OpSRem || op == OpUDiv || op == OpURem) && b.IsConst() && b.Val != 0 && a.Op == OpMul && a.Args[1].IsConst() && a.Args[1].Val == b.Val {
		x := a.Args[0]
		rx := tb.Range(x)
		signed := op == OpSDiv || op == OpSRem
		ok := false
		if signed {
			c := signExt(b.Val, w)
			_, o1 := mulOv(rx.slo, c)
			_, o2 := mulOv(rx.shi, c)
			f := fullRange(w)
			lo, _ := mulOv(rx.slo, c)
			hi, _ := mulOv(rx.shi, c)
			if lo > hi {
				lo, hi = hi, lo
			}
			ok = !o1 && !o2 && lo >= f.slo && hi <= f.shi && c > 0
		} else {
			hi, o := umulOv(rx.uhi, b.Val)
			ok = !o && hi <= mask(w)
		}
		if ok {
			if op == OpSDiv || op == OpUDiv {
				return x
			}
			return tb.Const(w, 0)
		}
	}
	if op == OpSDiv || op == OpSRem {
		if ra, rb := tb.Range(a), tb.Range(b); ra.slo >= 0 && rb.slo > 0 {
			if op == OpSDiv {
				return tb.Bin(OpUDiv, a, b)
			}
			return tb.Bin(OpURem, a, b)
		}
	}
	if op == OpBAnd && b.IsConst() {
		ra := tb.Range(a)
		p := uint64(0)
		for p < ra.uhi {
			p = p<<1 | 1
		}
		if b.Val&p == 0 {
			return tb.Const(w, 0)
		}
		if b.Val&p == p {
			return a // mask keeps every possible bit
		}
	}
	if (op == OpURem) && b.IsConst() && b.Val > 0 {
		if ra := tb.Range(a); ra.uhi < b.Val {
			return a
		}
		// (y*c' + k) mod c == k mod c when c divides c' and nothing wraps
		x, k := a, uint64(0)
		if a.Op == OpAdd && a.Args[1].IsConst() {
			x, k = a.Args[0], a.Args[1].Val
		}
		if x.Op == OpMul && x.Args[1].IsConst() && x.Args[1].Val%b.Val == 0 {
			rx := tb.Range(x)
			ry := tb.Range(x.Args[0])
			hi, ov := umulOv(ry.uhi, x.Args[1].Val)
			if !ov && hi == rx.uhi && hi <= mask(w)-k {
				return tb.Const(w, k%b.Val)
			}
		}
	}
	if (op == OpUDiv) && b.IsConst() && b.Val > 0 {
		if ra := tb.Range(a); ra.uhi < b.Val {
			return tb.Const(w, 0)
		}
	}
	// distribute over ite-of-constants when the other side is constant
	if b.IsConst() && a.Op == OpIte {
		n := iteDistLimit
		if constLeaves(a, &n) {
			return tb.mapLeaves(a, func(l *Term) *Term { v, _ := evalBin(op, w, l.Val, b.Val); return tb.Const(w, v) })
		}
	}
	if a.IsConst() && b.Op == OpIte {
		n := iteDistLimit
		if constLeaves(b, &n) {
			return tb.mapLeaves(b, func(l *Term) *Term { v, _ := evalBin(op, w, a.Val, l.Val); return tb.Const(w, v) })
		}
	}
	res := tb.mk(op, w, 0, "", a, b, nil)
	if r := tb.Range(res); r.ulo == r.uhi {
		return tb.Const(w, r.ulo)
	}
	return res
}

// Cmp builds an ordering comparison (OpULt, OpULe, OpSLt, OpSLe).
func (tb *TB) Cmp(op Op, a, b *Term) *Term {
	if a.W != b.W || a.W == 0 {
		panic(fmt.Sprintf("Cmp width mismatch %d %d", a.W, b.W))
	}
	w := a.W
	if a.IsConst() && b.IsConst() {
		return tb.Bool(evalCmp(op, w, a.Val, b.Val))
	}
	if a == b {
		return tb.Bool(op == OpULe || op == OpSLe)
	}
	if b.IsConst() && a.Op == OpIte {
		n := iteDistLimit
		if constLeaves(a, &n) {
			return tb.mapLeaves(a, func(l *Term) *Term { return tb.Bool(evalCmp(op, w, l.Val, b.Val)) })
		}
	}
	if a.IsConst() && b.Op == OpIte {
		n := iteDistLimit
		if constLeaves(b, &n) {
			return tb.mapLeaves(b, func(l *Term) *Term { return tb.Bool(evalCmp(op, w, a.Val, l.Val)) })
		}
	}
	if v, ok := tb.cmpByRange(op, a, b); ok {
		return tb.Bool(v)
	}
	if op == OpSLt || op == OpSLe {
		if ra, rb := tb.Range(a), tb.Range(b); ra.slo >= 0 && rb.slo >= 0 {
			if op == OpSLt {
				return tb.Cmp(OpULt, a, b)
			}
			return tb.Cmp(OpULe, a, b)
		}
	}
	// unsigned comparisons against trivial bounds
	if op == OpULt && b.IsConst() && b.Val == 0 {
		return tb.False
	}
	if op == OpULe && a.IsConst() && a.Val == 0 {
		return tb.True
	}
	// zext(x) <u c
	if (op == OpULt || op == OpULe) && b.IsConst() && a.Op == OpZExt {
		iw := a.Args[0].W
		if b.Val > mask(iw) {
			return tb.True
		}
		return tb.Cmp(op, a.Args[0], tb.Const(iw, b.Val))
	}
	if (op == OpSLt || op == OpSLe) && b.IsConst() && a.Op == OpZExt && a.Args[0].W < w {
		iw := a.Args[0].W
		sv := signExt(b.Val, w)
		if sv < 0 {
			return tb.False
		}
		if uint64(sv) > mask(iw) {
			return tb.True
		}
		if op == OpSLt {
			return tb.Cmp(OpULt, a.Args[0], tb.Const(iw, uint64(sv)))
		}
		return tb.Cmp(OpULe, a.Args[0], tb.Const(iw, uint64(sv)))
	}
	if (op == OpSLt || op == OpSLe) && a.IsConst() && b.Op == OpZExt && b.Args[0].W < w {
		iw := b.Args[0].W
		sv := signExt(a.Val, w)
		if sv < 0 {
			return tb.True
		}
		if uint64(sv) > mask(iw) {
			return tb.False
		}
		if op == OpSLt {
			return tb.Cmp(OpULt, tb.Const(iw, uint64(sv)), b.Args[0])
		}
		return tb.Cmp(OpULe, tb.Const(iw, uint64(sv)), b.Args[0])
	}
	return tb.mk(op, 0, 0, "", a, b, nil)
}

func (tb *TB) BNot(a *Term) *Term {
	if a.IsConst() {
		return tb.Const(a.W, ^a.Val)
	}
	if a.Op == OpBNot {
		return a.Args[0]
	}
	return tb.mk(OpBNot, a.W, 0, "", a, nil, nil)
}

func (tb *TB) Neg(a *Term) *Term {
	if a.IsConst() {
		return tb.Const(a.W, -a.Val)
	}
	return tb.mk(OpNeg, a.W, 0, "", a, nil, nil)
}

func (tb *TB) ZExt(a *Term, w int) *Term {
	if a.W == w {
		return a
	}
	if a.W > w {
		panic("ZExt narrowing")
	}
	if a.IsConst() {
		return tb.Const(w, a.Val)
	}
	if a.Op == OpZExt {
		return tb.ZExt(a.Args[0], w)
	}
	if a.Op == OpIte {
		n := iteDistLimit
		if constLeaves(a, &n) {
			return tb.mapLeaves(a, func(l *Term) *Term { return tb.Const(w, l.Val) })
		}
	}
	return tb.mk(OpZExt, w, 0, "", a, nil, nil)
}

func (tb *TB) SExt(a *Term, w int) *Term {
	if a.W == w {
		return a
	}
	if a.W > w {
		panic("SExt narrowing")
	}
	if a.IsConst() {
		return tb.Const(w, uint64(signExt(a.Val, a.W)))
	}
	if a.Op == OpZExt {
		return tb.ZExt(a.Args[0], w)
	}
	if a.Op == OpIte {
		n := iteDistLimit
		if constLeaves(a, &n) {
			return tb.mapLeaves(a, func(l *Term) *Term { return tb.Const(w, uint64(signExt(l.Val, l.W))) })
		}
	}
	return tb.mk(OpSExt, w, 0, "", a, nil, nil)
}

// Extract returns bits [lo+w-1 : lo] of a.
func (tb *TB) Extract(a *Term, lo, w int) *Term {
	if lo == 0 && w == a.W {
		return a
	}
	if lo+w > a.W {
		panic("Extract out of range")
	}
	if a.IsConst() {
		return tb.Const(w, a.Val>>uint(lo))
	}
	if (a.Op == OpZExt || a.Op == OpSExt) && lo == 0 && w <= a.Args[0].W {
		return tb.Extract(a.Args[0], 0, w)
	}
	if a.Op == OpZExt && lo >= a.Args[0].W {
		return tb.Const(w, 0)
	}
	if a.Op == OpIte {
		n := iteDistLimit
		if constLeaves(a, &n) {
			return tb.mapLeaves(a, func(l *Term) *Term { return tb.Const(w, l.Val>>uint(lo)) })
		}
	}
	return tb.mk(OpExtract, w, uint64(lo), "", a, nil, nil)
}

// Trunc keeps the low w bits.
func (tb *TB) Trunc(a *Term, w int) *Term { return tb.Extract(a, 0, w) }

func (tb *TB) Concat(hi, lo *Term) *Term {
	w := hi.W + lo.W
	if w > 64 {
		panic("Concat > 64 bits")
	}
	if hi.IsConst() && lo.IsConst() {
		return tb.Const(w, hi.Val<<uint(lo.W)|lo.Val)
	}
	if hi.IsConst() && hi.Val == 0 {
		return tb.ZExt(lo, w)
	}
	return tb.mk(OpConcat, w, 0, "", hi, lo, nil)
}

// Resize converts a to width w with sign or zero extension / truncation.
func (tb *TB) Resize(a *Term, w int, signed bool) *Term {
	switch {
	case a.W == w:
		return a
	case a.W > w:
		return tb.Trunc(a, w)
	case signed:
		return tb.SExt(a, w)
	default:
		return tb.ZExt(a, w)
	}
}

func (t *Term) String() string {
	var sb strings.Builder
	t.write(&sb, 6)
	return sb.String()
}

func (t *Term) write(sb *strings.Builder, depth int) {
	switch t.Op {
	case OpConst:
		if t.W == 0 {
			if t.Val == 1 {
				sb.WriteString("true")
			} else {
				sb.WriteString("false")
			}
		} else {
			fmt.Fprintf(sb, "%d:%d", signExt(t.Val, t.W), t.W)
		}
		return
	case OpVar:
		sb.WriteString(t.Name)
		return
	}
	if depth == 0 {
		fmt.Fprintf(sb, "t%d", t.ID)
		return
	}
	sb.WriteString("(")
	sb.WriteString(opNames[t.Op])
	if t.Op == OpExtract {
		fmt.Fprintf(sb, "[%d+%d]", t.Val, t.W)
	}
	for i := 0; i < t.N; i++ {
		sb.WriteString(" ")
		t.Args[i].write(sb, depth-1)
	}
	sb.WriteString(")")
}

// Eval evaluates t under a model (variable name -> value). Missing variables are 0.
func (tb *TB) Eval(t *Term, model map[string]uint64, memo map[*Term]uint64) uint64 {
	if v, ok := memo[t]; ok {
		return v
	}
	var r uint64
	arg := func(i int) uint64 { return tb.Eval(t.Args[i], model, memo) }
	switch t.Op {
	case OpConst:
		r = t.Val
	case OpVar:
		r = model[t.Name] & mask(maxInt(t.W, 1))
	case OpNot:
		r = 1 - arg(0)
	case OpAnd:
		r = arg(0) & arg(1)
	case OpOr:
		r = arg(0) | arg(1)
	case OpIte:
		if arg(0) != 0 {
			r = arg(1)
		} else {
			r = arg(2)
		}
	case OpEq:
		if arg(0) == arg(1) {
			r = 1
		}
	case OpULt, OpULe, OpSLt, OpSLe:
		if evalCmp(t.Op, t.Args[0].W, arg(0), arg(1)) {
			r = 1
		}
	case OpBNot:
		r = ^arg(0) & mask(t.W)
	case OpNeg:
		r = -arg(0) & mask(t.W)
	case OpZExt:
		r = arg(0)
	case OpSExt:
		r = uint64(signExt(arg(0), t.Args[0].W)) & mask(t.W)
	case OpExtract:
		r = (arg(0) >> t.Val) & mask(t.W)
	case OpConcat:
		r = arg(0)<<uint(t.Args[1].W) | arg(1)
	default:
		r, _ = evalBin(t.Op, t.W, arg(0), arg(1))
	}
	memo[t] = r
	return r
}

func maxInt(a, b int) int {
	if a > b {
		return a
	}
	return b
}

var _ = bits.Len
