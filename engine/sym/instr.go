package sym

import (
	"fmt"
	"go/constant"
	"go/token"
	"go/types"
	"math"
	"strings"

	"golang.org/x/tools/go/ssa"
)

func sprintf(format string, args ...interface{}) string { return fmt.Sprintf(format, args...) }

func (e *Engine) constValue(c *ssa.Const) Value {
	t := c.Type()
	if c.Value == nil {
		return e.zero(t)
	}
	switch u := t.Underlying().(type) {
	case *types.Basic:
		switch {
		case u.Info()&types.IsBoolean != 0:
			return e.tb.Bool(constant.BoolVal(c.Value))
		case u.Info()&types.IsString != 0:
			return e.StrConst(constant.StringVal(c.Value))
		case u.Info()&types.IsFloat != 0:
			f, _ := constant.Float64Val(c.Value)
			return FloatV(f)
		case u.Info()&types.IsInteger != 0:
			w, _, _ := e.width(t)
			if i, ok := constant.Int64Val(constant.ToInt(c.Value)); ok {
				return e.tb.Const(w, uint64(i))
			}
			ui, _ := constant.Uint64Val(constant.ToInt(c.Value))
			return e.tb.Const(w, ui)
		}
	}
	panic(e.abort("constValue: unsupported constant %s of type %s", c, t))
}

// callTarget evaluates the callee and arguments of a call site.
func (x *fnExec) callTarget(p *Path, c *ssa.CallCommon) (Value, []Value) {
	var args []Value
	if c.IsInvoke() {
		recv := x.eval(p, c.Value).(*IfaceV)
		if recv.T == nil {
			return &FuncV{}, nil
		}
		fn := x.e.lookupMethod(recv.T, c.Method)
		args = append(args, recv.V)
		for _, a := range c.Args {
			args = append(args, x.eval(p, a))
		}
		return &FuncV{Fn: fn}, args
	}
	fv := x.eval(p, c.Value)
	for _, a := range c.Args {
		args = append(args, x.eval(p, a))
	}
	return fv, args
}

func (e *Engine) lookupMethod(t types.Type, m *types.Func) *ssa.Function {
	fn := e.prog.LookupMethod(t, m.Pkg(), m.Name())
	if fn == nil {
		panic(e.abort("method %s not found on %s", m.Name(), t))
	}
	return fn
}

// callValue calls a function value.
func (e *Engine) callValue(st *State, fv Value, args []Value) []Outcome {
	f, ok := fv.(*FuncV)
	if !ok {
		panic(e.abort("call of non-function value %T", fv))
	}
	if f.Builtin != "" {
		return e.callBuiltin(st, f, args, nil)
	}
	if f.Fn == nil {
		return []Outcome{e.panicOut(st, "invalid memory address or nil pointer dereference (nil func call)")}
	}
	return e.callFunction(st, f.Fn, args, f.Bindings)
}

func fnKey(fn *ssa.Function) string {
	if o := fn.Origin(); o != nil {
		return o.String()
	}
	return fn.String()
}

func (e *Engine) callFunction(st *State, fn *ssa.Function, args []Value, bindings []Value) []Outcome {
	key := fnKey(fn)
	if stub, ok := e.stubs[key]; ok && (len(e.stack) == 0 || e.stack[len(e.stack)-1] != stub) {
		e.rep.noteStub(key)
		return e.mergeOutcomes(e.execFunction(stub, args, nil, st))
	}
	if in, ok := vpAPI[fn.Name()]; ok && fn.Pkg != nil && strings.HasPrefix(fn.Pkg.Pkg.Path(), RepoModule) {
		return in(e, st, args, fn)
	}
	if in, ok := intrinsics[key]; ok {
		e.stats.Functions[key]++
		e.stack = append(e.stack, fn)
		outs := in(e, st, args, fn)
		e.stack = e.stack[:len(e.stack)-1]
		return outs
	}
	if fn.Pkg != nil && fn.Pkg.Pkg.Path() == "github.com/sirupsen/logrus" || key == "github.com/matrix-org/util.GetLogger" {
		// logging has empty bodies: results are zero values, *Entry results a dummy entry
		return one(st, e.logStub(st, fn))
	}
	if fn.Name() == "init" && fn.Signature.Recv() == nil && fn.Parent() == nil && fn.Synthetic != "" {
		// package initialiser of a dependency: handled lazily
		return one(st, nil)
	}
	return e.mergeOutcomes(e.execFunction(fn, args, bindings, st))
}

// execInstr executes a value-producing or side-effecting non-control instruction.
func (x *fnExec) execInstr(p *Path, ins ssa.Instruction) []Outcome {
	e := x.e
	st := p.st
	switch in := ins.(type) {
	case *ssa.Alloc:
		id := e.alloc(st, e.zero(in.Type().(*types.Pointer).Elem()))
		return one(st, &PtrV{Obj: id})
	case *ssa.BinOp:
		return e.binop(st, in.Op, x.eval(p, in.X), x.eval(p, in.Y), in.X.Type(), in.Y.Type())
	case *ssa.UnOp:
		return e.unop(st, in, x.eval(p, in.X))
	case *ssa.Call:
		c := &in.Call
		if b, ok := c.Value.(*ssa.Builtin); ok {
			var args []Value
			for _, a := range c.Args {
				args = append(args, x.eval(p, a))
			}
			return e.callBuiltin(st, &FuncV{Builtin: "builtin." + b.Name()}, args, in)
		}
		fv, args := x.callTarget(p, c)
		if c.IsInvoke() && fv.(*FuncV).Fn == nil {
			return []Outcome{e.panicOut(st, "invalid memory address or nil pointer dereference (method call on nil interface)")}
		}
		return e.callValue(st, fv, args)
	case *ssa.ChangeType:
		return one(st, x.eval(p, in.X))
	case *ssa.ChangeInterface:
		return one(st, x.eval(p, in.X))
	case *ssa.MultiConvert:
		return e.convert(st, x.eval(p, in.X), in.X.Type(), in.Type())
	case *ssa.Convert:
		return e.convert(st, x.eval(p, in.X), in.X.Type(), in.Type())
	case *ssa.MakeInterface:
		return one(st, &IfaceV{T: in.X.Type(), V: x.eval(p, in.X)})
	case *ssa.MakeClosure:
		b := make([]Value, len(in.Bindings))
		for i, v := range in.Bindings {
			b[i] = x.eval(p, v)
		}
		return one(st, &FuncV{Fn: in.Fn.(*ssa.Function), Bindings: b})
	case *ssa.MakeMap:
		id := e.alloc(st, &MapObj{})
		return one(st, &MapV{Obj: id})
	case *ssa.MakeChan:
		sz, okc := x.eval(p, in.Size).(*Term)
		if !okc || !sz.IsConst() {
			panic(e.abort("make(chan) with a symbolic capacity"))
		}
		id := e.alloc(st, &ChanObj{Cap: int(sz.Val)})
		return one(st, &ChanV{Obj: id})
	case *ssa.Send:
		return e.chanSend(st, x.eval(p, in.Chan).(*ChanV), x.eval(p, in.X))
	case *ssa.MakeSlice:
		return e.makeSlice(st, in.Type(), x.eval(p, in.Len).(*Term), x.eval(p, in.Cap).(*Term))
	case *ssa.Extract:
		return one(st, x.eval(p, in.Tuple).(*TupleV).E[in.Index])
	case *ssa.Field:
		return one(st, x.eval(p, in.X).(*StructV).F[in.Field])
	case *ssa.FieldAddr:
		ptr := x.eval(p, in.X).(*PtrV)
		if ptr.IsNil() {
			return []Outcome{e.panicOut(st, "invalid memory address or nil pointer dereference")}
		}
		var outs []Outcome
		for _, c := range e.concPtr(st, ptr) {
			outs = append(outs, Outcome{st: c.st, ret: &PtrV{Obj: c.p.Obj, Path: pathAppend(c.p.Path, in.Field)}})
		}
		return outs
	case *ssa.Index:
		return e.index(st, x.eval(p, in.X), x.eval(p, in.Index).(*Term), in.Index.Type())
	case *ssa.IndexAddr:
		return e.indexAddr(st, x.eval(p, in.X), x.eval(p, in.Index).(*Term), in.Index.Type())
	case *ssa.Lookup:
		xv := x.eval(p, in.X)
		if s, ok := xv.(*StrV); ok {
			return e.index(st, s, x.eval(p, in.Index).(*Term), in.Index.Type())
		}
		mt := in.X.Type().Underlying().(*types.Map)
		return e.mapLookup(st, xv.(*MapV), x.eval(p, in.Index), mt, in.CommaOk)
	case *ssa.MapUpdate:
		return e.mapUpdate(st, x.eval(p, in.Map).(*MapV), x.eval(p, in.Key), x.eval(p, in.Value))
	case *ssa.Slice:
		var lo, hi, mx *Term
		if in.Low != nil {
			lo = e.toInt64(x.eval(p, in.Low).(*Term), in.Low.Type())
		}
		if in.High != nil {
			hi = e.toInt64(x.eval(p, in.High).(*Term), in.High.Type())
		}
		if in.Max != nil {
			mx = e.toInt64(x.eval(p, in.Max).(*Term), in.Max.Type())
		}
		return e.sliceOp(st, x.eval(p, in.X), lo, hi, mx)
	case *ssa.SliceToArrayPointer:
		s := x.eval(p, in.X).(*SliceV)
		n := int(in.Type().(*types.Pointer).Elem().Underlying().(*types.Array).Len())
		if s.IsNil() {
			if n == 0 {
				return one(st, &PtrV{})
			}
			return []Outcome{e.panicOut(st, "cannot convert slice with length 0 to array or pointer to array")}
		}
		arr := getPath(e.get(st, s.Obj), s.Path).(*ArrayV)
		if s.Off == 0 && len(arr.E) == n && s.N.IsConst() && int(s.N.Val) >= n {
			return one(st, &PtrV{Obj: s.Obj, Path: s.Path})
		}
		if s.N.IsConst() && int(s.N.Val) >= n && s.Off+n <= len(arr.E) {
			// a window into a larger array: pointers cannot address a sub-range, so the window is copied. Exact for the
			// value conversion [n]T(slice) (pointer dereferenced at once); a write through the pointer would be lost,
			// which is recorded as a stub so that it shows in the evidence.
			e.rep.noteStub("slice-to-array-pointer into a sub-range: window copied (reads only)")
			id := e.alloc(st, &ArrayV{E: append([]Value{}, arr.E[s.Off:s.Off+n]...)})
			return one(st, &PtrV{Obj: id})
		}
		panic(e.abort("SliceToArrayPointer: unsupported window (off=%d n=%d len=%v arr=%d)", s.Off, n, s.N, len(arr.E)))
	case *ssa.Range:
		return e.rangeOp(st, x.eval(p, in.X), x.fn)
	case *ssa.Next:
		return e.nextOp(st, x.eval(p, in.Iter).(*IterV), in)
	case *ssa.Store:
		ptr := x.eval(p, in.Addr).(*PtrV)
		if ptr.IsNil() {
			return []Outcome{e.panicOut(st, "invalid memory address or nil pointer dereference")}
		}
		e.store(st, ptr, x.eval(p, in.Val))
		return one(st, nil)
	case *ssa.TypeAssert:
		return e.typeAssert(st, x.eval(p, in.X).(*IfaceV), in)
	}
	panic(e.abort("unsupported instruction %T: %s in %s", ins, ins, x.fn))
}

type concPtr struct {
	st *State
	p  *PtrV
}

// concPtr concretises the symbolic last index of a pointer (forking).
func (e *Engine) concPtr(st *State, p *PtrV) []concPtr {
	if p.Sym == nil {
		return []concPtr{{st, p}}
	}
	var res []concPtr
	for _, c := range e.concretize(st, p.Sym) {
		res = append(res, concPtr{c.st, &PtrV{Obj: p.Obj, Path: pathAppend(p.Path, int(c.v))}})
	}
	return res
}

// toInt64 widens an index term to 64 bits according to its type.
func (e *Engine) toInt64(t *Term, typ types.Type) *Term {
	if t.W == 64 {
		return t
	}
	_, signed, _ := e.width(typ)
	return e.tb.Resize(t, 64, signed)
}

func (e *Engine) unop(st *State, in *ssa.UnOp, v Value) []Outcome {
	switch in.Op {
	case token.NOT:
		return one(st, e.tb.Not(v.(*Term)))
	case token.SUB:
		if f, ok := v.(FloatV); ok {
			return one(st, FloatV(-float64(f)))
		}
		return one(st, e.tb.Neg(v.(*Term)))
	case token.XOR:
		return one(st, e.tb.BNot(v.(*Term)))
	case token.MUL:
		ptr := v.(*PtrV)
		if ptr.IsNil() {
			return []Outcome{e.panicOut(st, "invalid memory address or nil pointer dereference")}
		}
		if ptr.Sym != nil && !e.symLoadMergeable(st, ptr) {
			var outs []Outcome
			for _, c := range e.concPtr(st, ptr) {
				outs = append(outs, Outcome{st: c.st, ret: e.load(c.st, c.p)})
			}
			return outs
		}
		return one(st, e.load(st, ptr))
	case token.ARROW:
		var zero Value
		if in.CommaOk {
			zero = e.zero(in.Type().(*types.Tuple).At(0).Type())
		} else {
			zero = e.zero(in.Type())
		}
		return e.chanRecv(st, v.(*ChanV), zero, in.CommaOk)
	}
	panic(e.abort("unsupported unary op %s", in.Op))
}

func (e *Engine) makeSlice(st *State, t types.Type, ln, cp *Term) []Outcome {
	elem := t.Underlying().(*types.Slice).Elem()
	var outs []Outcome
	ln = e.tb.Resize(ln, 64, true)
	cp = e.tb.Resize(cp, 64, true)
	for _, cc := range e.concretize(st, cp) {
		if cc.v < 0 || cc.v > 1<<24 {
			outs = append(outs, e.panicOut(cc.st, "makeslice: cap out of range"))
			continue
		}
		s := e.guard(cc.st, e.tb.And(e.tb.Cmp(OpSLe, e.tb.Int64(0), ln), e.tb.Cmp(OpSLe, ln, e.tb.Int64(cc.v))), "makeslice: len out of range", &outs)
		if s == nil {
			continue
		}
		n := int(cc.v)
		el := make([]Value, n)
		if n > 0 {
			z := e.zero(elem)
			for i := range el {
				el[i] = z
			}
		}
		id := e.alloc(s, &ArrayV{E: el})
		outs = append(outs, Outcome{st: s, ret: &SliceV{Obj: id, N: ln, Cap: n}})
	}
	return outs
}

// index reads element i of an array value or string.
func (e *Engine) index(st *State, xv Value, i *Term, it types.Type) []Outcome {
	i = e.toInt64(i, it)
	var outs []Outcome
	switch c := xv.(type) {
	case *StrV:
		s := e.guard(st, e.tb.Cmp(OpULt, i, c.N), "index out of range", &outs)
		if s == nil {
			return outs
		}
		if i.IsConst() {
			if int(i.Val) >= len(c.B) {
				// only possible when the invariant N<=cap is violated
				panic(e.abort("string index beyond capacity"))
			}
			return append(outs, Outcome{st: s, ret: c.B[i.Val]})
		}
		if len(c.B) == 0 {
			return outs
		}
		res := c.B[len(c.B)-1]
		for k := len(c.B) - 2; k >= 0; k-- {
			res = e.tb.Ite(e.tb.Eq(i, e.tb.Int64(int64(k))), c.B[k], res)
		}
		return append(outs, Outcome{st: s, ret: res})
	case *ArrayV:
		n := len(c.E)
		s := e.guard(st, e.tb.Cmp(OpULt, i, e.tb.Int64(int64(n))), "index out of range", &outs)
		if s == nil {
			return outs
		}
		if i.IsConst() {
			return append(outs, Outcome{st: s, ret: c.E[i.Val]})
		}
		res := c.E[n-1]
		for k := n - 2; k >= 0; k-- {
			m, ok := e.iteValue(e.tb.Eq(i, e.tb.Int64(int64(k))), c.E[k], res)
			if !ok {
				// fall back to forking
				for _, cc := range e.concretize(s, i) {
					outs = append(outs, Outcome{st: cc.st, ret: c.E[cc.v]})
				}
				return outs
			}
			res = m
		}
		return append(outs, Outcome{st: s, ret: res})
	}
	panic(e.abort("index on %T", xv))
}

func (e *Engine) indexAddr(st *State, xv Value, i *Term, it types.Type) []Outcome {
	i = e.toInt64(i, it)
	var outs []Outcome
	switch c := xv.(type) {
	case *SliceV:
		s := e.guard(st, e.tb.Cmp(OpULt, i, c.N), "index out of range", &outs)
		if s == nil {
			return outs
		}
		if i.IsConst() {
			return append(outs, Outcome{st: s, ret: &PtrV{Obj: c.Obj, Path: pathAppend(c.Path, c.Off+int(i.Val))}})
		}
		idx := i
		if c.Off != 0 {
			idx = e.tb.Bin(OpAdd, i, e.tb.Int64(int64(c.Off)))
		}
		return append(outs, Outcome{st: s, ret: &PtrV{Obj: c.Obj, Path: c.Path, Sym: idx, SymN: c.Off + c.Cap}})
	case *PtrV:
		if c.IsNil() {
			return []Outcome{e.panicOut(st, "invalid memory address or nil pointer dereference")}
		}
		for _, cp := range e.concPtr(st, c) {
			arr := getPath(e.get(cp.st, cp.p.Obj), cp.p.Path).(*ArrayV)
			n := len(arr.E)
			s := e.guard(cp.st, e.tb.Cmp(OpULt, i, e.tb.Int64(int64(n))), "index out of range", &outs)
			if s == nil {
				continue
			}
			if i.IsConst() {
				outs = append(outs, Outcome{st: s, ret: &PtrV{Obj: cp.p.Obj, Path: pathAppend(cp.p.Path, int(i.Val))}})
			} else {
				outs = append(outs, Outcome{st: s, ret: &PtrV{Obj: cp.p.Obj, Path: cp.p.Path, Sym: i, SymN: n}})
			}
		}
		return outs
	}
	panic(e.abort("indexAddr on %T", xv))
}

// sliceOp implements x[lo:hi:max] for strings, slices and pointers to arrays.
func (e *Engine) sliceOp(st *State, xv Value, lo, hi, mx *Term) []Outcome {
	var outs []Outcome
	zero := e.tb.Int64(0)
	if lo == nil {
		lo = zero
	}
	switch c := xv.(type) {
	case *StrV:
		if hi == nil {
			hi = c.N
		}
		s := e.guard(st, e.tb.And(e.tb.Cmp(OpULe, lo, hi), e.tb.Cmp(OpULe, hi, c.N)), "slice bounds out of range", &outs)
		if s == nil {
			return outs
		}
		for _, cl := range e.concretize(s, lo) {
			l := int(cl.v)
			if l > len(c.B) {
				continue
			}
			his := []concrete{{cl.st, 0}}
			if !e.cfg.SymbolicLen && !hi.IsConst() {
				his = e.concretize(cl.st, hi)
			}
			for _, ch := range his {
				h := hi
				if !e.cfg.SymbolicLen && !hi.IsConst() {
					h = e.tb.Int64(ch.v)
				}
				b := c.B[l:]
				n := e.tb.Bin(OpSub, h, e.tb.Int64(cl.v))
				if n.IsConst() {
					if n.SVal() < 0 || int(n.SVal()) > len(b) {
						panic(e.abort("string slice [%d:%d] outside capacity %d (infeasible path kept?)", l, ch.v, len(c.B)))
					}
					b = b[:n.Val]
				}
				outs = append(outs, Outcome{st: ch.st, ret: &StrV{N: n, B: b}})
			}
		}
		return outs
	case *SliceV:
		if hi == nil {
			hi = c.N
		}
		capT := e.tb.Int64(int64(c.Cap))
		if mx == nil {
			mx = capT
		}
		ok := e.tb.AndN(e.tb.Cmp(OpULe, lo, hi), e.tb.Cmp(OpULe, hi, mx), e.tb.Cmp(OpULe, mx, capT))
		s := e.guard(st, ok, "slice bounds out of range", &outs)
		if s == nil {
			return outs
		}
		if c.IsNil() {
			return append(outs, Outcome{st: s, ret: c})
		}
		for _, cl := range e.concretize(s, lo) {
			for _, cm := range e.concretize(cl.st, mx) {
				his := []concrete{{cm.st, 0}}
				if !e.cfg.SymbolicLen && !hi.IsConst() {
					his = e.concretize(cm.st, hi)
				}
				for _, ch := range his {
					h := hi
					if !e.cfg.SymbolicLen && !hi.IsConst() {
						h = e.tb.Int64(ch.v)
					}
					n := e.tb.Bin(OpSub, h, e.tb.Int64(cl.v))
					outs = append(outs, Outcome{st: ch.st, ret: &SliceV{Obj: c.Obj, Path: c.Path, Off: c.Off + int(cl.v), N: n, Cap: int(cm.v - cl.v)}})
				}
			}
		}
		return outs
	case *PtrV:
		if c.IsNil() {
			return []Outcome{e.panicOut(st, "invalid memory address or nil pointer dereference")}
		}
		for _, cp := range e.concPtr(st, c) {
			arr := getPath(e.get(cp.st, cp.p.Obj), cp.p.Path).(*ArrayV)
			sl := &SliceV{Obj: cp.p.Obj, Path: cp.p.Path, N: e.tb.Int64(int64(len(arr.E))), Cap: len(arr.E)}
			outs = append(outs, e.sliceOp(cp.st, sl, lo, hi, mx)...)
		}
		return outs
	}
	panic(e.abort("slice of %T", xv))
}

func (e *Engine) typeAssert(st *State, iv *IfaceV, in *ssa.TypeAssert) []Outcome {
	at := in.AssertedType
	ok := false
	var res Value
	if iv.T != nil {
		if _, isIface := at.Underlying().(*types.Interface); isIface {
			ok = e.implements(iv.T, at.Underlying().(*types.Interface))
			res = iv
		} else {
			ok = types.Identical(iv.T, at)
			res = iv.V
		}
	}
	if in.CommaOk {
		if !ok {
			res = e.zero(at)
		}
		return one(st, &TupleV{E: []Value{res, e.tb.Bool(ok)}})
	}
	if !ok {
		return []Outcome{e.panicOut(st, sprintf("interface conversion: interface is %v, not %v", iv.T, at))}
	}
	return one(st, res)
}

func (e *Engine) implements(t types.Type, it *types.Interface) bool {
	if it.NumMethods() == 0 {
		return true
	}
	return types.Implements(t, it)
}

// ---------------------------------------------------------------------------
// maps

func (e *Engine) mapObj(st *State, m *MapV) *MapObj {
	return e.get(st, m.Obj).(*MapObj)
}

// keyEq returns a Bool term for key equality.
func (e *Engine) keyEq(a, b Value) *Term { return e.valuesEqual(a, b) }

func (e *Engine) mapLookup(st *State, m *MapV, key Value, mt *types.Map, commaOk bool) []Outcome {
	mk := func(s *State, v Value, found bool) Outcome {
		if commaOk {
			return Outcome{st: s, ret: &TupleV{E: []Value{v, e.tb.Bool(found)}}}
		}
		return Outcome{st: s, ret: v}
	}
	zero := e.zero(mt.Elem())
	if m.IsNil() {
		return []Outcome{mk(st, zero, false)}
	}
	mo := e.mapObj(st, m)
	var outs []Outcome
	cur := st
	for i := range mo.Keys {
		c := e.keyEq(key, mo.Keys[i])
		t, f := e.branch(cur, c)
		if t != nil {
			outs = append(outs, mk(t, mo.Vals[i], true))
		}
		if f == nil {
			return e.mergeOutcomes(outs)
		}
		cur = f
	}
	outs = append(outs, mk(cur, zero, false))
	return e.mergeOutcomes(outs)
}

func (e *Engine) mapUpdate(st *State, m *MapV, key, val Value) []Outcome {
	if m.IsNil() {
		return []Outcome{e.panicOut(st, "assignment to entry in nil map")}
	}
	mo := e.mapObj(st, m)
	var outs []Outcome
	cur := st
	for i := range mo.Keys {
		c := e.keyEq(key, mo.Keys[i])
		t, f := e.branch(cur, c)
		if t != nil {
			cm := e.mapObj(t, m)
			vals := make([]Value, len(cm.Vals))
			copy(vals, cm.Vals)
			vals[i] = val
			t.heap[m.Obj] = &MapObj{Keys: cm.Keys, Vals: vals}
			outs = append(outs, Outcome{st: t})
		}
		if f == nil {
			return outs
		}
		cur = f
	}
	cm := e.mapObj(cur, m)
	cur.heap[m.Obj] = &MapObj{Keys: append(cm.Keys[:len(cm.Keys):len(cm.Keys)], key), Vals: append(cm.Vals[:len(cm.Vals):len(cm.Vals)], val)}
	outs = append(outs, Outcome{st: cur})
	return outs
}

func (e *Engine) mapDelete(st *State, m *MapV, key Value) []Outcome {
	if m.IsNil() {
		return one(st, nil)
	}
	mo := e.mapObj(st, m)
	var outs []Outcome
	cur := st
	for i := range mo.Keys {
		c := e.keyEq(key, mo.Keys[i])
		t, f := e.branch(cur, c)
		if t != nil {
			cm := e.mapObj(t, m)
			keys := append(append([]Value{}, cm.Keys[:i]...), cm.Keys[i+1:]...)
			vals := append(append([]Value{}, cm.Vals[:i]...), cm.Vals[i+1:]...)
			t.heap[m.Obj] = &MapObj{Keys: keys, Vals: vals}
			outs = append(outs, Outcome{st: t})
		}
		if f == nil {
			return outs
		}
		cur = f
	}
	outs = append(outs, Outcome{st: cur})
	return outs
}

// ---------------------------------------------------------------------------
// range / next

func (e *Engine) rangeOp(st *State, xv Value, fn *ssa.Function) []Outcome {
	switch c := xv.(type) {
	case *StrV:
		var outs []Outcome
		for _, cs := range e.concStr(st, c) {
			id := e.alloc(cs.st, &IterObj{IsStr: true, Str: cs.s})
			outs = append(outs, Outcome{st: cs.st, ret: &IterV{Obj: id}})
		}
		return outs
	case *MapV:
		it := &IterObj{}
		if !c.IsNil() {
			mo := e.mapObj(st, c)
			it.Keys, it.Vals = mo.Keys, mo.Vals
		}
		if e.cfg.MapOrderFns != nil && len(it.Keys) > 1 && e.mapOrderActive() {
			return e.rangePermutations(st, it)
		}
		id := e.alloc(st, it)
		return one(st, &IterV{Obj: id})
	}
	panic(e.abort("range over %T", xv))
}

func (e *Engine) mapOrderActive() bool {
	for i := len(e.stack) - 1; i >= 0; i-- {
		if e.cfg.MapOrderFns[fnKey(e.stack[i])] {
			return true
		}
	}
	return false
}

// rangePermutations realises nondeterministic map iteration order inside the functions named by vp:maporder. A mode
// (insertion order, reversed, rotated by one) is chosen nondeterministically the first time such a range is met and
// then applies to every such range until vpMapOrderReset() (so two runs inside one harness get independent modes).
// Bound: three of the n! orders per map, the same mode for all maps of one run.
func (e *Engine) rangePermutations(st *State, it *IterObj) []Outcome {
	n := len(it.Keys)
	apply := func(s *State, mode int) Outcome {
		keys := make([]Value, n)
		vals := make([]Value, n)
		for i := 0; i < n; i++ {
			j := i
			switch mode {
			case 1:
				j = n - 1 - i
			case 2:
				j = (i + 1) % n
			}
			keys[i], vals[i] = it.Keys[j], it.Vals[j]
		}
		id := e.alloc(s, &IterObj{Keys: keys, Vals: vals})
		return Outcome{st: s, ret: &IterV{Obj: id}}
	}
	if m, ok := st.aux["maporder.mode"]; ok {
		return []Outcome{apply(st, int(m.(*Term).Val))}
	}
	sel := e.tb.Fresh("maporder", 8)
	st.log = append(st.log[:len(st.log):len(st.log)], LogEntry{Name: sel.Name, Kind: "u8", T: []*Term{sel}})
	var outs []Outcome
	for mode := 0; mode < 3; mode++ {
		s := st
		if mode < 2 {
			s = st.fork()
		}
		s.assume(e.tb.Eq(sel, e.tb.Const(8, uint64(mode))))
		s.setAux("maporder.mode", e.tb.Const(8, uint64(mode)))
		outs = append(outs, apply(s, mode))
	}
	return outs
}

func (e *Engine) nextOp(st *State, iv *IterV, in *ssa.Next) []Outcome {
	it := e.get(st, iv.Obj).(*IterObj)
	tup := in.Type().(*types.Tuple)
	if it.IsStr {
		s := it.Str
		n, _ := s.ConcreteLen()
		if it.Pos >= n {
			return one(st, &TupleV{E: []Value{e.tb.False, e.tb.Int64(0), e.tb.Const(32, 0)}})
		}
		// decode one rune starting at Pos; forks on symbolic lead bytes via the interpreter's utf8 intrinsic
		var outs []Outcome
		for _, d := range e.decodeRune(st, s.B[it.Pos:n]) {
			ns := d.st
			ns.heap[iv.Obj] = &IterObj{IsStr: true, Str: s, Pos: it.Pos + d.size}
			outs = append(outs, Outcome{st: ns, ret: &TupleV{E: []Value{e.tb.True, e.tb.Int64(int64(it.Pos)), d.r}}})
		}
		return outs
	}
	if it.Pos >= len(it.Keys) {
		return one(st, &TupleV{E: []Value{e.tb.False, e.zero(tup.At(1).Type()), e.zero(tup.At(2).Type())}})
	}
	st.heap[iv.Obj] = &IterObj{Keys: it.Keys, Vals: it.Vals, Pos: it.Pos + 1}
	k, v := it.Keys[it.Pos], it.Vals[it.Pos]
	// blank identifiers have invalid type; give them the value anyway
	return one(st, &TupleV{E: []Value{e.tb.True, k, v}})
}

var _ = math.Inf

// symLoadMergeable reports whether all candidate elements of a symbolic-index load can be combined by ite.
func (e *Engine) symLoadMergeable(st *State, p *PtrV) bool {
	arr, ok := getPath(e.get(st, p.Obj), p.Path).(*ArrayV)
	if !ok {
		return false
	}
	n := p.SymN
	if n > len(arr.E) {
		n = len(arr.E)
	}
	c := e.tb.Fresh("probe", 0)
	for i := 1; i < n; i++ {
		if _, ok := e.iteValue(c, arr.E[0], arr.E[i]); !ok {
			return false
		}
	}
	return true
}

// logStub builds the result of a logging call: zero values, with pointer results pointing at fresh zero objects so
// that chained calls (WithField(...).Warnf(...)) have a receiver.
func (e *Engine) logStub(st *State, fn *ssa.Function) Value {
	res := fn.Signature.Results()
	mk := func(t types.Type) Value {
		if p, ok := t.Underlying().(*types.Pointer); ok {
			if _, isStruct := p.Elem().Underlying().(*types.Struct); isStruct {
				return &PtrV{Obj: e.alloc(st, e.zero(p.Elem()))}
			}
		}
		return e.zero(t)
	}
	switch res.Len() {
	case 0:
		return nil
	case 1:
		return mk(res.At(0).Type())
	}
	el := make([]Value, res.Len())
	for i := range el {
		el[i] = mk(res.At(i).Type())
	}
	return &TupleV{E: el}
}
