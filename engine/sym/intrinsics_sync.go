package sym

import (
	"fmt"
	"go/types"

	"golang.org/x/tools/go/ssa"
)

// sync.Map, sync/atomic.Value, time.AfterFunc, tls session caches: sequential models (the goroutine model is
// non-preemptive, so an atomic operation is an ordinary one). A sync.Map is an engine map kept beside the state,
// keyed by the address of the sync.Map value.

var emptyIface = types.NewInterfaceType(nil, nil)
var anyMapType = types.NewMap(emptyIface, emptyIface)

func addrKey(prefix string, p *PtrV) string { return fmt.Sprintf("%s:%d%s", prefix, p.Obj, pathKey(p.Path)) }

func (e *Engine) syncMapOf(st *State, p *PtrV, create bool) *MapV {
	k := addrKey("syncmap", p)
	if v, ok := st.aux[k]; ok {
		return v.(*MapV)
	}
	if !create {
		return &MapV{}
	}
	m := &MapV{Obj: e.alloc(st, &MapObj{})}
	st.setAux(k, m)
	return m
}

func init() {
	reg("(*sync.Map).Load", func(e *Engine, st *State, args []Value, fn *ssa.Function) []Outcome {
		return e.mapLookup(st, e.syncMapOf(st, args[0].(*PtrV), false), args[1], anyMapType, true)
	})
	reg("(*sync.Map).Store", func(e *Engine, st *State, args []Value, fn *ssa.Function) []Outcome {
		var outs []Outcome
		for _, o := range e.mapUpdate(st, e.syncMapOf(st, args[0].(*PtrV), true), args[1], args[2]) {
			outs = append(outs, Outcome{st: o.st, panicked: o.panicked, pv: o.pv})
		}
		return outs
	})
	reg("(*sync.Map).Delete", func(e *Engine, st *State, args []Value, fn *ssa.Function) []Outcome {
		var outs []Outcome
		for _, o := range e.mapDelete(st, e.syncMapOf(st, args[0].(*PtrV), false), args[1]) {
			outs = append(outs, Outcome{st: o.st})
		}
		return outs
	})
	reg("(*sync/atomic.Value).Store", func(e *Engine, st *State, args []Value, fn *ssa.Function) []Outcome {
		iv, _ := args[1].(*IfaceV)
		if iv == nil || iv.T == nil {
			return []Outcome{e.panicOut(st, "sync/atomic: store of nil value into Value")}
		}
		st.setAux(addrKey("atomicvalue", args[0].(*PtrV)), iv)
		return one(st, nil)
	})
	reg("(*sync/atomic.Value).Load", func(e *Engine, st *State, args []Value, fn *ssa.Function) []Outcome {
		if v, ok := st.aux[addrKey("atomicvalue", args[0].(*PtrV))]; ok {
			return one(st, v)
		}
		return one(st, &IfaceV{})
	})
	// sync/atomic.Pointer[T]: the pointer is kept beside the state, keyed by the address of the atomic value
	reg("(*sync/atomic.Pointer[T]).Store", func(e *Engine, st *State, args []Value, fn *ssa.Function) []Outcome {
		st.setAux(addrKey("atomicptr", args[0].(*PtrV)), args[1])
		return one(st, nil)
	})
	reg("(*sync/atomic.Pointer[T]).Load", func(e *Engine, st *State, args []Value, fn *ssa.Function) []Outcome {
		if v, ok := st.aux[addrKey("atomicptr", args[0].(*PtrV))]; ok {
			return one(st, v)
		}
		return one(st, &PtrV{})
	})
	reg("time.AfterFunc", func(e *Engine, st *State, args []Value, fn *ssa.Function) []Outcome {
		e.rep.noteStub("time.AfterFunc (timers are not modelled: the function is never run by the clock)")
		return one(st, &PtrV{})
	})
	reg("crypto/tls.NewLRUClientSessionCache", func(e *Engine, st *State, args []Value, fn *ssa.Function) []Outcome {
		return one(st, &IfaceV{})
	})
	// (*net/http.Transport).RoundTrip: the HTTP/TLS stack is not interpreted; the harness function
	// vpOnRoundTrip(t, req) of the package under test plays the remote end and sees the transport (TLS configuration)
	// and the request (URL host = dial target, Host header) exactly as the real transport would be handed them.
	reg("(*net/http.Transport).RoundTrip", func(e *Engine, st *State, args []Value, fn *ssa.Function) []Outcome {
		e.rep.noteStub("(*net/http.Transport).RoundTrip (remote end = harness vpOnRoundTrip)")
		hook := e.harnessFunc("vpOnRoundTrip")
		if hook == nil {
			panic(e.abort("http.Transport.RoundTrip: the harness package defines no vpOnRoundTrip"))
		}
		return e.callFunction(st, hook, []Value{args[0], args[1]}, nil)
	})
}
