package sym

import (
	"fmt"
	"go/types"
	"strings"

	"golang.org/x/tools/go/ssa"
)

// Goroutines, channels and sync.WaitGroup: a sequentialised, non-preemptive model.
//
// `go f(x)` records a pending goroutine in the state. Pending goroutines run, each to completion, when the running
// thread reaches a blocking point (WaitGroup.Wait with a non-zero counter, receive from an empty open channel, send
// to a full channel) or the explicit yield vpGoSched, and at the end of the harness. The order in which they run is
// nondeterministic: every permutation for up to goPermMax pending goroutines, otherwise three rotations of the spawn
// order (starting at the first, the last and the middle goroutine). A goroutine that itself blocks lets the remaining pending ones run (nested); if nothing can run any more the
// path ends in the Go runtime's "all goroutines are asleep - deadlock!".
//
// Bound (stated in the evidence): context switches happen only at goroutine completion and at blocking operations -
// schedules that preempt a goroutine between two non-blocking operations are not explored. Mutexes therefore never
// block. Channel capacities and WaitGroup counters must be concrete.

const goPermMax = 3

type goPending struct {
	fn   Value
	args []Value
	id   int
	mark int // allocation watermark at spawn: objects allocated later are local to whoever allocates them
}

// goList is the persistent list of pending goroutines (State.aux["go"]).
type goList struct{ items []goPending }

// ChanObj is the heap payload of a channel.
type ChanObj struct {
	Buf    []Value
	Cap    int
	Closed bool
}

func (e *Engine) pendingGo(st *State) []goPending {
	if v, ok := st.aux["go"]; ok {
		return v.(*goList).items
	}
	return nil
}

func (e *Engine) spawn(st *State, fn Value, args []Value) {
	e.goCounter++
	old := e.pendingGo(st)
	st.setAux("go", &goList{items: append(old[:len(old):len(old)], goPending{fn: fn, args: args, id: e.goCounter, mark: e.nextObj})})
	e.rep.noteStub("goroutines: non-preemptive sequentialisation (switch at completion / blocking operations only)")
}

// schedule runs pending goroutines while blocked(st) holds and returns the states in which it no longer does (plus
// panics raised by goroutines, and deadlocks).
func (e *Engine) schedule(st *State, blocked func(*State) bool, what string) []Outcome {
	var res []Outcome
	work := []*State{st}
	for len(work) > 0 {
		s := work[len(work)-1]
		work = work[:len(work)-1]
		if !blocked(s) {
			res = append(res, Outcome{st: s})
			continue
		}
		pend := e.pendingGo(s)
		n := len(pend)
		if n == 0 {
			res = append(res, e.panicOut(s, "all goroutines are asleep - deadlock! ("+what+")"))
			continue
		}
		// which goroutine runs next
		var choices []int
		mode, fixed := s.aux["go.rot"]
		switch {
		case n == 1:
			choices = []int{0}
		case fixed:
			_ = mode
			choices = []int{0} // rotation already chosen: spawn order from the chosen start
		case n > goPermMax:
			// three rotations of the spawn order
			choices = []int{0, n - 1, n / 2}
		default:
			for i := 0; i < n; i++ {
				choices = append(choices, i)
			}
		}
		var sel *Term
		if len(choices) > 1 {
			sel = e.tb.Fresh("sched", 8)
			s.log = append(s.log[:len(s.log):len(s.log)], LogEntry{Name: sel.Name, Kind: "u8", T: []*Term{sel}})
		}
		for k, i := range choices {
			s2 := s
			if k < len(choices)-1 {
				s2 = s.fork()
			}
			if sel != nil {
				s2.assume(e.tb.Eq(sel, e.tb.Const(8, uint64(i))))
			}
			rest := make([]goPending, 0, n-1)
			if n > goPermMax {
				// rotation: the chosen one first, then the others cyclically in spawn order
				rest = append(rest, pend[i+1:]...)
				rest = append(rest, pend[:i]...)
				s2.setAux("go.rot", e.tb.Const(8, 1))
			} else {
				rest = append(rest, pend[:i]...)
				rest = append(rest, pend[i+1:]...)
			}
			s2.setAux("go", &goList{items: rest})
			e.stats.Goroutines++
			prevGo, prevMark, prevRaces := e.curGo, e.curGoMark, e.racesFound
			e.curGo, e.curGoMark = pend[i].id, pend[i].mark
			gouts := e.callValue(s2, pend[i].fn, pend[i].args)
			if e.cfg.Races {
				e.rep.Obligations++
				if e.racesFound == prevRaces {
					e.rep.Discharged++
				}
			}
			e.curGo, e.curGoMark = prevGo, prevMark
			for _, o := range gouts {
				if o.panicked {
					res = append(res, o)
					continue
				}
				if len(e.pendingGo(o.st)) == 0 && o.st.aux["go.rot"] != nil {
					delAux(o.st, "go.rot")
				}
				work = append(work, o.st)
			}
		}
	}
	return res
}

func delAux(s *State, k string) {
	n := make(map[string]Value, len(s.aux))
	for a, b := range s.aux {
		if a != k {
			n[a] = b
		}
	}
	s.aux = n
}

// drainGoroutines runs everything still pending (end of harness, vpGoSched).
func (e *Engine) drainGoroutines(st *State) []Outcome {
	return e.schedule(st, func(s *State) bool { return len(e.pendingGo(s)) > 0 }, "drain")
}

func (e *Engine) chanObj(st *State, c *ChanV) *ChanObj {
	if c.Obj == 0 {
		return nil
	}
	if o, ok := e.get(st, c.Obj).(*ChanObj); ok {
		return o
	}
	panic(e.abort("channel object of unexpected kind"))
}

func (e *Engine) chanSend(st *State, c *ChanV, v Value) []Outcome {
	if c.Obj == 0 {
		return e.schedule(st, func(*State) bool { return true }, "send on nil channel")
	}
	if e.chanObj(st, c).Closed {
		return []Outcome{e.panicOut(st, "send on closed channel")}
	}
	outs := e.schedule(st, func(s *State) bool {
		o := e.chanObj(s, c)
		if o.Cap == 0 {
			panic(e.abort("send on an unbuffered channel is not modelled (rendezvous)"))
		}
		return !o.Closed && len(o.Buf) >= o.Cap
	}, "chan send")
	for i := range outs {
		if outs[i].panicked {
			continue
		}
		s := outs[i].st
		o := e.chanObj(s, c)
		if o.Closed {
			outs[i] = e.panicOut(s, "send on closed channel")
			continue
		}
		s.heap[c.Obj] = &ChanObj{Buf: append(o.Buf[:len(o.Buf):len(o.Buf)], v), Cap: o.Cap, Closed: false}
	}
	return outs
}

// chanRecv returns (value, ok) tuples when commaOk, else the value.
func (e *Engine) chanRecv(st *State, c *ChanV, zero Value, commaOk bool) []Outcome {
	if c.Obj == 0 {
		return e.schedule(st, func(*State) bool { return true }, "receive from nil channel")
	}
	outs := e.schedule(st, func(s *State) bool {
		o := e.chanObj(s, c)
		return len(o.Buf) == 0 && !o.Closed
	}, "chan receive")
	for i := range outs {
		if outs[i].panicked {
			continue
		}
		s := outs[i].st
		o := e.chanObj(s, c)
		var v Value = zero
		ok := e.tb.False
		if len(o.Buf) > 0 {
			v = o.Buf[0]
			ok = e.tb.True
			s.heap[c.Obj] = &ChanObj{Buf: o.Buf[1:len(o.Buf):len(o.Buf)], Cap: o.Cap, Closed: o.Closed}
		}
		if commaOk {
			outs[i].ret = &TupleV{E: []Value{v, ok}}
		} else {
			outs[i].ret = v
		}
	}
	return outs
}

func (e *Engine) chanClose(st *State, c *ChanV) []Outcome {
	if c.Obj == 0 {
		return []Outcome{e.panicOut(st, "close of nil channel")}
	}
	o := e.chanObj(st, c)
	if o.Closed {
		return []Outcome{e.panicOut(st, "close of closed channel")}
	}
	st.heap[c.Obj] = &ChanObj{Buf: o.Buf, Cap: o.Cap, Closed: true}
	return one(st, nil)
}

// WaitGroup counters live in State.aux under the address of the WaitGroup.
func wgKey(p *PtrV) string { return fmt.Sprintf("wg:%d:%v", p.Obj, p.Path) }

func (e *Engine) wgCount(st *State, p *PtrV) int64 {
	if v, ok := st.aux[wgKey(p)]; ok {
		return int64(v.(*Term).Val)
	}
	return 0
}

func init() {
	reg("(*sync.WaitGroup).Add", func(e *Engine, st *State, args []Value, fn *ssa.Function) []Outcome {
		p := args[0].(*PtrV)
		d := args[1].(*Term)
		if !d.IsConst() {
			panic(e.abort("WaitGroup.Add with a symbolic delta"))
		}
		n := e.wgCount(st, p) + int64(d.Val)
		if n < 0 {
			return []Outcome{e.panicOut(st, "sync: negative WaitGroup counter")}
		}
		st.setAux(wgKey(p), e.tb.Int64(n))
		return one(st, nil)
	})
	reg("(*sync.WaitGroup).Done", func(e *Engine, st *State, args []Value, fn *ssa.Function) []Outcome {
		p := args[0].(*PtrV)
		n := e.wgCount(st, p) - 1
		if n < 0 {
			return []Outcome{e.panicOut(st, "sync: negative WaitGroup counter")}
		}
		if n == 0 {
			delAux(st, wgKey(p))
		} else {
			st.setAux(wgKey(p), e.tb.Int64(n))
		}
		return one(st, nil)
	})
	reg("(*sync.WaitGroup).Wait", func(e *Engine, st *State, args []Value, fn *ssa.Function) []Outcome {
		p := args[0].(*PtrV)
		return e.schedule(st, func(s *State) bool { return e.wgCount(s, p) > 0 }, "WaitGroup.Wait")
	})
	// context deadlines and cancellation: no timers are modelled, so a derived context never expires within a run
	// (stub: recorded in the evidence). The parent context is returned with a no-op cancel function.
	ctxStub := func(e *Engine, st *State, args []Value, fn *ssa.Function) []Outcome {
		e.rep.noteStub(fnKey(fn) + " (never expires; no-op cancel)")
		return one(st, &TupleV{E: []Value{args[0], &FuncV{Builtin: "builtin.vp.noop"}}})
	}
	reg("context.WithTimeout", ctxStub)
	reg("context.WithDeadline", ctxStub)
	reg("context.WithCancel", ctxStub)
	reg("runtime.Gosched", func(e *Engine, st *State, args []Value, fn *ssa.Function) []Outcome {
		return e.drainGoroutines(st)
	})
	// vpGoSched(): lets every pending goroutine run (natively: a short sleep)
	vpAPI["vpGoSched"] = func(e *Engine, st *State, args []Value, fn *ssa.Function) []Outcome {
		return e.drainGoroutines(st)
	}
}

func init() {
	// (*net/http.Client).Do: the request goes straight to the RoundTripper (the client's own, else
	// http.DefaultTransport, which the harness must have replaced by a scripted one); redirects, cookies and the
	// client timeout are not modelled (stub, recorded in the evidence).
	reg("(*net/http.Client).Do", func(e *Engine, st *State, args []Value, fn *ssa.Function) []Outcome {
		e.rep.noteStub("(*net/http.Client).Do (direct call of the scripted RoundTripper; no redirects/cookies/timeout)")
		c := e.load(st, args[0].(*PtrV)).(*StructV)
		rt, _ := c.F[0].(*IfaceV)
		if rt == nil || rt.T == nil {
			g, ok := fn.Pkg.Members["DefaultTransport"].(*ssa.Global)
			if !ok {
				panic(e.abort("http.DefaultTransport not found"))
			}
			rt, _ = e.load(st, e.globalPtr(g)).(*IfaceV)
		}
		if rt == nil || rt.T == nil {
			panic(e.abort("http.Client.Do: no scripted RoundTripper installed"))
		}
		var m *types.Func
		iface := fn.Pkg.Pkg.Scope().Lookup("RoundTripper").Type().Underlying().(*types.Interface)
		for i := 0; i < iface.NumMethods(); i++ {
			if iface.Method(i).Name() == "RoundTrip" {
				m = iface.Method(i)
			}
		}
		target := e.lookupMethod(rt.T, m)
		return e.callFunction(st, target, []Value{rt.V, args[1]}, nil)
	})
}

// ---------------------------------------------------------------------------
// Data-race detection (harness directive races=1)
//
// While a goroutine runs, every load and store through a pointer into an object that existed when the goroutine was
// spawned is logged in the state (goroutine, object, path, read/write). Two accesses of different goroutines to the
// same location (one path a prefix of the other), at least one of them a write, are a data race in the sense of the
// Go memory model unless ordered by synchronisation. Synchronisation between sibling goroutines is NOT modelled here
// (no locksets, no channel edges): the detector is meant for harnesses whose goroutines only call read-only
// accessors; whatever it reports is confirmed natively under the race detector (go test -race) before it is reported.
type raceAccess struct {
	gid   int
	obj   int
	path  string
	write bool
}

type raceLog struct{ items []raceAccess }

func (e *Engine) raceAccess(st *State, p *PtrV, write bool) {
	if p.Obj == 0 || p.Obj > e.curGoMark {
		return
	}
	if _, isBase := e.base[p.Obj]; isBase {
		if _, inHeap := st.heap[p.Obj]; !inHeap && !write {
			return // reads of never-written package-level data
		}
	}
	key := pathKey(p.Path)
	var old []raceAccess
	if v, ok := st.aux["race.log"]; ok {
		old = v.(*raceLog).items
	}
	for _, a := range old {
		if a.gid == e.curGo || a.obj != p.Obj || !(a.write || write) {
			continue
		}
		if strings.HasPrefix(a.path, key) || strings.HasPrefix(key, a.path) {
			id := fmt.Sprintf("%d%s", p.Obj, key)
			if !e.raceSeen[id] {
				if e.raceSeen == nil {
					e.raceSeen = map[string]bool{}
				}
				e.raceSeen[id] = true
				e.racesFound++
				where := ""
				if n := len(e.stack); n > 0 {
					where = e.stack[n-1].String()
				}
				in, r := e.modelInputs(st, e.tb.True)
				if r == Sat {
					e.rep.addViolation(Violation{Kind: "panic", Label: "panic", Message: "DATA RACE: unsynchronised accesses by two goroutines (at least one write) in " + where, Inputs: in})
				} else {
					e.rep.addInconclusive("data race in %s: solver unknown", where)
				}
			}
			break
		}
	}
	for _, a := range old {
		if a.gid == e.curGo && a.obj == p.Obj && a.path == key && (a.write || !write) {
			return // already logged
		}
	}
	st.setAux("race.log", &raceLog{items: append(old[:len(old):len(old)], raceAccess{e.curGo, p.Obj, key, write})})
}
