package sym

import (
	"fmt"
	"go/types"
	"os"
	"runtime"
	"time"
	"strings"

	"golang.org/x/tools/go/ssa"
)

// Outcome is one way a call (or instruction) can complete.
type Outcome struct {
	st       *State
	ret      Value
	panicked bool
	pv       Value // panic value (usually *StrV message or *IfaceV)
}

type deferred struct {
	fn   Value
	args []Value
	next *deferred
}

// Path is a state plus the registers of the current frame.
type Path struct {
	st     *State
	regs   []Value
	defers *deferred
	visits map[int]int // DFS fallback: back-edge counts
}

func (p *Path) clone(st *State) *Path {
	r := make([]Value, len(p.regs))
	copy(r, p.regs)
	return &Path{st: st, regs: r, defers: p.defers}
}

type fnExec struct {
	e    *Engine
	fn   *ssa.Function
	info *FnInfo
	outs []Outcome
}

func one(st *State, v Value) []Outcome { return []Outcome{{st: st, ret: v}} }

func (e *Engine) panicOut(st *State, msg string) Outcome {
	return Outcome{st: st, panicked: true, pv: e.StrConst(msg)}
}

// execFunction runs fn to completion on st and returns all outcomes.
func (e *Engine) execFunction(fn *ssa.Function, args []Value, bindings []Value, st *State) []Outcome {
	if len(e.stack) > e.cfg.MaxDepth {
		panic(e.abort("call depth bound D=%d exceeded", e.cfg.MaxDepth))
	}
	if len(fn.Blocks) == 0 {
		panic(e.abort("function without body and without intrinsic: %s", fn.String()))
	}
	e.stack = append(e.stack, fn)
	if len(e.stack) > e.stats.MaxDepthSeen {
		e.stats.MaxDepthSeen = len(e.stack)
	}
	depth := len(e.stack)
	defer func() {
		if r := recover(); r != nil {
			if _, ok := r.(*abortErr); !ok {
				buf := make([]byte, 8192)
				buf = buf[:runtime.Stack(buf, false)]
				var fr []string
				for _, l := range strings.Split(string(buf), "\n") {
					if strings.HasPrefix(l, "gosym/sym.") && !strings.Contains(l, "execFunction.func1") && len(fr) < 5 {
						if i := strings.Index(l, "("); i > 0 {
							l = l[:i]
						}
						fr = append(fr, strings.TrimPrefix(l, "gosym/sym."))
					}
				}
				r = e.abort("engine internal error: %v [%s]", r, strings.Join(fr, " < "))
			}
			if len(e.stack) >= depth {
				e.stack = e.stack[:depth-1]
			}
			panic(r)
		}
		if len(e.stack) >= depth {
			e.stack = e.stack[:depth-1]
		}
	}()
	e.stats.Calls++
	e.stats.Functions[fn.String()]++
	if e.cfg.Trace {
		e.tracef("%s> %s", strings.Repeat(" ", len(e.stack)), fn.String())
	}
	fi := e.info(fn)
	x := &fnExec{e: e, fn: fn, info: fi}
	p := &Path{st: st, regs: make([]Value, fi.nregs)}
	if len(args) != len(fn.Params) {
		panic(e.abort("call of %s with %d args, want %d", fn, len(args), len(fn.Params)))
	}
	for i, a := range args {
		p.regs[i] = a
	}
	for i, b := range bindings {
		p.regs[len(fn.Params)+i] = b
	}
	if fi.irreducible || !e.cfg.Merge {
		x.runDFS(p, fn.Blocks[0])
	} else {
		x.runRegion(fi.root, map[int][]*Path{0: {p}})
	}
	return x.outs
}

func (e *Engine) tracef(format string, args ...interface{}) {
	if e.solver.Log != nil {
		// reuse the log writer
		e.solver.Log.Write([]byte(sprintf(format, args...) + "\n"))
	}
}

// runDFS explores from block b depth first without merging.
func (x *fnExec) runDFS(p *Path, b *ssa.BasicBlock) {
	x.runBlock(p, b, 0, func(from, to *ssa.BasicBlock, q *Path) {
		if x.info.rpo[to.Index] <= x.info.rpo[from.Index] {
			if q.visits == nil {
				q.visits = map[int]int{}
			} else {
				nv := make(map[int]int, len(q.visits))
				for k, v := range q.visits {
					nv[k] = v
				}
				q.visits = nv
			}
			q.visits[to.Index]++
			if q.visits[to.Index] > x.e.cfg.LoopBound {
				x.e.unwindFailure(q.st, x.fn, to)
				return
			}
		}
		x.runDFS(q, to)
	})
}

func (e *Engine) unwindFailure(st *State, fn *ssa.Function, b *ssa.BasicBlock) {
	if e.solver.Check(st.pc) != Unsat {
		e.rep.addInconclusive("unwinding bound K=%d exceeded in %s (block %d)", e.cfg.LoopBound, fn.String(), b.Index)
		e.rep.UnwindFailures++
	}
}

// deliver applies phi nodes for edge from->to.
func (x *fnExec) applyPhis(p *Path, from, to *ssa.BasicBlock) int {
	n := 0
	var vals []Value
	predIdx := -1
	for i, pr := range to.Preds {
		if pr == from {
			predIdx = i
			break
		}
	}
	for _, ins := range to.Instrs {
		phi, ok := ins.(*ssa.Phi)
		if !ok {
			break
		}
		vals = append(vals, x.eval(p, phi.Edges[predIdx]))
		n++
	}
	for i := 0; i < n; i++ {
		p.regs[x.info.idx[to.Instrs[i].(*ssa.Phi)]] = vals[i]
	}
	return n
}

func nPhis(b *ssa.BasicBlock) int {
	n := 0
	for _, ins := range b.Instrs {
		if _, ok := ins.(*ssa.Phi); !ok {
			break
		}
		n++
	}
	return n
}

// runRegion executes an acyclic region (function body or one loop iteration).
func (x *fnExec) runRegion(R *Region, pending map[int][]*Path) (exits map[int][]*Path, backs []*Path) {
	exits = map[int][]*Path{}
	deliver := func(from, to *ssa.BasicBlock, q *Path) {
		switch {
		case R.isLoop && to == R.header:
			backs = append(backs, q)
		case R.in[to.Index]:
			pending[to.Index] = append(pending[to.Index], q)
		default:
			exits[to.Index] = append(exits[to.Index], q)
		}
	}
	for _, node := range R.nodes {
		if node.loop != nil {
			entry := pending[node.loop.header.Index]
			if len(entry) == 0 {
				continue
			}
			delete(pending, node.loop.header.Index)
			ex := x.runLoop(node.loop, entry)
			for tgt, ps := range ex {
				to := x.fn.Blocks[tgt]
				for _, q := range ps {
					deliver(nil, to, q)
				}
			}
			continue
		}
		b := node.block
		ps := pending[b.Index]
		if len(ps) == 0 {
			continue
		}
		delete(pending, b.Index)
		ps = x.mergePaths(ps)
		start := nPhis(b)
		for _, p := range ps {
			x.runBlock(p, b, start, func(from, to *ssa.BasicBlock, q *Path) {
				x.applyPhis(q, from, to)
				deliver(from, to, q)
			})
		}
	}
	return exits, backs
}

func (x *fnExec) runLoop(L *Region, entry []*Path) map[int][]*Path {
	exits := map[int][]*Path{}
	wave := entry
	// K counts only iterations whose continuation depended on symbolic data (the path condition grew);
	// loops over concrete data run to completion under the step budget.
	pcLen := func(ps []*Path) int {
		n := 0
		for _, p := range ps {
			n += len(p.st.pc)
		}
		return n*1000 + len(ps)
	}
	k := 0
	for iter := 0; len(wave) > 0; iter++ {
		before := pcLen(wave)
		if k > x.e.cfg.LoopBound {
			for _, p := range wave {
				x.e.unwindFailure(p.st, x.fn, L.header)
			}
			break
		}
		ex, backs := x.runRegion(L, map[int][]*Path{L.header.Index: wave})
		for tgt, ps := range ex {
			exits[tgt] = append(exits[tgt], ps...)
		}
		wave = backs
		if len(wave) > 0 && pcLen(wave) != before {
			k++
		}
	}
	return exits
}

// mergePaths merges mergeable paths arriving at the same block.
func (x *fnExec) mergePaths(ps []*Path) []*Path {
	if len(ps) < 2 || !x.e.cfg.Merge {
		return ps
	}
	var res []*Path
	for _, p := range ps {
		merged := false
		lo := 0
		if len(res) > 6 {
			lo = len(res) - 6 // bound the quadratic search: only recent candidates
		}
		for i := lo; i < len(res); i++ {
			q := res[i]
			if q.defers != p.defers {
				continue
			}
			st, regs, ok := x.e.mergeStates(q.st, p.st, q.regs, p.regs)
			if ok {
				res[i] = &Path{st: st, regs: regs, defers: q.defers}
				merged = true
				break
			}
		}
		if !merged {
			res = append(res, p)
		}
	}
	return res
}

// mergeOutcomes merges non-panicking outcomes of a call where possible.
func (e *Engine) mergeOutcomes(outs []Outcome) []Outcome {
	if len(outs) < 2 || !e.cfg.Merge {
		return outs
	}
	var res []Outcome
	for _, o := range outs {
		merged := false
		if !o.panicked {
			lo := 0
			if len(res) > 6 {
				lo = len(res) - 6
			}
			for i := lo; i < len(res); i++ {
				q := res[i]
				if q.panicked {
					continue
				}
				st, vals, ok := e.mergeStates(q.st, o.st, []Value{q.ret}, []Value{o.ret})
				if ok {
					res[i] = Outcome{st: st, ret: vals[0]}
					merged = true
					break
				}
			}
		}
		if !merged {
			res = append(res, o)
		}
	}
	return res
}

// eval returns the value of an SSA operand.
func (x *fnExec) eval(p *Path, v ssa.Value) Value {
	switch c := v.(type) {
	case *ssa.Const:
		return x.e.constValue(c)
	case *ssa.Global:
		return x.e.globalPtr(c)
	case *ssa.Function:
		return &FuncV{Fn: c}
	case *ssa.Builtin:
		return &FuncV{Builtin: "builtin." + c.Name()}
	}
	i, ok := x.info.idx[v]
	if !ok {
		panic(x.e.abort("eval: unknown value %s in %s", v.Name(), x.fn))
	}
	r := p.regs[i]
	if r == nil {
		// nil is a legal Value only for untyped nil; registers are always set before use
		if _, isNil := v.Type().Underlying().(*types.Basic); !isNil {
			panic(x.e.abort("eval: register %s (%s) unset in %s", v.Name(), v.Type(), x.fn))
		}
	}
	return r
}

type deliverFn func(from, to *ssa.BasicBlock, q *Path)

// runBlock executes instructions of b starting at idx; control transfers are reported through deliver.
func (x *fnExec) runBlock(p *Path, b *ssa.BasicBlock, idx int, deliver deliverFn) {
	e := x.e
	for ; idx < len(b.Instrs); idx++ {
		e.stats.Steps++
		if e.stats.Steps > e.cfg.MaxSteps {
			panic(e.abort("step budget exhausted (%d)", e.cfg.MaxSteps))
		}
		if e.stats.Steps&0xfff == 0 {
			e.tick()
		}
		ins := b.Instrs[idx]
		switch in := ins.(type) {
		case *ssa.Phi:
			// only reached in DFS mode
			continue
		case *ssa.If:
			c := x.eval(p, in.Cond).(*Term)
			t, f := e.branch(p.st, c)
			if t != nil && f != nil {
				q := p.clone(f)
				p.st = t
				x.goTo(p, b, b.Succs[0], deliver)
				x.goTo(q, b, b.Succs[1], deliver)
			} else if t != nil {
				p.st = t
				x.goTo(p, b, b.Succs[0], deliver)
			} else if f != nil {
				p.st = f
				x.goTo(p, b, b.Succs[1], deliver)
			}
			return
		case *ssa.Jump:
			x.goTo(p, b, b.Succs[0], deliver)
			return
		case *ssa.Return:
			var ret Value
			switch len(in.Results) {
			case 0:
			case 1:
				ret = x.eval(p, in.Results[0])
			default:
				el := make([]Value, len(in.Results))
				for i, r := range in.Results {
					el[i] = x.eval(p, r)
				}
				ret = &TupleV{E: el}
			}
			x.outs = append(x.outs, Outcome{st: p.st, ret: ret})
			return
		case *ssa.Panic:
			pv := x.eval(p, in.X)
			x.raise(p, Outcome{st: p.st, panicked: true, pv: pv})
			return
		case *ssa.RunDefers:
			ps := x.runDefers(p)
			if len(ps) == 0 {
				return
			}
			for _, q := range ps[1:] {
				x.runBlock(q, b, idx+1, deliver)
			}
			p = ps[0]
			continue
		case *ssa.Defer:
			fnv, args := x.callTarget(p, &in.Call)
			p.defers = &deferred{fn: fnv, args: args, next: p.defers}
			continue
		case *ssa.Go:
			fnv, args := x.callTarget(p, &in.Call)
			if b, ok := in.Call.Value.(*ssa.Builtin); ok {
				panic(e.abort("go statement on builtin %s", b.Name()))
			}
			e.spawn(p.st, fnv, args)
			continue
		case *ssa.Select:
			panic(e.abort("select not supported (%s)", x.fn))
		case *ssa.DebugRef:
			continue
		}
		// ordinary instruction: may fork / panic
		outs := x.execInstr(p, ins)
		var conts []*Path
		for i := range outs {
			o := outs[i]
			q := p
			if len(outs) > 1 {
				q = p.clone(o.st)
			}
			q.st = o.st
			if o.panicked {
				x.raise(q, o)
				continue
			}
			if v, ok := ins.(ssa.Value); ok {
				q.regs[x.info.idx[v]] = o.ret
			}
			conts = append(conts, q)
		}
		if len(conts) == 0 {
			return
		}
		for _, q := range conts[1:] {
			x.runBlock(q, b, idx+1, deliver)
		}
		p = conts[0]
	}
}

func (x *fnExec) goTo(p *Path, from, to *ssa.BasicBlock, deliver deliverFn) {
	if x.info.irreducible || !x.e.cfg.Merge {
		x.applyPhis(p, from, to)
	}
	deliver(from, to, p)
}

// raise propagates a panic out of the current frame after running deferred calls.
func (x *fnExec) raise(p *Path, o Outcome) {
	p.st = o.st
	ps := []*Path{p}
	if p.defers != nil {
		ps = x.runDefers(p)
	}
	for _, q := range ps {
		x.outs = append(x.outs, Outcome{st: q.st, panicked: true, pv: o.pv})
	}
}

// runDefers runs the pending deferred calls of the frame (LIFO); a panic inside a deferred call replaces the path with a panic outcome.
func (x *fnExec) runDefers(p *Path) []*Path {
	cur := []*Path{p}
	for p.defers != nil {
		d := p.defers
		var next []*Path
		for _, q := range cur {
			q.defers = d.next
			outs := x.e.callValue(q.st, d.fn, d.args)
			for i, o := range outs {
				if o.panicked {
					x.outs = append(x.outs, Outcome{st: o.st, panicked: true, pv: o.pv})
					continue
				}
				r := q
				if i > 0 || len(outs) > 1 {
					r = q.clone(o.st)
				}
				r.st = o.st
				r.defers = d.next
				next = append(next, r)
			}
		}
		cur = next
		if len(cur) == 0 {
			return nil
		}
		p = cur[0]
	}
	return cur
}

// evalUnder evaluates a Bool term under the state's model; ok=false if the state has no model.
func (e *Engine) evalUnder(st *State, c *Term) (bool, bool) {
	if st.model == nil {
		return false, false
	}
	return e.tb.Eval(c, st.model, map[*Term]uint64{}) == 1, true
}

// ensureModel rebuilds the state's model with one whole-pc query if it was invalidated.
func (e *Engine) ensureModel(st *State) {
	if st.model != nil {
		return
	}
	if len(st.pc) == 0 {
		st.model = map[string]uint64{}
		return
	}
	seen := map[int32]bool{}
	var vars []*Term
	for _, p := range st.pc {
		for _, id := range p.Vars() {
			if !seen[id] {
				seen[id] = true
				if v := e.tb.varByID[int(id)]; v != nil {
					vars = append(vars, v)
				}
			}
		}
	}
	if len(vars) == 0 {
		st.model = map[string]uint64{}
		return
	}
	r, m := e.solver.check(st.pc, vars, false)
	if r == Sat && m != nil {
		st.model = m
	}
}

// feasibleWith decides sat(pc AND c); on sat it returns a model of the whole pc AND c (built from the state's model
// and the solver's values for the variables of the relevant slice).
func (e *Engine) feasibleWith(st *State, c *Term) (Result, map[string]uint64) {
	r, m := e.solver.FeasibleModel(st.pc, c)
	if r != Sat || m == nil {
		return r, nil
	}
	if st.model == nil {
		// no model of the remainder known: only usable if the slice covered the whole pc
		if len(m) == 0 {
			return r, nil
		}
		if !e.solver.lastSliceWhole {
			return r, nil
		}
		return r, m
	}
	nm := make(map[string]uint64, len(st.model)+len(m))
	for k, v := range st.model {
		nm[k] = v
	}
	for k, v := range m {
		nm[k] = v
	}
	return r, nm
}

// branch splits st on c. Either result may be nil (infeasible). st itself is reused for one side.
func (e *Engine) branch(st *State, c *Term) (t, f *State) {
	if c.IsTrue() {
		return st, nil
	}
	if c.IsFalse() {
		return nil, st
	}
	nc := e.tb.Not(c)
	for _, pc := range st.pc {
		if pc == c {
			return st, nil
		}
		if pc == nc {
			return nil, st
		}
	}
	var mt, mf map[string]uint64
	rt, rf := Unknown, Unknown
	e.ensureModel(st)
	if v, ok := e.evalUnder(st, c); ok {
		e.stats.ModelHits++
		if v {
			rt, mt = Sat, st.model
		} else {
			rf, mf = Sat, st.model
		}
	}
	if rt == Unknown {
		rt, mt = e.feasibleWith(st, c)
		if rt == Unsat {
			return nil, st
		}
	}
	if rf == Unknown {
		rf, mf = e.feasibleWith(st, nc)
		if rf == Unsat {
			return st, nil
		}
	}
	e.stats.Forks++
	if e.stats.Forks > e.cfg.MaxPaths {
		panic(e.abort("path budget exhausted (%d forks)", e.cfg.MaxPaths))
	}
	f = st.fork()
	st.assume(c)
	st.model = mt
	f.assume(nc)
	f.model = mf
	return st, f
}

// guard continues with ok assumed; if !ok is feasible a panic outcome is appended to outs.
func (e *Engine) guard(st *State, ok *Term, msg string, outs *[]Outcome) *State {
	if !ok.IsConst() {
		// the failing side is usually infeasible: one query settles it
		if r, _ := e.solver.FeasibleModel(st.pc, e.tb.Not(ok)); r == Unsat {
			return st
		}
	}
	t, f := e.branch(st, ok)
	if f != nil {
		*outs = append(*outs, e.panicOut(f, msg))
	}
	return t
}

type concrete struct {
	st *State
	v  int64
}

// concretize enumerates the feasible values of t (signed 64-bit view), forking the state.
func (e *Engine) concretize(st *State, t *Term) []concrete {
	if t.IsConst() {
		return []concrete{{st, t.SVal()}}
	}
	var res []concrete
	excl := st.pc[:len(st.pc):len(st.pc)]
	for n := 0; ; n++ {
		if n > e.cfg.MaxConcretize {
			panic(e.abort("concretize: more than %d feasible values for %v", e.cfg.MaxConcretize, t))
		}
		r, m := e.solver.CheckModel(excl, []*Term{t})
		if r == Unsat {
			break
		}
		if r == Unknown {
			panic(e.abort("concretize: solver unknown"))
		}
		var val uint64
		if t.Op == OpVar {
			val = m[t.Name]
		} else {
			val = m[termName(t)]
		}
		k := e.tb.Const(t.W, val)
		ns := st.fork()
		ns.assume(e.tb.Eq(t, k))
		res = append(res, concrete{ns, k.SVal()})
		excl = append(excl, e.tb.Not(e.tb.Eq(t, k)))
		e.stats.Forks++
	}
	return res
}

// tick enforces the wall-clock budget and prints progress when GOSYM_PROGRESS is set.
func (e *Engine) tick() {
	now := time.Now()
	if !e.deadline.IsZero() && now.After(e.deadline) {
		panic(e.abort("wall-clock budget of %d s exhausted", e.cfg.TimeoutS))
	}
	if e.progress && now.Sub(e.lastTick) > 5*time.Second {
		e.lastTick = now
		var top []string
		for i := len(e.stack) - 1; i >= 0 && len(top) < 6; i-- {
			top = append(top, e.stack[i].Name())
		}
		fmt.Fprintf(os.Stderr, "[progress] steps=%d forks=%d merges=%d queries=%d solver=%.1fs depth=%d stack=%s\n", e.stats.Steps, e.stats.Forks, e.stats.Merges,
			e.solver.NQueries, e.solver.SolverTime.Seconds(), len(e.stack), strings.Join(top, "<"))
	}
}
