package sym

import (
	"bufio"
	"bytes"
	"fmt"
	"io"
	"os"
	"os/exec"
	"sort"
	"strconv"
	"strings"
	"time"
)

// Result of a satisfiability query.
type Result int

const (
	Unknown Result = iota
	Sat
	Unsat
)

func (r Result) String() string { return [...]string{"unknown", "sat", "unsat"}[r] }

// Solver drives one persistent `z3 -in` process plus an external portfolio for hard queries.
type Solver struct {
	tb      *TB
	cmd     *exec.Cmd
	in      io.WriteCloser
	out     *bufio.Reader
	defined map[int]bool
	cache   map[string]Result
	// statistics
	NQueries   int
	NCacheHit  int
	NExternal  int
	NUnknown   int
	SolverTime time.Duration
	TimeoutMs  int // incremental query timeout
	ExtTimeout time.Duration
	Log        io.Writer
	scratch    string
	ErrCount   int
	pending    bytes.Buffer
	CrossCheck bool // cross-check every VC (CheckModel) with a second solver
	NCross     int
	NDisagree  int
}

func NewSolver(tb *TB, scratch string) (*Solver, error) {
	s := &Solver{tb: tb, defined: map[int]bool{}, cache: map[string]Result{}, TimeoutMs: 5000, ExtTimeout: 120 * time.Second, scratch: scratch}
	if err := s.start(); err != nil {
		return nil, err
	}
	return s, nil
}

func (s *Solver) start() error {
	s.cmd = exec.Command("z3", "-in")
	var err error
	s.in, err = s.cmd.StdinPipe()
	if err != nil {
		return err
	}
	op, err := s.cmd.StdoutPipe()
	if err != nil {
		return err
	}
	s.cmd.Stderr = os.Stderr
	s.out = bufio.NewReaderSize(op, 1<<16)
	if err := s.cmd.Start(); err != nil {
		return err
	}
	s.defined = map[int]bool{}
	s.send("(set-option :print-success false)\n(set-option :timeout " + strconv.Itoa(s.TimeoutMs) + ")\n")
	return nil
}

func (s *Solver) Close() {
	if s.cmd != nil {
		s.in.Close()
		s.cmd.Process.Kill()
		s.cmd.Wait()
		s.cmd = nil
	}
}

func (s *Solver) send(str string) {
	s.pending.WriteString(str)
}

func (s *Solver) flush() error {
	_, err := s.in.Write(s.pending.Bytes())
	s.pending.Reset()
	return err
}

// readResp reads one balanced s-expression or atom line.
func (s *Solver) readResp() (string, error) {
	var sb strings.Builder
	depth := 0
	started := false
	for {
		line, err := s.out.ReadString('\n')
		if err != nil {
			return sb.String(), err
		}
		inStr := false
		for _, c := range line {
			switch {
			case c == '"':
				inStr = !inStr
			case inStr:
			case c == '(':
				depth++
			case c == ')':
				depth--
			}
		}
		if strings.TrimSpace(line) != "" {
			started = true
		}
		sb.WriteString(line)
		if started && depth <= 0 {
			return strings.TrimSpace(sb.String()), nil
		}
	}
}

func sortName(w int) string {
	if w == 0 {
		return "Bool"
	}
	return fmt.Sprintf("(_ BitVec %d)", w)
}

func termName(t *Term) string {
	switch t.Op {
	case OpConst:
		if t.W == 0 {
			if t.Val == 1 {
				return "true"
			}
			return "false"
		}
		return fmt.Sprintf("(_ bv%d %d)", t.Val, t.W)
	case OpVar:
		return "v" + strconv.Itoa(t.ID)
	}
	return "t" + strconv.Itoa(t.ID)
}

func termBody(t *Term) string {
	a := func(i int) string { return termName(t.Args[i]) }
	switch t.Op {
	case OpZExt:
		return fmt.Sprintf("((_ zero_extend %d) %s)", t.W-t.Args[0].W, a(0))
	case OpSExt:
		return fmt.Sprintf("((_ sign_extend %d) %s)", t.W-t.Args[0].W, a(0))
	case OpExtract:
		return fmt.Sprintf("((_ extract %d %d) %s)", int(t.Val)+t.W-1, t.Val, a(0))
	}
	var sb strings.Builder
	sb.WriteString("(")
	sb.WriteString(opNames[t.Op])
	for i := 0; i < t.N; i++ {
		sb.WriteString(" ")
		sb.WriteString(a(i))
	}
	sb.WriteString(")")
	return sb.String()
}

// emitDefs writes definitions for all not yet defined sub-terms of ts into w (post-order).
func emitDefs(ts []*Term, defined map[int]bool, w *bytes.Buffer) {
	var stack []*Term
	for _, t := range ts {
		stack = append(stack, t)
	}
	// iterative post-order
	type fr struct {
		t *Term
		i int
	}
	var st []fr
	for _, root := range ts {
		if defined[root.ID] || root.Op == OpConst {
			continue
		}
		st = append(st, fr{root, 0})
		for len(st) > 0 {
			top := &st[len(st)-1]
			if defined[top.t.ID] {
				st = st[:len(st)-1]
				continue
			}
			if top.i < top.t.N {
				c := top.t.Args[top.i]
				top.i++
				if !defined[c.ID] && c.Op != OpConst {
					st = append(st, fr{c, 0})
				}
				continue
			}
			t := top.t
			st = st[:len(st)-1]
			defined[t.ID] = true
			if t.Op == OpVar {
				fmt.Fprintf(w, "(declare-const %s %s)\n", termName(t), sortName(t.W))
			} else {
				fmt.Fprintf(w, "(define-fun %s () %s %s)\n", termName(t), sortName(t.W), termBody(t))
			}
		}
	}
	_ = stack
}

func cacheKey(conj []*Term) string {
	ids := make([]int, len(conj))
	for i, t := range conj {
		ids[i] = t.ID
	}
	sort.Ints(ids)
	var sb strings.Builder
	prev := -1
	for _, i := range ids {
		if i == prev {
			continue
		}
		prev = i
		sb.WriteString(strconv.Itoa(i))
		sb.WriteByte(',')
	}
	return sb.String()
}

// Check decides satisfiability of the conjunction.
func (s *Solver) Check(conj []*Term) Result {
	r, _ := s.check(conj, nil, false)
	return r
}

// CheckModel decides satisfiability and returns values for vars when sat. VC-grade: falls back to the external portfolio on unknown.
func (s *Solver) CheckModel(conj []*Term, vars []*Term) (Result, map[string]uint64) {
	return s.check(conj, vars, true)
}

func (s *Solver) check(conj []*Term, vars []*Term, vc bool) (Result, map[string]uint64) {
	// trivial cases
	var live []*Term
	for _, t := range conj {
		if t.IsFalse() {
			return Unsat, nil
		}
		if !t.IsTrue() {
			live = append(live, t)
		}
	}
	key := cacheKey(live)
	if vars == nil {
		if r, ok := s.cache[key]; ok {
			s.NCacheHit++
			return r, nil
		}
	}
	if len(live) == 0 {
		m := map[string]uint64{}
		return Sat, m
	}
	s.NQueries++
	t0 := time.Now()
	defer func() { s.SolverTime += time.Since(t0) }()
	res, model, err := s.incremental(live, vars)
	if err != nil {
		s.ErrCount++
		if s.Log != nil {
			fmt.Fprintf(s.Log, "solver error: %v; restarting\n", err)
		}
		s.Close()
		if e2 := s.start(); e2 != nil {
			panic(e2)
		}
		res = Unknown
	}
	if res == Unknown && vc {
		s.NExternal++
		res, model = s.external(live, vars, s.ExtTimeout)
	} else if vc && s.CrossCheck && res != Unknown {
		s.NCross++
		r2, _ := s.externalOne("cvc5", live, nil, s.ExtTimeout)
		if r2 != Unknown && r2 != res {
			s.NDisagree++
			res = Unknown
		}
	}
	if res == Unknown {
		s.NUnknown++
	}
	if res != Unknown || !vc {
		s.cache[key] = res
	}
	return res, model
}

func (s *Solver) incremental(live []*Term, vars []*Term) (Result, map[string]uint64, error) {
	emitDefs(live, s.defined, &s.pending)
	if len(vars) > 0 {
		emitDefs(vars, s.defined, &s.pending)
	}
	s.send("(push 1)\n")
	for _, t := range live {
		s.send("(assert " + termName(t) + ")\n")
	}
	s.send("(check-sat)\n")
	if err := s.flush(); err != nil {
		return Unknown, nil, err
	}
	resp, err := s.readResp()
	if err != nil {
		return Unknown, nil, err
	}
	var res Result
	switch resp {
	case "sat":
		res = Sat
	case "unsat":
		res = Unsat
	case "unknown":
		res = Unknown
	default:
		return Unknown, nil, fmt.Errorf("unexpected solver response %q", resp)
	}
	var model map[string]uint64
	if res == Sat && len(vars) > 0 {
		var sb strings.Builder
		sb.WriteString("(get-value (")
		for _, v := range vars {
			sb.WriteString(termName(v))
			sb.WriteString(" ")
		}
		sb.WriteString("))\n")
		s.send(sb.String())
		if err := s.flush(); err != nil {
			return Unknown, nil, err
		}
		resp, err := s.readResp()
		if err != nil {
			return Unknown, nil, err
		}
		if strings.Contains(resp, "(error") {
			return Unknown, nil, fmt.Errorf("get-value: %s", resp)
		}
		model = parseValues(resp, vars)
	} else if res == Sat {
		model = map[string]uint64{}
	}
	s.send("(pop 1)\n")
	if err := s.flush(); err != nil {
		return Unknown, nil, err
	}
	return res, model, nil
}

// parseValues parses ((v1 #x0a) (v2 true) ...) in the order of vars.
func parseValues(resp string, vars []*Term) map[string]uint64 {
	m := map[string]uint64{}
	byName := map[string]*Term{}
	for _, v := range vars {
		byName[termName(v)] = v
	}
	toks := tokenize(resp)
	// pattern: ( ( name value ) ( name value ) ... ) ; value may be "(_ bvN W)"
	i := 0
	for i < len(toks) {
		if toks[i] == "(" && i+2 < len(toks) {
			name := toks[i+1]
			if v, ok := byName[name]; ok {
				val := toks[i+2]
				var x uint64
				switch {
				case val == "true":
					x = 1
				case val == "false":
					x = 0
				case strings.HasPrefix(val, "#x"):
					x, _ = strconv.ParseUint(val[2:], 16, 64)
				case strings.HasPrefix(val, "#b"):
					x, _ = strconv.ParseUint(val[2:], 2, 64)
				case val == "(" && i+4 < len(toks) && toks[i+3] == "_":
					x, _ = strconv.ParseUint(strings.TrimPrefix(toks[i+4], "bv"), 10, 64)
				}
				m[v.Name] = x
				if v.Op != OpVar {
					m[termName(v)] = x
				}
				i += 3
				continue
			}
		}
		i++
	}
	return m
}

func tokenize(s string) []string {
	var toks []string
	cur := strings.Builder{}
	fl := func() {
		if cur.Len() > 0 {
			toks = append(toks, cur.String())
			cur.Reset()
		}
	}
	for _, c := range s {
		switch c {
		case '(', ')':
			fl()
			toks = append(toks, string(c))
		case ' ', '\n', '\t', '\r':
			fl()
		default:
			cur.WriteRune(c)
		}
	}
	fl()
	return toks
}

// WriteSMT renders a standalone SMT-LIB2 script for the conjunction.
func WriteSMT(conj []*Term, vars []*Term) []byte {
	var b bytes.Buffer
	defined := map[int]bool{}
	emitDefs(conj, defined, &b)
	emitDefs(vars, defined, &b)
	for _, t := range conj {
		fmt.Fprintf(&b, "(assert %s)\n", termName(t))
	}
	b.WriteString("(check-sat)\n")
	if len(vars) > 0 {
		b.WriteString("(get-value (")
		for _, v := range vars {
			b.WriteString(termName(v) + " ")
		}
		b.WriteString("))\n")
	}
	return b.Bytes()
}

type extAnswer struct {
	name  string
	res   Result
	model map[string]uint64
}

func (s *Solver) externalOne(which string, conj, vars []*Term, timeout time.Duration) (Result, map[string]uint64) {
	script := WriteSMT(conj, vars)
	f, err := os.CreateTemp(s.scratch, "vc-*.smt2")
	if err != nil {
		return Unknown, nil
	}
	defer os.Remove(f.Name())
	var hdr string
	switch which {
	case "cvc5", "cvc5-int":
		hdr = "(set-logic QF_BV)\n(set-option :produce-models true)\n"
	}
	f.WriteString(hdr)
	f.Write(script)
	f.Close()
	var cmd *exec.Cmd
	secs := int(timeout / time.Second)
	switch which {
	case "z3":
		cmd = exec.Command("z3", fmt.Sprintf("-T:%d", secs), f.Name())
	case "z3-new":
		cmd = exec.Command("z3-new", fmt.Sprintf("-T:%d", secs), f.Name())
	case "cvc5":
		cmd = exec.Command("cvc5", fmt.Sprintf("--tlimit=%d", secs*1000), f.Name())
	case "cvc5-int":
		cmd = exec.Command("cvc5", "--solve-bv-as-int=sum", fmt.Sprintf("--tlimit=%d", secs*1000), f.Name())
	}
	out, _ := cmd.Output()
	txt := string(out)
	if strings.Contains(txt, "(error") {
		return Unknown, nil
	}
	lines := strings.SplitN(strings.TrimSpace(txt), "\n", 2)
	switch strings.TrimSpace(lines[0]) {
	case "sat":
		m := map[string]uint64{}
		if len(lines) > 1 {
			m = parseValues(lines[1], vars)
		}
		return Sat, m
	case "unsat":
		return Unsat, nil
	}
	return Unknown, nil
}

// external runs the portfolio (fresh z3, cvc5 bit-blasting, cvc5 bv-as-int) and takes the first definite answer.
func (s *Solver) external(conj, vars []*Term, timeout time.Duration) (Result, map[string]uint64) {
	names := []string{"z3", "cvc5-int", "cvc5"}
	ch := make(chan extAnswer, len(names))
	for _, n := range names {
		go func(n string) {
			r, m := s.externalOne(n, conj, vars, timeout)
			ch <- extAnswer{n, r, m}
		}(n)
	}
	var first *extAnswer
	for range names {
		a := <-ch
		if a.res == Unknown {
			continue
		}
		if first == nil {
			aa := a
			first = &aa
			// do not wait for the others beyond a short grace period
			break
		}
	}
	if first == nil {
		return Unknown, nil
	}
	return first.res, first.model
}
