package sym

import (
	"bufio"
	"bytes"
	"fmt"
	"io"
	"os"
	"os/exec"
	"sort"
	"strconv"
	"strings"
	"time"
)

// Result of a satisfiability query.
type Result int

const (
	Unknown Result = iota
	Sat
	Unsat
)

func (r Result) String() string { return [...]string{"unknown", "sat", "unsat"}[r] }

// backend is one persistent solver process speaking SMT-LIB2 on stdin/stdout.
type backend struct {
	name       string
	argv       []string
	header     string
	z3Timeout  bool // supports (set-option :timeout) between queries
	cmd        *exec.Cmd
	in         io.WriteCloser
	out        *bufio.Reader
	defined    map[int]bool
	pending    bytes.Buffer
	curTimeout int
	longWait   bool
}

func (b *backend) start() error {
	b.cmd = exec.Command(b.argv[0], b.argv[1:]...)
	var err error
	b.in, err = b.cmd.StdinPipe()
	if err != nil {
		return err
	}
	op, err := b.cmd.StdoutPipe()
	if err != nil {
		return err
	}
	b.cmd.Stderr = os.Stderr
	b.out = bufio.NewReaderSize(op, 1<<16)
	if err := b.cmd.Start(); err != nil {
		return err
	}
	b.defined = map[int]bool{}
	b.curTimeout = -1
	b.pending.Reset()
	b.pending.WriteString(b.header)
	return nil
}

func (b *backend) close() {
	if b.cmd != nil {
		b.in.Close()
		b.cmd.Process.Kill()
		b.cmd.Wait()
		b.cmd = nil
	}
}

func (b *backend) send(str string) { b.pending.WriteString(str) }

func (b *backend) flush() error {
	if dump := os.Getenv("GOSYM_DUMP"); dump != "" {
		if f, err := os.OpenFile(dump+"."+b.name, os.O_APPEND|os.O_CREATE|os.O_WRONLY, 0o644); err == nil {
			f.Write(b.pending.Bytes())
			f.Close()
		}
	}
	_, err := b.in.Write(b.pending.Bytes())
	b.pending.Reset()
	return err
}

// Solver drives persistent z3 (bit-blasting) and cvc5 (bit-vectors as integers) processes plus a one-shot portfolio.
type Solver struct {
	tb      *TB
	z3      *backend
	cvc     *backend
	cache   map[string]Result
	// statistics
	NQueries   int
	NCacheHit  int
	NExternal  int
	NUnknown   int
	NIntBackend int
	SolverTime time.Duration
	TimeoutMs  int // VC query timeout on the persistent back ends
	ExtTimeout time.Duration
	Log        io.Writer
	scratch    string
	ErrCount   int
	CrossCheck bool // cross-check every VC (CheckModel) with a second solver
	NCross     int
	NDisagree  int
	FeasTimeoutMs int
	lastSliceWhole bool
	vcQuery bool
	modelCache map[string]map[string]uint64
}

func NewSolver(tb *TB, scratch string) (*Solver, error) {
	s := &Solver{tb: tb, cache: map[string]Result{}, TimeoutMs: 5000, FeasTimeoutMs: 800, ExtTimeout: 120 * time.Second, scratch: scratch}
	s.z3 = &backend{name: "z3", argv: []string{"z3-new", "-in"}, header: "(set-option :print-success false)\n(set-logic QF_BV)\n", z3Timeout: true}
	s.cvc = &backend{name: "cvc5-int", argv: []string{"cvc5", "--incremental", "--solve-bv-as-int=sum", "--tlimit-per=3000"}, header: "(set-logic QF_BV)\n(set-option :produce-models true)\n"}
	if err := s.z3.start(); err != nil {
		return nil, err
	}
	return s, nil
}

func (s *Solver) Close() {
	s.z3.close()
	s.cvc.close()
}

// readResp reads one balanced s-expression or atom line.
// readRespTimed reads one response but gives up (and kills the process) if the solver stays silent.
func (s *backend) readRespTimed(d time.Duration) (string, error) {
	type rr struct {
		s   string
		err error
	}
	ch := make(chan rr, 1)
	go func() {
		r, err := s.readResp()
		ch <- rr{r, err}
	}()
	select {
	case r := <-ch:
		return r.s, r.err
	case <-time.After(d):
		s.close()
		return "", fmt.Errorf("solver %s silent for %v: killed", s.name, d)
	}
}

func (s *backend) readResp() (string, error) {
	var sb strings.Builder
	depth := 0
	started := false
	for {
		line, err := s.out.ReadString('\n')
		if err != nil {
			return sb.String(), err
		}
		inStr := false
		for _, c := range line {
			switch {
			case c == '"':
				inStr = !inStr
			case inStr:
			case c == '(':
				depth++
			case c == ')':
				depth--
			}
		}
		if strings.TrimSpace(line) != "" {
			started = true
		}
		sb.WriteString(line)
		if started && depth <= 0 {
			return strings.TrimSpace(sb.String()), nil
		}
	}
}

func sortName(w int) string {
	if w == 0 {
		return "Bool"
	}
	return fmt.Sprintf("(_ BitVec %d)", w)
}

func termName(t *Term) string {
	switch t.Op {
	case OpConst:
		if t.W == 0 {
			if t.Val == 1 {
				return "true"
			}
			return "false"
		}
		return fmt.Sprintf("(_ bv%d %d)", t.Val, t.W)
	case OpVar:
		return "v" + strconv.Itoa(t.ID)
	}
	return "t" + strconv.Itoa(t.ID)
}

func termBody(t *Term) string {
	a := func(i int) string { return termName(t.Args[i]) }
	switch t.Op {
	case OpZExt:
		return fmt.Sprintf("((_ zero_extend %d) %s)", t.W-t.Args[0].W, a(0))
	case OpSExt:
		return fmt.Sprintf("((_ sign_extend %d) %s)", t.W-t.Args[0].W, a(0))
	case OpExtract:
		return fmt.Sprintf("((_ extract %d %d) %s)", int(t.Val)+t.W-1, t.Val, a(0))
	}
	var sb strings.Builder
	sb.WriteString("(")
	sb.WriteString(opNames[t.Op])
	for i := 0; i < t.N; i++ {
		sb.WriteString(" ")
		sb.WriteString(a(i))
	}
	sb.WriteString(")")
	return sb.String()
}

// emitDefs writes definitions for all not yet defined sub-terms of ts into w (post-order).
func emitDefs(ts []*Term, defined map[int]bool, w *bytes.Buffer) {
	var stack []*Term
	for _, t := range ts {
		stack = append(stack, t)
	}
	// iterative post-order
	type fr struct {
		t *Term
		i int
	}
	var st []fr
	for _, root := range ts {
		if defined[root.ID] || root.Op == OpConst {
			continue
		}
		st = append(st, fr{root, 0})
		for len(st) > 0 {
			top := &st[len(st)-1]
			if defined[top.t.ID] {
				st = st[:len(st)-1]
				continue
			}
			if top.i < top.t.N {
				c := top.t.Args[top.i]
				top.i++
				if !defined[c.ID] && c.Op != OpConst {
					st = append(st, fr{c, 0})
				}
				continue
			}
			t := top.t
			st = st[:len(st)-1]
			defined[t.ID] = true
			if t.Op == OpVar {
				fmt.Fprintf(w, "(declare-const %s %s)\n", termName(t), sortName(t.W))
			} else {
				fmt.Fprintf(w, "(define-fun %s () %s %s)\n", termName(t), sortName(t.W), termBody(t))
			}
		}
	}
	_ = stack
}

func cacheKey(conj []*Term) string {
	ids := make([]int, len(conj))
	for i, t := range conj {
		ids[i] = t.ID
	}
	sort.Ints(ids)
	var sb strings.Builder
	prev := -1
	for _, i := range ids {
		if i == prev {
			continue
		}
		prev = i
		sb.WriteString(strconv.Itoa(i))
		sb.WriteByte(',')
	}
	return sb.String()
}

// Check decides satisfiability of the conjunction.
func (s *Solver) Check(conj []*Term) Result {
	r, _ := s.check(conj, nil, false)
	return r
}

// CheckModel decides satisfiability and returns values for vars when sat. VC-grade: falls back to the external portfolio on unknown.
func (s *Solver) CheckModel(conj []*Term, vars []*Term) (Result, map[string]uint64) {
	return s.check(conj, vars, true)
}

func (s *Solver) check(conj []*Term, vars []*Term, vc bool) (Result, map[string]uint64) {
	var live []*Term
	arith := false
	for _, t := range conj {
		if t.IsFalse() {
			return Unsat, nil
		}
		if !t.IsTrue() {
			live = append(live, t)
			if t.Arith {
				arith = true
			}
		}
	}
	key := cacheKey(live)
	if vars == nil || !vc {
		if r, ok := s.cache[key]; ok {
			if vars == nil || r != Sat {
				s.NCacheHit++
				return r, nil
			}
			if m, ok := s.modelCache[key]; ok {
				s.NCacheHit++
				return r, m
			}
		}
	}
	if len(live) == 0 {
		return Sat, map[string]uint64{}
	}
	s.NQueries++
	t0 := time.Now()
	defer func() { s.SolverTime += time.Since(t0) }()
	tmo := s.TimeoutMs
	if !vc {
		tmo = s.FeasTimeoutMs
	}
	order := []*backend{s.z3, s.cvc}
	if arith && vc {
		order = []*backend{s.cvc, s.z3}
	}
	s.vcQuery = vc
	res := Unknown
	var model map[string]uint64
	for i, b := range order {
		if i == 1 && !vc && !arith {
			break // feasibility of non-arithmetic queries: z3 only
		}
		if b == s.cvc {
			s.NIntBackend++
		}
		tq := time.Now()
		res, model = s.runBackend(b, live, vars, tmo)
		if s.Log != nil && time.Since(tq) > 500*time.Millisecond {
			fmt.Fprintf(s.Log, "slow query (%s %v, vc=%v): %s -> %v\n", b.name, time.Since(tq), vc, describe(live), res)
		}
		if res != Unknown {
			break
		}
	}
	if res == Unknown && vc {
		s.NExternal++
		res, model = s.external(live, vars, s.ExtTimeout)
	} else if vc && s.CrossCheck && res != Unknown {
		s.NCross++
		other := "cvc5"
		if arith {
			other = "z3-new"
		}
		r2, _ := s.externalOne(other, live, nil, 30*time.Second)
		if r2 != Unknown && r2 != res {
			s.NDisagree++
			res = Unknown
		}
	}
	if res == Unknown {
		s.NUnknown++
	}
	if res != Unknown || !vc {
		s.cache[key] = res
		if res == Sat && !vc && model != nil {
			if s.modelCache == nil {
				s.modelCache = map[string]map[string]uint64{}
			}
			s.modelCache[key] = model
		}
	}
	return res, model
}

func (s *Solver) runBackend(b *backend, live, vars []*Term, tmo int) (Result, map[string]uint64) {
	if b.cmd == nil {
		if err := b.start(); err != nil {
			return Unknown, nil
		}
	}
	b.longWait = s.vcQuery
	res, model, err := b.query(live, vars, tmo)
	if err != nil {
		s.ErrCount++
		if s.Log != nil {
			fmt.Fprintf(s.Log, "solver %s error: %v; restarting\n", b.name, err)
		}
		b.close()
		return Unknown, nil
	}
	return res, model
}

// Feasible decides sat(pc AND c) (see FeasibleModel).
func (s *Solver) Feasible(pc []*Term, c *Term) Result {
	r, _ := s.FeasibleModel(pc, c)
	return r
}

// FeasibleModel decides sat(pc AND c) using only the conjuncts of pc connected to c through shared variables
// (pc itself is satisfiable by construction, so the disconnected part cannot change the answer). On sat the values of
// the variables of that slice are returned.
func (s *Solver) FeasibleModel(pc []*Term, c *Term) (Result, map[string]uint64) {
	cv := c.Vars()
	s.lastSliceWhole = false
	if len(cv) == 0 {
		return s.check([]*Term{c}, nil, false)
	}
	inSet := map[int32]bool{}
	for _, v := range cv {
		inSet[v] = true
	}
	used := make([]bool, len(pc))
	changed := true
	for changed {
		changed = false
		for i, p := range pc {
			if used[i] {
				continue
			}
			hit := false
			for _, v := range p.Vars() {
				if inSet[v] {
					hit = true
					break
				}
			}
			if hit {
				used[i] = true
				changed = true
				for _, v := range p.Vars() {
					inSet[v] = true
				}
			}
		}
	}
	var q []*Term
	whole := true
	for i, p := range pc {
		if used[i] {
			q = append(q, p)
		} else if len(p.Vars()) > 0 {
			whole = false
		}
	}
	q = append(q, c)
	s.lastSliceWhole = whole
	vars := make([]*Term, 0, len(inSet))
	for id := range inSet {
		if v := s.tb.varByID[int(id)]; v != nil {
			vars = append(vars, v)
		}
	}
	if len(vars) == 0 {
		return s.check(q, nil, false)
	}
	return s.check(q, vars, false)
}

func (b *backend) query(live []*Term, vars []*Term, timeoutMs int) (Result, map[string]uint64, error) {
	s := b
	if b.z3Timeout && timeoutMs != b.curTimeout {
		s.send("(set-option :timeout " + strconv.Itoa(timeoutMs) + ")\n")
		b.curTimeout = timeoutMs
	}
	emitDefs(live, s.defined, &s.pending)
	if len(vars) > 0 {
		emitDefs(vars, s.defined, &s.pending)
	}
	s.send("(push 1)\n")
	for _, t := range live {
		s.send("(assert " + termName(t) + ")\n")
	}
	s.send("(check-sat)\n")
	if err := s.flush(); err != nil {
		return Unknown, nil, err
	}
	wait := time.Duration(timeoutMs)*time.Millisecond + 10*time.Second
	if !b.z3Timeout {
		// cvc5 runs under --tlimit-per but does not always honour it: watchdog
		wait = 4 * time.Second
		if b.longWait {
			wait = 20 * time.Second
		}
	}
	resp, err := s.readRespTimed(wait)
	if err != nil {
		return Unknown, nil, err
	}
	var res Result
	switch resp {
	case "sat":
		res = Sat
	case "unsat":
		res = Unsat
	case "unknown":
		res = Unknown
	default:
		if strings.Contains(resp, "timeout") || strings.Contains(resp, "interrupted") {
			res = Unknown
			break
		}
		return Unknown, nil, fmt.Errorf("unexpected solver response %q", resp)
	}
	var model map[string]uint64
	if res == Sat && len(vars) > 0 {
		var sb strings.Builder
		sb.WriteString("(get-value (")
		for _, v := range vars {
			sb.WriteString(termName(v))
			sb.WriteString(" ")
		}
		sb.WriteString("))\n")
		s.send(sb.String())
		if err := s.flush(); err != nil {
			return Unknown, nil, err
		}
		resp, err := s.readRespTimed(20 * time.Second)
		if err != nil {
			return Unknown, nil, err
		}
		if strings.Contains(resp, "(error") {
			return Unknown, nil, fmt.Errorf("get-value: %s", resp)
		}
		model = parseValues(resp, vars)
	} else if res == Sat {
		model = map[string]uint64{}
	}
	s.send("(pop 1)\n")
	if err := s.flush(); err != nil {
		return Unknown, nil, err
	}
	return res, model, nil
}

// parseValues parses ((v1 #x0a) (v2 true) ...) in the order of vars.
func parseValues(resp string, vars []*Term) map[string]uint64 {
	m := map[string]uint64{}
	byName := map[string]*Term{}
	for _, v := range vars {
		byName[termName(v)] = v
	}
	toks := tokenize(resp)
	// pattern: ( ( name value ) ( name value ) ... ) ; value may be "(_ bvN W)"
	i := 0
	for i < len(toks) {
		if toks[i] == "(" && i+2 < len(toks) {
			name := toks[i+1]
			if v, ok := byName[name]; ok {
				val := toks[i+2]
				var x uint64
				switch {
				case val == "true":
					x = 1
				case val == "false":
					x = 0
				case strings.HasPrefix(val, "#x"):
					x, _ = strconv.ParseUint(val[2:], 16, 64)
				case strings.HasPrefix(val, "#b"):
					x, _ = strconv.ParseUint(val[2:], 2, 64)
				case val == "(" && i+4 < len(toks) && toks[i+3] == "_":
					x, _ = strconv.ParseUint(strings.TrimPrefix(toks[i+4], "bv"), 10, 64)
				}
				m[v.Name] = x
				if v.Op != OpVar {
					m[termName(v)] = x
				}
				i += 3
				continue
			}
		}
		i++
	}
	return m
}

func tokenize(s string) []string {
	var toks []string
	cur := strings.Builder{}
	fl := func() {
		if cur.Len() > 0 {
			toks = append(toks, cur.String())
			cur.Reset()
		}
	}
	for _, c := range s {
		switch c {
		case '(', ')':
			fl()
			toks = append(toks, string(c))
		case ' ', '\n', '\t', '\r':
			fl()
		default:
			cur.WriteRune(c)
		}
	}
	fl()
	return toks
}

// WriteSMT renders a standalone SMT-LIB2 script for the conjunction.
func WriteSMT(conj []*Term, vars []*Term) []byte {
	var b bytes.Buffer
	defined := map[int]bool{}
	emitDefs(conj, defined, &b)
	emitDefs(vars, defined, &b)
	for _, t := range conj {
		fmt.Fprintf(&b, "(assert %s)\n", termName(t))
	}
	b.WriteString("(check-sat)\n")
	if len(vars) > 0 {
		b.WriteString("(get-value (")
		for _, v := range vars {
			b.WriteString(termName(v) + " ")
		}
		b.WriteString("))\n")
	}
	return b.Bytes()
}

type extAnswer struct {
	name  string
	res   Result
	model map[string]uint64
}

func (s *Solver) externalOne(which string, conj, vars []*Term, timeout time.Duration) (Result, map[string]uint64) {
	script := WriteSMT(conj, vars)
	f, err := os.CreateTemp(s.scratch, "vc-*.smt2")
	if err != nil {
		return Unknown, nil
	}
	defer os.Remove(f.Name())
	var hdr string
	switch which {
	case "cvc5", "cvc5-int":
		hdr = "(set-logic QF_BV)\n(set-option :produce-models true)\n"
	}
	f.WriteString(hdr)
	f.Write(script)
	f.Close()
	var cmd *exec.Cmd
	secs := int(timeout / time.Second)
	switch which {
	case "z3":
		cmd = exec.Command("z3", fmt.Sprintf("-T:%d", secs), f.Name())
	case "z3-new":
		cmd = exec.Command("z3-new", fmt.Sprintf("-T:%d", secs), f.Name())
	case "cvc5":
		cmd = exec.Command("cvc5", fmt.Sprintf("--tlimit=%d", secs*1000), f.Name())
	case "cvc5-int":
		cmd = exec.Command("cvc5", "--solve-bv-as-int=sum", fmt.Sprintf("--tlimit=%d", secs*1000), f.Name())
	}
	out, _ := cmd.Output()
	txt := string(out)
	if strings.Contains(txt, "(error") {
		return Unknown, nil
	}
	lines := strings.SplitN(strings.TrimSpace(txt), "\n", 2)
	switch strings.TrimSpace(lines[0]) {
	case "sat":
		m := map[string]uint64{}
		if len(lines) > 1 {
			m = parseValues(lines[1], vars)
		}
		return Sat, m
	case "unsat":
		return Unsat, nil
	}
	return Unknown, nil
}

// external runs the portfolio (fresh z3, cvc5 bit-blasting, cvc5 bv-as-int) and takes the first definite answer.
func (s *Solver) external(conj, vars []*Term, timeout time.Duration) (Result, map[string]uint64) {
	names := []string{"z3", "cvc5-int", "cvc5"}
	ch := make(chan extAnswer, len(names))
	for _, n := range names {
		go func(n string) {
			r, m := s.externalOne(n, conj, vars, timeout)
			ch <- extAnswer{n, r, m}
		}(n)
	}
	var first *extAnswer
	for range names {
		a := <-ch
		if a.res == Unknown {
			continue
		}
		if first == nil {
			aa := a
			first = &aa
			// do not wait for the others beyond a short grace period
			break
		}
	}
	if first == nil {
		return Unknown, nil
	}
	return first.res, first.model
}

func describe(conj []*Term) string {
	if len(conj) == 0 {
		return "true"
	}
	last := conj[len(conj)-1].String()
	if len(last) > 300 {
		last = last[:300] + "..."
	}
	return fmt.Sprintf("%d conjuncts, last=%s", len(conj), last)
}
