package sym

import (
	"encoding/base64"
	"go/types"
	"math"
	"sort"
	"strconv"
	"strings"

	"golang.org/x/tools/go/ssa"
)

var stdB64 = base64.StdEncoding

type encOut struct {
	st  *State
	n   *JNode
	err Value
}

func (e *Engine) marshalerFor(t types.Type) *ssa.Function {
	if _, isIface := t.Underlying().(*types.Interface); isIface {
		return nil
	}
	m := e.methodOf(t, "MarshalJSON")
	if m == nil {
		return nil
	}
	sig := m.Signature
	if sig.Params().Len() != 0 || sig.Results().Len() != 2 {
		return nil
	}
	return m
}

// isEmptyValue mirrors encoding/json's omitempty test; returns a Bool term.
func (e *Engine) isEmptyValue(st *State, v Value, t types.Type) *Term {
	tb := e.tb
	switch x := v.(type) {
	case *Term:
		if x.W == 0 {
			return tb.Not(x)
		}
		return tb.Eq(x, tb.Const(x.W, 0))
	case FloatV:
		return tb.Bool(x == 0)
	case *StrV:
		return tb.Eq(x.N, tb.Int64(0))
	case *SliceV:
		if x.IsNil() {
			return tb.True
		}
		return tb.Eq(x.N, tb.Int64(0))
	case *MapV:
		return tb.Eq(e.lenOf(st, x), tb.Int64(0))
	case *PtrV:
		return tb.Bool(x.IsNil())
	case *IfaceV:
		return tb.Bool(x.T == nil)
	case *ArrayV:
		return tb.Bool(len(x.E) == 0)
	}
	return tb.False
}

// encode converts a Go value of static type t into a JSON value.
func (e *Engine) encode(st *State, v Value, t types.Type) []encOut {
	tb := e.tb
	if iv, ok := v.(*IfaceV); ok {
		if _, isIface := t.Underlying().(*types.Interface); isIface {
			if iv.T == nil {
				return []encOut{{st, &JNode{Kind: JNull}, nil}}
			}
			return e.encode(st, iv.V, iv.T)
		}
	}
	// nil pointers / maps / slices encode as null (before looking for Marshalers, as encoding/json does for pointers)
	switch x := v.(type) {
	case *PtrV:
		if x.IsNil() {
			return []encOut{{st, &JNode{Kind: JNull}, nil}}
		}
	case *MapV:
		if x.IsNil() {
			return []encOut{{st, &JNode{Kind: JNull}, nil}}
		}
	}
	if m := e.marshalerFor(t); m != nil {
		if s, ok := v.(*SliceV); ok && s.IsNil() && !strings.HasSuffix(t.String(), "RawJSON") {
			return []encOut{{st, &JNode{Kind: JNull}, nil}}
		}
		recv := v
		// pointer-receiver method on a non-pointer value: take the address of a copy
		if len(m.Params) > 0 {
			if _, wantsPtr := m.Params[0].Type().Underlying().(*types.Pointer); wantsPtr {
				if _, isPtr := v.(*PtrV); !isPtr {
					recv = &PtrV{Obj: e.alloc(st, v)}
				}
			}
		}
		var res []encOut
		for _, o := range e.callFunction(st, m, []Value{recv}, nil) {
			if o.panicked {
				res = append(res, encOut{o.st, nil, &panicMarker{o}})
				continue
			}
			tup := o.ret.(*TupleV)
			if iv := tup.E[1].(*IfaceV); iv.T != nil {
				res = append(res, encOut{o.st, nil, iv})
				continue
			}
			node, ok := e.docOf(o.st, tup.E[0].(*SliceV))
			if !ok {
				res = append(res, encOut{o.st, nil, e.jsonErr(o.st, "error calling MarshalJSON: invalid JSON")})
				continue
			}
			res = append(res, encOut{o.st, node, nil})
		}
		return res
	}
	switch u := t.Underlying().(type) {
	case *types.Pointer:
		p := v.(*PtrV)
		// *T where T (value receiver) has MarshalJSON is found through the pointer's method set above
		return e.encode(st, e.load(st, p), u.Elem())
	case *types.Struct:
		sv := v.(*StructV)
		type acc struct {
			st   *State
			keys []*StrV
			vals []*JNode
			err  Value
		}
		accs := []acc{{st, nil, nil, nil}}
		for _, f := range structFields(t) {
			if hasEmbeddedPtr(t, f.index) {
				// embedded pointer: nil pointer => fields skipped
				panic(e.abort("J2: marshal of field %s through embedded pointer", f.name))
			}
			fv, _ := getField(sv, f.index, e, t)
			var next []acc
			for _, a := range accs {
				if a.err != nil {
					next = append(next, a)
					continue
				}
				sts := []*State{a.st}
				skip := []bool{false}
				if f.omitEmpty {
					c := e.isEmptyValue(a.st, fv, f.typ)
					t1, f1 := e.branch(a.st, c)
					sts, skip = nil, nil
					if t1 != nil {
						sts, skip = append(sts, t1), append(skip, true)
					}
					if f1 != nil {
						sts, skip = append(sts, f1), append(skip, false)
					}
				}
				for i, s := range sts {
					if skip[i] {
						next = append(next, acc{s, a.keys, a.vals, a.err})
						continue
					}
					if f.quoted {
						panic(e.abort("J2: ,string option on field %s", f.name))
					}
					for _, eo := range e.encode(s, fv, f.typ) {
						if eo.err != nil {
							next = append(next, acc{eo.st, a.keys, a.vals, eo.err})
							continue
						}
						next = append(next, acc{eo.st, append(a.keys[:len(a.keys):len(a.keys)], e.StrConst(f.name)), append(a.vals[:len(a.vals):len(a.vals)], eo.n), nil})
					}
				}
			}
			accs = next
		}
		var res []encOut
		for _, a := range accs {
			if a.err != nil {
				res = append(res, encOut{a.st, nil, a.err})
				continue
			}
			res = append(res, encOut{a.st, &JNode{Kind: JObj, Keys: a.keys, Vals: a.vals}, nil})
		}
		return res
	case *types.Map:
		m := v.(*MapV)
		mo := e.mapObj(st, m)
		type kv struct {
			k *StrV
			v Value
		}
		type acc struct {
			st  *State
			kvs []kv
		}
		accs := []acc{{st, nil}}
		for i := range mo.Keys {
			var next []acc
			for _, a := range accs {
				for _, ks := range e.encodeMapKey(a.st, mo.Keys[i], u.Key()) {
					next = append(next, acc{ks.st, append(a.kvs[:len(a.kvs):len(a.kvs)], kv{ks.s, mo.Vals[i]})})
				}
			}
			accs = next
		}
		var res []encOut
		for _, a := range accs {
			kvs := a.kvs
			allConc := true
			for _, x := range kvs {
				if _, ok := x.k.Concrete(); !ok {
					allConc = false
				}
			}
			if allConc {
				sort.SliceStable(kvs, func(i, j int) bool {
					a, _ := kvs[i].k.Concrete()
					b, _ := kvs[j].k.Concrete()
					return a < b
				})
			}
			type acc2 struct {
				st   *State
				vals []*JNode
				err  Value
			}
			as := []acc2{{a.st, nil, nil}}
			for _, x := range kvs {
				var next []acc2
				for _, b := range as {
					if b.err != nil {
						next = append(next, b)
						continue
					}
					for _, eo := range e.encode(b.st, x.v, u.Elem()) {
						next = append(next, acc2{eo.st, append(b.vals[:len(b.vals):len(b.vals)], eo.n), eo.err})
					}
				}
				as = next
			}
			for _, b := range as {
				if b.err != nil {
					res = append(res, encOut{b.st, nil, b.err})
					continue
				}
				keys := make([]*StrV, len(kvs))
				for i, x := range kvs {
					keys[i] = x.k
				}
				res = append(res, encOut{b.st, &JNode{Kind: JObj, Keys: keys, Vals: b.vals}, nil})
			}
		}
		return res
	case *types.Slice:
		s := v.(*SliceV)
		if s.IsNil() {
			return []encOut{{st, &JNode{Kind: JNull}, nil}}
		}
		if eb, ok := u.Elem().Underlying().(*types.Basic); ok && eb.Kind() == types.Uint8 {
			if _, isDoc := e.get(st, s.Obj).(*JDocV); isDoc {
				panic(e.abort("J2: base64 encoding of a JSON document ([]byte field holding JSON)"))
			}
			str := e.sliceToStr(st, s)
			if c, ok := str.Concrete(); ok {
				return []encOut{{st, e.jStr(stdB64.EncodeToString([]byte(c))), nil}}
			}
			return []encOut{{st, &JNode{Kind: JStr, Str: e.base64Sym(st, str, true, true)}, nil}}
		}
		var res []encOut
		for _, cs := range e.concSlice(st, s) {
			n := int(cs.s.N.Val)
			type acc struct {
				st    *State
				elems []*JNode
				err   Value
			}
			as := []acc{{cs.st, []*JNode{}, nil}}
			for i := 0; i < n; i++ {
				var next []acc
				for _, a := range as {
					if a.err != nil {
						next = append(next, a)
						continue
					}
					for _, eo := range e.encode(a.st, e.sliceElem(a.st, cs.s, i), u.Elem()) {
						next = append(next, acc{eo.st, append(a.elems[:len(a.elems):len(a.elems)], eo.n), eo.err})
					}
				}
				as = next
			}
			for _, a := range as {
				if a.err != nil {
					res = append(res, encOut{a.st, nil, a.err})
				} else {
					res = append(res, encOut{a.st, &JNode{Kind: JArr, Elems: a.elems}, nil})
				}
			}
		}
		return res
	case *types.Array:
		av := v.(*ArrayV)
		type acc struct {
			st    *State
			elems []*JNode
			err   Value
		}
		as := []acc{{st, []*JNode{}, nil}}
		for _, el := range av.E {
			var next []acc
			for _, a := range as {
				for _, eo := range e.encode(a.st, el, u.Elem()) {
					next = append(next, acc{eo.st, append(a.elems[:len(a.elems):len(a.elems)], eo.n), firstErr(a.err, eo.err)})
				}
			}
			as = next
		}
		var res []encOut
		for _, a := range as {
			res = append(res, encOut{a.st, &JNode{Kind: JArr, Elems: a.elems}, a.err})
		}
		return res
	case *types.Basic:
		switch {
		case u.Info()&types.IsString != 0:
			return []encOut{{st, &JNode{Kind: JStr, Str: v.(*StrV)}, nil}}
		case u.Info()&types.IsBoolean != 0:
			return []encOut{{st, &JNode{Kind: JBool, B: v.(*Term)}, nil}}
		case u.Info()&types.IsInteger != 0:
			_, signed, _ := e.width(t)
			return []encOut{{st, &JNode{Kind: JNum, I: tb.Resize(v.(*Term), 64, signed)}, nil}}
		case u.Info()&types.IsFloat != 0:
			switch f := v.(type) {
			case FloatV:
				ff := float64(f)
				if math.IsInf(ff, 0) || math.IsNaN(ff) {
					return []encOut{{st, nil, e.jsonErr(st, "unsupported value: float")}}
				}
				if ff == math.Trunc(ff) && math.Abs(ff) < 1e15 {
					return []encOut{{st, &JNode{Kind: JNum, I: tb.Int64(int64(ff))}, nil}}
				}
				format := byte('f')
				if a := math.Abs(ff); a != 0 && (a < 1e-6 || a >= 1e21) {
					format = 'e'
				}
				return []encOut{{st, &JNode{Kind: JNum, Lit: e.StrConst(strconv.FormatFloat(ff, format, -1, 64))}, nil}}
			case *SymFloatV:
				return []encOut{{st, &JNode{Kind: JNum, I: f.I}, nil}}
			}
		}
	case *types.Interface:
		iv := v.(*IfaceV)
		if iv.T == nil {
			return []encOut{{st, &JNode{Kind: JNull}, nil}}
		}
		return e.encode(st, iv.V, iv.T)
	}
	panic(e.abort("J2: encode of unsupported type %s (%T)", t, v))
}

type keyStr struct {
	st *State
	s  *StrV
}

func (e *Engine) encodeMapKey(st *State, k Value, kt types.Type) []keyStr {
	if s, ok := k.(*StrV); ok {
		return []keyStr{{st, s}}
	}
	if m := e.methodOf(kt, "MarshalText"); m != nil {
		var res []keyStr
		for _, o := range e.callFunction(st, m, []Value{k}, nil) {
			if o.panicked {
				panic(e.abort("J2: MarshalText panicked"))
			}
			res = append(res, keyStr{o.st, e.sliceToStr(o.st, o.ret.(*TupleV).E[0].(*SliceV))})
		}
		return res
	}
	if t, ok := k.(*Term); ok && t.IsConst() {
		return []keyStr{{st, e.StrConst(strconv.FormatInt(t.SVal(), 10))}}
	}
	panic(e.abort("J2: unsupported map key %T", k))
}

func init() {
	reg("encoding/json.Marshal", func(e *Engine, st *State, args []Value, fn *ssa.Function) []Outcome {
		iv := args[0].(*IfaceV)
		var outs []Outcome
		var encs []encOut
		if iv.T == nil {
			encs = []encOut{{st, &JNode{Kind: JNull}, nil}}
		} else {
			encs = e.encode(st, iv.V, iv.T)
		}
		for _, eo := range encs {
			if pm, ok := eo.err.(*panicMarker); ok {
				outs = append(outs, pm.o)
				continue
			}
			if eo.err != nil {
				outs = append(outs, Outcome{st: eo.st, ret: &TupleV{E: []Value{&SliceV{N: e.tb.Int64(0)}, eo.err}}})
				continue
			}
			d := e.newDoc(eo.st, eo.n)
			if e.cfg.Spellings {
				e.get(eo.st, d.Obj).(*JDocV).HTMLEsc = true // freshly allocated, not shared yet
			}
			outs = append(outs, Outcome{st: eo.st, ret: &TupleV{E: []Value{d, &IfaceV{}}}})
		}
		return outs
	})
}

// base64Sym encodes a string with symbolic bytes (concrete length required).
func (e *Engine) base64Sym(st *State, s *StrV, std, padded bool) *StrV {
	panic(e.abort("J2: base64 of symbolic bytes not modelled yet"))
}
