package sym

import (
	"go/types"
	"net"
	"strings"

	"golang.org/x/tools/go/ssa"
)

// (*net.Dialer).DialContext: the network stack is not interpreted. The model keeps what matters for the allow / deny
// policy: the address must be an IP literal with a port (name resolution inside the dialer is not modelled: abort);
// the dialer's ControlContext (or Control) hook is called with the concrete network ("tcp4" / "tcp6") and address the
// real dialer would pass; if it refuses, its error is returned; otherwise the harness function vpOnConnect(network,
// address) of the package under test decides whether the connection succeeds and records it. The returned net.Conn is
// a nil interface (harnesses do not use the connection).
func init() {
	reg("(*net.Dialer).DialContext", func(e *Engine, st *State, args []Value, fn *ssa.Function) []Outcome {
		e.rep.noteStub("(*net.Dialer).DialContext (control hook called for real; connection = harness vpOnConnect)")
		var outs []Outcome
		for _, ca := range e.concStrFull(st, args[3].(*StrV)) {
			addr, ok := ca.s.Concrete()
			if !ok {
				panic(e.abort("net.Dialer.DialContext: symbolic address"))
			}
			outs = append(outs, e.dialModel(ca.st, args[0].(*PtrV), args[1], addr, fn)...)
		}
		return outs
	})
}

func (e *Engine) dialModel(st *State, dp *PtrV, ctx Value, addr string, fn *ssa.Function) []Outcome {
	fail := func(s *State, msg string) Outcome {
		return e.errTuple(s, &IfaceV{}, e.newError(s, e.StrConst(msg)))
	}
	host, _, err := net.SplitHostPort(addr)
	if err != nil {
		return []Outcome{fail(st, "dial tcp: address "+addr+": "+err.Error())}
	}
	ip := net.ParseIP(host)
	if ip == nil {
		panic(e.abort("net.Dialer.DialContext: host %q is not an IP literal (resolution inside the dialer is not modelled)", host))
	}
	network := "tcp6"
	if ip.To4() != nil && !strings.Contains(host, ":") {
		network = "tcp4"
	}
	// locate the hooks of the Dialer struct
	dt := fn.Signature.Recv().Type().(*types.Pointer).Elem().Underlying().(*types.Struct)
	d := e.load(st, dp).(*StructV)
	var controlCtx, control *FuncV
	for i := 0; i < dt.NumFields(); i++ {
		switch dt.Field(i).Name() {
		case "ControlContext":
			controlCtx, _ = d.F[i].(*FuncV)
		case "Control":
			control, _ = d.F[i].(*FuncV)
		}
	}
	connect := func(s *State) []Outcome {
		hook := e.harnessFunc("vpOnConnect")
		if hook == nil {
			panic(e.abort("net.Dialer.DialContext: the harness package defines no vpOnConnect(network, address string) error"))
		}
		var outs []Outcome
		for _, o := range e.callFunction(s, hook, []Value{e.StrConst(network), e.StrConst(addr)}, nil) {
			if o.panicked {
				outs = append(outs, o)
				continue
			}
			if iv, ok := o.ret.(*IfaceV); ok && iv.T != nil {
				outs = append(outs, e.errTuple(o.st, &IfaceV{}, iv))
			} else {
				outs = append(outs, e.errTuple(o.st, &IfaceV{}, nil))
			}
		}
		return outs
	}
	var hookFn *FuncV
	var hookArgs []Value
	switch {
	case controlCtx != nil && !controlCtx.IsNil():
		hookFn, hookArgs = controlCtx, []Value{ctx, e.StrConst(network), e.StrConst(addr), &IfaceV{}}
	case control != nil && !control.IsNil():
		hookFn, hookArgs = control, []Value{e.StrConst(network), e.StrConst(addr), &IfaceV{}}
	default:
		return connect(st)
	}
	var outs []Outcome
	for _, o := range e.callValue(st, hookFn, hookArgs) {
		if o.panicked {
			outs = append(outs, o)
			continue
		}
		if iv, ok := o.ret.(*IfaceV); ok && iv.T != nil {
			outs = append(outs, e.errTuple(o.st, &IfaceV{}, iv))
			continue
		}
		outs = append(outs, connect(o.st)...)
	}
	return outs
}

// harnessFunc finds a package-level function of the package the running harness lives in.
func (e *Engine) harnessFunc(name string) *ssa.Function {
	if len(e.stack) == 0 {
		return nil
	}
	for i := 0; i < len(e.stack); i++ {
		f := e.stack[i]
		if f != nil && f.Pkg != nil && strings.HasPrefix(f.Pkg.Pkg.Path(), RepoModule) {
			if h := f.Pkg.Func(name); h != nil {
				return h
			}
		}
	}
	return nil
}
