package sym

import (
	"fmt"
	"os"
	"path/filepath"
	"strings"

	"golang.org/x/tools/go/packages"
	"golang.org/x/tools/go/ssa"
	"golang.org/x/tools/go/ssa/ssautil"
)

const RepoModule = "github.com/matrix-org/gomatrixserverlib"

// Loaded is an SSA program built from /repo plus overlaid harness files.
type Loaded struct {
	Prog     *ssa.Program
	Pkgs     map[string]*ssa.Package // import path -> package
	Dropped  []string                // harness files dropped because they do not type-check
	Harness  map[string]string       // virtual path -> real path
}

// pkgDirs maps harness sub-directories to package directories in the repo.
var pkgDirs = map[string]string{"root": "", "spec": "spec", "fclient": "fclient", "tokens": "tokens"}

// Load builds the SSA program. repo is the repository root, harnessDir holds root/ spec/ fclient/ tokens/ sub-directories,
// loadmod is a scratch module directory (go.mod is (re)written there).
func Load(repo, harnessDir, loadmod string) (*Loaded, error) {
	if err := os.MkdirAll(loadmod, 0o755); err != nil {
		return nil, err
	}
	gomod := fmt.Sprintf("module vploadmod\n\ngo 1.23\n\nrequire %s v0.0.0\n\nreplace %s => %s\n", RepoModule, RepoModule, repo)
	if err := os.WriteFile(filepath.Join(loadmod, "go.mod"), []byte(gomod), 0o644); err != nil {
		return nil, err
	}
	sum, err := os.ReadFile(filepath.Join(repo, "go.sum"))
	if err != nil {
		return nil, err
	}
	if err := os.WriteFile(filepath.Join(loadmod, "go.sum"), sum, 0o644); err != nil {
		return nil, err
	}
	overlay := map[string][]byte{}
	virt := map[string]string{}
	for sub, rel := range pkgDirs {
		files, _ := filepath.Glob(filepath.Join(harnessDir, sub, "*.go"))
		for _, f := range files {
			if strings.HasSuffix(f, "_test.go") {
				continue
			}
			src, err := os.ReadFile(f)
			if err != nil {
				return nil, err
			}
			v := filepath.Join(repo, rel, "zz_"+filepath.Base(f))
			overlay[v] = src
			virt[v] = f
		}
	}
	pkgNames := map[string]string{"root": "gomatrixserverlib", "spec": "spec", "fclient": "fclient", "tokens": "tokens"}
	if tmpl, err := os.ReadFile(filepath.Join(harnessDir, "vp_api.go.tmpl")); err == nil {
		for sub, rel := range pkgDirs {
			v := filepath.Join(repo, rel, "zz_vp_api.go")
			overlay[v] = []byte(strings.Replace(string(tmpl), "PKGNAME", pkgNames[sub], 1))
		}
	}
	var dropped []string
	for attempt := 0; attempt < 8; attempt++ {
		cfg := &packages.Config{
			Mode:       packages.LoadAllSyntax,
			Dir:        loadmod,
			Overlay:    overlay,
			BuildFlags: []string{"-tags=verif", "-mod=mod"},
			Env:        append(os.Environ(), "GOFLAGS=-mod=mod", "GOPROXY=off", "GOSUMDB=off", "GOTOOLCHAIN=local", "GOWORK=off"),
		}
		initial, err := packages.Load(cfg, RepoModule, RepoModule+"/spec", RepoModule+"/fclient", RepoModule+"/tokens")
		if err != nil {
			return nil, err
		}
		// find harness files with errors and drop them
		bad := map[string]bool{}
		var otherErrs []string
		for _, p := range initial {
			for _, e := range p.Errors {
				pos := e.Pos
				file := pos
				if i := strings.Index(pos, ":"); i >= 0 {
					file = pos[:i]
				}
				if _, ok := overlay[file]; ok {
					bad[file] = true
					fmt.Fprintf(os.Stderr, "harness error: %s: %s\n", e.Pos, e.Msg)
				} else {
					otherErrs = append(otherErrs, e.Error())
				}
			}
		}
		if len(bad) > 0 {
			for f := range bad {
				dropped = append(dropped, virt[f])
				delete(overlay, f)
			}
			continue
		}
		if len(otherErrs) > 0 {
			return nil, fmt.Errorf("load errors: %s", strings.Join(otherErrs, "; "))
		}
		prog, pkgs := ssautil.AllPackages(initial, ssa.InstantiateGenerics)
		prog.Build()
		res := &Loaded{Prog: prog, Pkgs: map[string]*ssa.Package{}, Dropped: dropped, Harness: virt}
		for i, p := range initial {
			if pkgs[i] != nil {
				res.Pkgs[p.PkgPath] = pkgs[i]
			}
		}
		return res, nil
	}
	return nil, fmt.Errorf("could not load: harness files keep failing")
}
