package sym

import (
	"fmt"
	"go/types"
	"strconv"

	"golang.org/x/tools/go/ssa"
)

// Formatting model: the format string must be concrete. %s %v %q %d %w %t %c %x %T are rendered exactly for
// strings (concrete or symbolic), concrete integers/bools, errors (through their Error method) and Stringers;
// anything else renders as the placeholder "<opaque>" (counted in the report). %q of a symbolic string is rendered as
// the string between double quotes without escaping (approximation; only error messages use it).

type fmtAcc struct {
	st  *State
	s   *StrV
	err Value // operand of %w
}

func (e *Engine) appendStr(st *State, a, b *StrV) []concStrRes {
	var res []concStrRes
	for _, o := range e.concat(st, a, b) {
		res = append(res, concStrRes{o.st, o.ret.(*StrV)})
	}
	return res
}

// renderValue renders one operand; may fork through Error()/String() calls.
func (e *Engine) renderValue(st *State, verb byte, v Value) []concStrRes {
	switch x := v.(type) {
	case *IfaceV:
		if x.T == nil {
			if verb == 's' || verb == 'v' || verb == 'w' {
				return []concStrRes{{st, e.StrConst("<nil>")}}
			}
			return []concStrRes{{st, e.StrConst("%!" + string(verb) + "(<nil>)")}}
		}
		if verb == 'T' {
			return []concStrRes{{st, e.StrConst(types.TypeString(x.T, nil))}}
		}
		// error / Stringer take precedence for %s %v %q %w
		if verb == 's' || verb == 'v' || verb == 'q' || verb == 'w' {
			for _, mname := range []string{"Error", "String"} {
				if m := e.findMethod(x.T, mname); m != nil {
					sig := m.Signature
					if sig.Params().Len() == 0 && sig.Results().Len() == 1 && isString(sig.Results().At(0).Type()) {
						if p, ok := x.V.(*PtrV); ok && p.IsNil() {
							return []concStrRes{{st, e.StrConst("<nil>")}}
						}
						var res []concStrRes
						for _, o := range e.callFunction(st, m, []Value{x.V}, nil) {
							if o.panicked {
								res = append(res, concStrRes{o.st, e.StrConst("%!v(PANIC)")})
								continue
							}
							s := o.ret.(*StrV)
							if verb == 'q' {
								s = e.quoteApprox(s)
							}
							res = append(res, concStrRes{o.st, s})
						}
						return res
					}
				}
			}
		}
		if t, ok := x.V.(*Term); ok && t.W > 0 && t.IsConst() && (verb == 'd' || verb == 'v') {
			if b, ok := x.T.Underlying().(*types.Basic); ok && b.Info()&types.IsUnsigned != 0 {
				return []concStrRes{{st, e.StrConst(strconv.FormatUint(t.Val, 10))}}
			}
		}
		return e.renderValue(st, verb, e.payloadForFmt(x))
	case *StrV:
		switch verb {
		case 'q':
			return []concStrRes{{st, e.quoteApprox(x)}}
		case 'x':
			if c, ok := x.Concrete(); ok {
				return []concStrRes{{st, e.StrConst(fmt.Sprintf("%x", c))}}
			}
			e.rep.FmtOpaque++
			return []concStrRes{{st, e.StrConst("<opaque>")}}
		}
		return []concStrRes{{st, x}}
	case *Term:
		if x.W == 0 {
			if x.IsConst() {
				return []concStrRes{{st, e.StrConst(strconv.FormatBool(x.Val == 1))}}
			}
			t, f := e.branch(st, x)
			var res []concStrRes
			if t != nil {
				res = append(res, concStrRes{t, e.StrConst("true")})
			}
			if f != nil {
				res = append(res, concStrRes{f, e.StrConst("false")})
			}
			return res
		}
		if x.IsConst() {
			switch verb {
			case 'c':
				return []concStrRes{{st, e.StrConst(string(rune(x.SVal())))}}
			case 'x':
				return []concStrRes{{st, e.StrConst(strconv.FormatUint(x.Val, 16))}}
			case 'q':
				return []concStrRes{{st, e.StrConst(strconv.QuoteRune(rune(x.SVal())))}}
			}
			return []concStrRes{{st, e.StrConst(strconv.FormatInt(x.SVal(), 10))}}
		}
		e.rep.FmtOpaque++
		return []concStrRes{{st, e.StrConst("<opaque>")}}
	case FloatV:
		return []concStrRes{{st, e.StrConst(strconv.FormatFloat(float64(x), 'g', -1, 64))}}
	case *SliceV:
		if verb == 's' || verb == 'q' {
			// []byte
			if x.IsNil() {
				return []concStrRes{{st, e.StrConst("")}}
			}
			arr := getPath(e.get(st, x.Obj), x.Path).(*ArrayV)
			if len(arr.E) > 0 {
				if bt, ok := arr.E[0].(*Term); ok && bt.W == 8 {
					return []concStrRes{{st, e.sliceToStr(st, x)}}
				}
			}
		}
	}
	e.rep.FmtOpaque++
	return []concStrRes{{st, e.StrConst("<opaque>")}}
}

// payloadForFmt unwraps a named basic type inside an interface.
func (e *Engine) payloadForFmt(x *IfaceV) Value {
	switch x.V.(type) {
	case *StrV, *Term, FloatV, *SliceV:
		return x.V
	}
	return nil
}

func (e *Engine) quoteApprox(s *StrV) *StrV {
	if c, ok := s.Concrete(); ok {
		return e.StrConst(strconv.Quote(c))
	}
	q := e.tb.Const(8, '"')
	b := append(append([]*Term{q}, s.B...), q)
	if n, ok := s.ConcreteLen(); ok {
		b = append(append([]*Term{q}, s.B[:n]...), q)
		return &StrV{N: e.tb.Int64(int64(n + 2)), B: b}
	}
	// symbolic length: closing quote position is symbolic; approximate with the open form
	return &StrV{N: e.tb.Bin(OpAdd, s.N, e.tb.Int64(1)), B: append([]*Term{q}, s.B...)}
}

func (e *Engine) findMethod(t types.Type, name string) *ssa.Function {
	ms := e.prog.MethodSets.MethodSet(t)
	for i := 0; i < ms.Len(); i++ {
		sel := ms.At(i)
		if sel.Obj().Name() == name {
			return e.prog.MethodValue(sel)
		}
	}
	return nil
}

// sprintf renders format with args, returning one accumulator per resulting state.
func (e *Engine) sprintf(st *State, format string, args []Value) []fmtAcc {
	accs := []fmtAcc{{st: st, s: e.StrConst("")}}
	argi := 0
	lit := func(text string) {
		if text == "" {
			return
		}
		var next []fmtAcc
		for _, a := range accs {
			for _, r := range e.appendStr(a.st, a.s, e.StrConst(text)) {
				next = append(next, fmtAcc{r.st, r.s, a.err})
			}
		}
		accs = next
	}
	i := 0
	start := 0
	for i < len(format) {
		if format[i] != '%' {
			i++
			continue
		}
		lit(format[start:i])
		i++
		// flags / width / precision are skipped
		for i < len(format) && (format[i] == '+' || format[i] == '#' || format[i] == '-' || format[i] == ' ' || format[i] == '0' || format[i] == '.' || (format[i] >= '1' && format[i] <= '9')) {
			i++
		}
		if i >= len(format) {
			lit("%!(NOVERB)")
			start = i
			break
		}
		verb := format[i]
		i++
		start = i
		if verb == '%' {
			lit("%")
			continue
		}
		if argi >= len(args) {
			lit("%!" + string(verb) + "(MISSING)")
			continue
		}
		arg := args[argi]
		argi++
		var next []fmtAcc
		for _, a := range accs {
			for _, r := range e.renderValue(a.st, verb, arg) {
				for _, c := range e.appendStr(r.st, a.s, r.s) {
					na := fmtAcc{c.st, c.s, a.err}
					if verb == 'w' {
						na.err = arg
					}
					next = append(next, na)
				}
			}
		}
		accs = next
	}
	lit(format[start:])
	return accs
}

func (e *Engine) variadicArgs(st *State, v Value) []Value {
	s := v.(*SliceV)
	if s.IsNil() {
		return nil
	}
	n := int(s.N.Val)
	res := make([]Value, n)
	for i := 0; i < n; i++ {
		res[i] = e.sliceElem(st, s, i)
	}
	return res
}

func (e *Engine) pkgType(path, name string) types.Type {
	p := e.prog.ImportedPackage(path)
	if p == nil {
		panic(e.abort("package %s not in program", path))
	}
	t := p.Type(name)
	if t == nil {
		panic(e.abort("type %s.%s not found", path, name))
	}
	return t.Type()
}

// newError builds an *errors.errorString value.
func (e *Engine) newError(st *State, msg *StrV) *IfaceV {
	t := e.pkgType("errors", "errorString")
	id := e.alloc(st, &StructV{F: []Value{msg}})
	return &IfaceV{T: types.NewPointer(t), V: &PtrV{Obj: id}}
}

func init() {
	reg("fmt.Sprintf", func(e *Engine, st *State, args []Value, fn *ssa.Function) []Outcome {
		format := e.mustConcStr(args[0])
		var outs []Outcome
		for _, a := range e.sprintf(st, format, e.variadicArgs(st, args[1])) {
			outs = append(outs, Outcome{st: a.st, ret: a.s})
		}
		return outs
	})
	reg("fmt.Errorf", func(e *Engine, st *State, args []Value, fn *ssa.Function) []Outcome {
		format := e.mustConcStr(args[0])
		var outs []Outcome
		for _, a := range e.sprintf(st, format, e.variadicArgs(st, args[1])) {
			if a.err != nil {
				if iv, ok := a.err.(*IfaceV); ok && iv.T != nil {
					t := e.pkgType("fmt", "wrapError")
					id := e.alloc(a.st, &StructV{F: []Value{a.s, iv}})
					outs = append(outs, Outcome{st: a.st, ret: &IfaceV{T: types.NewPointer(t), V: &PtrV{Obj: id}}})
					continue
				}
			}
			outs = append(outs, Outcome{st: a.st, ret: e.newError(a.st, a.s)})
		}
		return outs
	})
	sprint := func(sep bool) Intrinsic {
		return func(e *Engine, st *State, args []Value, fn *ssa.Function) []Outcome {
			vs := e.variadicArgs(st, args[0])
			format := ""
			for i := range vs {
				if i > 0 && sep {
					format += " "
				}
				format += "%v"
			}
			var outs []Outcome
			for _, a := range e.sprintf(st, format, vs) {
				outs = append(outs, Outcome{st: a.st, ret: a.s})
			}
			return outs
		}
	}
	reg("fmt.Sprint", sprint(false))
	reg("fmt.Sprintln", sprint(true))
	for _, n := range []string{"fmt.Println", "fmt.Printf", "fmt.Print", "fmt.Fprintf", "fmt.Fprintln", "fmt.Fprint"} {
		reg(n, func(e *Engine, st *State, args []Value, fn *ssa.Function) []Outcome {
			return one(st, &TupleV{E: []Value{e.tb.Int64(0), &IfaceV{}}})
		})
	}
	// errors.Is(err, target)
	reg("errors.Is", func(e *Engine, st *State, args []Value, fn *ssa.Function) []Outcome {
		return e.errorsIs(st, args[0].(*IfaceV), args[1].(*IfaceV), 0)
	})
	// errors.As(err, target any) bool
	reg("errors.As", func(e *Engine, st *State, args []Value, fn *ssa.Function) []Outcome {
		return e.errorsAs(st, args[0].(*IfaceV), args[1].(*IfaceV), 0)
	})
	reg("errors.Unwrap", func(e *Engine, st *State, args []Value, fn *ssa.Function) []Outcome {
		return e.unwrapErr(st, args[0].(*IfaceV))
	})
}

func (e *Engine) unwrapErr(st *State, err *IfaceV) []Outcome {
	if err.T == nil {
		return one(st, &IfaceV{})
	}
	if m := e.findMethod(err.T, "Unwrap"); m != nil && m.Signature.Results().Len() == 1 {
		if _, isSlice := m.Signature.Results().At(0).Type().Underlying().(*types.Slice); !isSlice {
			return e.callFunction(st, m, []Value{err.V}, nil)
		}
	}
	return one(st, &IfaceV{})
}

func (e *Engine) errorsIs(st *State, err, target *IfaceV, depth int) []Outcome {
	if err.T == nil || target.T == nil {
		return one(st, e.tb.Bool(err.T == nil && target.T == nil))
	}
	if depth > 8 {
		panic(e.abort("errors.Is: chain too deep"))
	}
	var outs []Outcome
	eq := e.tb.False
	if types.Identical(err.T, target.T) && types.Comparable(err.T) {
		eq = e.valuesEqual(err, target)
	}
	t, f := e.branch(st, eq)
	if t != nil {
		outs = append(outs, Outcome{st: t, ret: e.tb.True})
	}
	if f == nil {
		return outs
	}
	if m := e.findMethod(err.T, "Is"); m != nil && m.Signature.Params().Len() == 1 {
		panic(e.abort("errors.Is: custom Is method on %s not supported", err.T))
	}
	for _, o := range e.unwrapErr(f, err) {
		if o.panicked {
			outs = append(outs, o)
			continue
		}
		outs = append(outs, e.errorsIs(o.st, o.ret.(*IfaceV), target, depth+1)...)
	}
	return outs
}

func (e *Engine) errorsAs(st *State, err, target *IfaceV, depth int) []Outcome {
	if target.T == nil {
		return []Outcome{e.panicOut(st, "errors: target cannot be nil")}
	}
	pt, ok := target.T.(*types.Pointer)
	if !ok {
		return []Outcome{e.panicOut(st, "errors: target must be a non-nil pointer")}
	}
	if err.T == nil {
		return one(st, e.tb.False)
	}
	if depth > 8 {
		panic(e.abort("errors.As: chain too deep"))
	}
	elem := pt.Elem()
	match := false
	var val Value
	if it, isIface := elem.Underlying().(*types.Interface); isIface {
		if e.implements(err.T, it) {
			match, val = true, err
		}
	} else if types.Identical(err.T, elem) {
		match, val = true, err.V
	}
	if match {
		e.store(st, target.V.(*PtrV), val)
		return one(st, e.tb.True)
	}
	var outs []Outcome
	for _, o := range e.unwrapErr(st, err) {
		if o.panicked {
			outs = append(outs, o)
			continue
		}
		outs = append(outs, e.errorsAs(o.st, o.ret.(*IfaceV), target, depth+1)...)
	}
	return outs
}
