package sym

import (
	"bytes"
	"encoding/json"
	"sort"
	"strconv"
	"unicode/utf8"
)

// J2: abstract JSON documents. A []byte (or string) value may be backed by a JSON *value tree* instead of bytes.
// Documents with duplicate member names are outside the model.

type JKind uint8

const (
	JNull JKind = iota
	JBool
	JNum
	JStr
	JArr
	JObj
)

// JNode is an immutable JSON value.
type JNode struct {
	Kind JKind
	B    *Term // JBool
	I    *Term // JNum: 64-bit integer value (nil if Lit is used)
	Lit  *StrV // JNum: literal token for non-integer numbers
	Str  *StrV // JStr: decoded string
	// BadUTF8: the text this tree was parsed from contains bytes that are not UTF-8 (inside this value)
	BadUTF8 bool
	// Esc: set only on the copy of a root that stands for a hashed / signed message (msgOf): the message is the
	// HTML-escaped spelling of the value and the value contains a character that spelling escapes
	Esc   bool
	Elems   []*JNode
	Keys    []*StrV
	Vals    []*JNode
}

// JDocV is the heap payload of a byte array that holds a J2 document.
type JDocV struct {
	Root *JNode
	Len  *Term // opaque length of the serialisation
	// HTMLEsc: the text is what encoding/json.Marshal wrote: '<', '>', '&', U+2028 and U+2029 inside strings are spelled
	// as \u escapes (cfg.Spellings only). CanonicalJSON / CompactJSON / SortJSON give a document without the flag.
	HTMLEsc bool
}

type j2State struct {
	n int
}

func newJ2State() *j2State { return &j2State{} }

func (e *Engine) jStr(s string) *JNode { return &JNode{Kind: JStr, Str: e.StrConst(s)} }

// newDoc allocates a document object and returns a []byte slice value for it.
func (e *Engine) newDoc(st *State, root *JNode) *SliceV {
	e.j2.n++
	// opaque serialisation length: 2..65535 (documents longer than the event size limit are outside the J2 model;
	// the size-limit clause is checked on explicit lengths in C17)
	lv := e.tb.Fresh("j2len"+strconv.Itoa(e.j2.n), 16)
	ln := e.tb.ZExt(lv, 64)
	m := st.model
	st.assume(e.tb.Cmp(OpULe, e.tb.Const(16, 2), lv))
	if m != nil {
		nm := make(map[string]uint64, len(m)+1)
		for k, v := range m {
			nm[k] = v
		}
		nm[lv.Name] = 2
		st.model = nm
	}
	id := e.alloc(st, &JDocV{Root: root, Len: ln})
	return &SliceV{Obj: id, N: ln, Cap: 1 << 30}
}

// docOf returns the document behind a byte slice, parsing plain bytes with concrete structure if necessary.
func (e *Engine) docOf(st *State, s *SliceV) (*JNode, bool) {
	if s.IsNil() {
		return nil, false
	}
	switch v := e.get(st, s.Obj).(type) {
	case *JDocV:
		return v.Root, true
	case *ArrayV:
		_ = v
		str := e.sliceToStr(st, s)
		return e.parseJSONStr(st, str)
	}
	return nil, false
}

// plainSymbolic reports whether s is plain bytes (not a document) that are not fully concrete: J2 may then be unable
// to parse them and the caller should fall back to the real byte-level code.
func (e *Engine) plainSymbolic(st *State, s *SliceV) bool {
	if s.IsNil() {
		return false
	}
	if _, isDoc := e.get(st, s.Obj).(*JDocV); isDoc {
		return false
	}
	_, conc := e.sliceToStr(st, s).Concrete()
	return !conc
}

// docOfStr: a string may carry a document too.
func (e *Engine) docOfStr(st *State, s *StrV) (*JNode, bool) {
	if s.Doc != nil {
		return s.Doc.Root, true
	}
	return e.parseJSONStr(st, s)
}

// parseJSONStr parses a string whose JSON structure is concrete. Symbolic bytes may occur only inside string
// literals and are then assumed to be plain ASCII (0x20..0x7E except '"' and '\\'): stated bound of the J2 model.
func (e *Engine) parseJSONStr(st *State, s *StrV) (*JNode, bool) {
	n, ok := s.ConcreteLen()
	if !ok {
		return nil, false
	}
	if c, ok := s.Concrete(); ok {
		return e.parseConcreteJSON([]byte(c))
	}
	p := &symParser{e: e, st: st, b: s.B[:n]}
	p.ws()
	node, ok := p.value()
	if !ok {
		return nil, false
	}
	p.ws()
	if p.i != len(p.b) {
		return nil, false
	}
	return node, true
}

func (e *Engine) parseConcreteJSON(b []byte) (*JNode, bool) {
	dec := json.NewDecoder(bytes.NewReader(b))
	dec.UseNumber()
	node, ok := e.decodeTokens(dec)
	if !ok {
		return nil, false
	}
	if _, err := dec.Token(); err == nil {
		return nil, false
	}
	if dec.More() {
		return nil, false
	}
	// encoding/json replaces bytes that are not UTF-8 by U+FFFD while decoding; the tree remembers that the text it
	// stands for is not well-formed UTF-8 (utf8.Valid on the document answers from this flag)
	if !utf8.Valid(b) {
		node.BadUTF8 = true
	}
	return node, true
}

func (e *Engine) decodeTokens(dec *json.Decoder) (*JNode, bool) {
	tok, err := dec.Token()
	if err != nil {
		return nil, false
	}
	switch t := tok.(type) {
	case json.Delim:
		switch t {
		case '{':
			n := &JNode{Kind: JObj}
			for dec.More() {
				kt, err := dec.Token()
				if err != nil {
					return nil, false
				}
				ks, ok := kt.(string)
				if !ok {
					return nil, false
				}
				v, ok := e.decodeTokens(dec)
				if !ok {
					return nil, false
				}
				// duplicate keys: last wins (encoding/json); documents with duplicates are outside the model anyway
				dup := false
				for i, k := range n.Keys {
					if c, _ := k.Concrete(); c == ks {
						n.Vals[i] = v
						dup = true
					}
				}
				if !dup {
					n.Keys = append(n.Keys, e.StrConst(ks))
					n.Vals = append(n.Vals, v)
				}
			}
			if _, err := dec.Token(); err != nil {
				return nil, false
			}
			return n, true
		case '[':
			n := &JNode{Kind: JArr}
			for dec.More() {
				v, ok := e.decodeTokens(dec)
				if !ok {
					return nil, false
				}
				n.Elems = append(n.Elems, v)
			}
			if _, err := dec.Token(); err != nil {
				return nil, false
			}
			return n, true
		}
		return nil, false
	case string:
		return e.jStr(t), true
	case json.Number:
		return e.numNode(string(t)), true
	case bool:
		return &JNode{Kind: JBool, B: e.tb.Bool(t)}, true
	case nil:
		return &JNode{Kind: JNull}, true
	}
	return nil, false
}

func (e *Engine) numNode(lit string) *JNode {
	if i, err := strconv.ParseInt(lit, 10, 64); err == nil && (lit == "0" || (lit[0] != '0' && !(lit[0] == '-' && len(lit) > 1 && lit[1] == '0'))) {
		return &JNode{Kind: JNum, I: e.tb.Int64(i)}
	}
	return &JNode{Kind: JNum, Lit: e.StrConst(lit)}
}

type symParser struct {
	e  *Engine
	st *State
	b  []*Term
	i  int
}

func (p *symParser) peek() (byte, bool) {
	if p.i >= len(p.b) || !p.b[p.i].IsConst() {
		return 0, false
	}
	return byte(p.b[p.i].Val), true
}

func (p *symParser) ws() {
	for {
		c, ok := p.peek()
		if !ok || !(c == ' ' || c == '\t' || c == '\n' || c == '\r') {
			return
		}
		p.i++
	}
}

func (p *symParser) lit(s string) bool {
	for j := 0; j < len(s); j++ {
		c, ok := p.peek()
		if !ok || c != s[j] {
			return false
		}
		p.i++
	}
	return true
}

func (p *symParser) str() (*StrV, bool) {
	c, ok := p.peek()
	if !ok || c != '"' {
		return nil, false
	}
	p.i++
	var out []*Term
	t := p.e.tb
	for p.i < len(p.b) {
		bt := p.b[p.i]
		if bt.IsConst() {
			c := byte(bt.Val)
			if c == '"' {
				p.i++
				return &StrV{N: t.Int64(int64(len(out))), B: out}, true
			}
			if c == '\\' {
				// concrete escapes only
				if p.i+1 >= len(p.b) || !p.b[p.i+1].IsConst() {
					return nil, false
				}
				switch byte(p.b[p.i+1].Val) {
				case '"', '\\', '/':
					out = append(out, p.b[p.i+1])
				case 'n':
					out = append(out, t.Const(8, '\n'))
				case 't':
					out = append(out, t.Const(8, '\t'))
				case 'r':
					out = append(out, t.Const(8, '\r'))
				case 'b':
					out = append(out, t.Const(8, '\b'))
				case 'f':
					out = append(out, t.Const(8, '\f'))
				case 'u':
					// concrete \u00XX escapes of ASCII characters; anything else is not modelled here
					if p.i+5 >= len(p.b) {
						return nil, false
					}
					v := 0
					for k := 2; k < 6; k++ {
						h := p.b[p.i+k]
						if !h.IsConst() {
							return nil, false
						}
						d := byte(h.Val)
						switch {
						case d >= '0' && d <= '9':
							v = v<<4 | int(d-'0')
						case d >= 'a' && d <= 'f':
							v = v<<4 | int(d-'a'+10)
						case d >= 'A' && d <= 'F':
							v = v<<4 | int(d-'A'+10)
						default:
							return nil, false
						}
					}
					if v >= 0x80 {
						return nil, false
					}
					out = append(out, t.Const(8, uint64(v)))
					p.i += 6
					continue
				default:
					return nil, false
				}
				p.i += 2
				continue
			}
			if c < 0x20 {
				return nil, false
			}
			out = append(out, bt)
			p.i++
			continue
		}
		// symbolic content byte: assumed plain ASCII
		p.st.assume(t.Cmp(OpULe, t.Const(8, 0x20), bt))
		p.st.assume(t.Cmp(OpULe, bt, t.Const(8, 0x7E)))
		p.st.assume(t.Ne(bt, t.Const(8, '"')))
		p.st.assume(t.Ne(bt, t.Const(8, '\\')))
		p.e.rep.J2PlainAssumed++
		out = append(out, bt)
		p.i++
	}
	return nil, false
}

func (p *symParser) value() (*JNode, bool) {
	c, ok := p.peek()
	if !ok {
		return nil, false
	}
	e := p.e
	switch {
	case c == '{':
		p.i++
		n := &JNode{Kind: JObj}
		p.ws()
		if c, ok := p.peek(); ok && c == '}' {
			p.i++
			return n, true
		}
		for {
			p.ws()
			k, ok := p.str()
			if !ok {
				return nil, false
			}
			p.ws()
			if !p.lit(":") {
				return nil, false
			}
			p.ws()
			v, ok := p.value()
			if !ok {
				return nil, false
			}
			n.Keys = append(n.Keys, k)
			n.Vals = append(n.Vals, v)
			p.ws()
			c, ok := p.peek()
			if !ok {
				return nil, false
			}
			p.i++
			if c == '}' {
				return n, true
			}
			if c != ',' {
				return nil, false
			}
		}
	case c == '[':
		p.i++
		n := &JNode{Kind: JArr}
		p.ws()
		if c, ok := p.peek(); ok && c == ']' {
			p.i++
			return n, true
		}
		for {
			p.ws()
			v, ok := p.value()
			if !ok {
				return nil, false
			}
			n.Elems = append(n.Elems, v)
			p.ws()
			c, ok := p.peek()
			if !ok {
				return nil, false
			}
			p.i++
			if c == ']' {
				return n, true
			}
			if c != ',' {
				return nil, false
			}
		}
	case c == '"':
		s, ok := p.str()
		if !ok {
			return nil, false
		}
		return &JNode{Kind: JStr, Str: s}, true
	case c == 't':
		if p.lit("true") {
			return &JNode{Kind: JBool, B: e.tb.True}, true
		}
	case c == 'f':
		if p.lit("false") {
			return &JNode{Kind: JBool, B: e.tb.False}, true
		}
	case c == 'n':
		if p.lit("null") {
			return &JNode{Kind: JNull}, true
		}
	case c == '-' || (c >= '0' && c <= '9'):
		start := p.i
		for {
			c, ok := p.peek()
			if !ok || !(c == '-' || c == '+' || c == '.' || c == 'e' || c == 'E' || (c >= '0' && c <= '9')) {
				break
			}
			p.i++
		}
		buf := make([]byte, p.i-start)
		for j := range buf {
			buf[j] = byte(p.b[start+j].Val)
		}
		if !json.Valid(buf) {
			return nil, false
		}
		return e.numNode(string(buf)), true
	}
	return nil, false
}

// ---------------------------------------------------------------------------
// structural equality and ordering helpers

func concKeys(n *JNode) ([]string, bool) {
	ks := make([]string, len(n.Keys))
	for i, k := range n.Keys {
		c, ok := k.Concrete()
		if !ok {
			return nil, false
		}
		ks[i] = c
	}
	return ks, true
}

// nodeEq builds a Bool term: the two values are equal as JSON values.
func (e *Engine) nodeEq(a, b *JNode) *Term {
	t := e.tb
	if a == b {
		return t.True
	}
	if a.Kind != b.Kind {
		return t.False
	}
	switch a.Kind {
	case JNull:
		return t.True
	case JBool:
		return t.Eq(a.B, b.B)
	case JNum:
		if a.I != nil && b.I != nil {
			return t.Eq(a.I, b.I)
		}
		if a.Lit != nil && b.Lit != nil {
			return e.strEq(a.Lit, b.Lit)
		}
		return t.False
	case JStr:
		return e.strEq(a.Str, b.Str)
	case JArr:
		if len(a.Elems) != len(b.Elems) {
			return t.False
		}
		r := t.True
		for i := range a.Elems {
			r = t.And(r, e.nodeEq(a.Elems[i], b.Elems[i]))
		}
		return r
	case JObj:
		if len(a.Keys) != len(b.Keys) {
			return t.False
		}
		ia, ib := identityPerm(len(a.Keys)), identityPerm(len(b.Keys))
		if ka, ok := concKeys(a); ok {
			if kb, ok := concKeys(b); ok {
				sort.Slice(ia, func(x, y int) bool { return ka[ia[x]] < ka[ia[y]] })
				sort.Slice(ib, func(x, y int) bool { return kb[ib[x]] < kb[ib[y]] })
			}
		}
		r := t.True
		for i := range ia {
			r = t.And(r, e.strEq(a.Keys[ia[i]], b.Keys[ib[i]]))
			r = t.And(r, e.nodeEq(a.Vals[ia[i]], b.Vals[ib[i]]))
			if r.IsFalse() {
				return r
			}
		}
		return r
	}
	return t.False
}

func identityPerm(n int) []int {
	p := make([]int, n)
	for i := range p {
		p[i] = i
	}
	return p
}

// j2BytesEqual: structural equality if both slices are J2 documents.
func (e *Engine) j2BytesEqual(st *State, a, b *SliceV) (*Term, bool) {
	if a.IsNil() || b.IsNil() {
		return nil, false
	}
	_, da := e.get(st, a.Obj).(*JDocV)
	_, db := e.get(st, b.Obj).(*JDocV)
	if !da && !db {
		return nil, false
	}
	na, ok1 := e.docOf(st, a)
	nb, ok2 := e.docOf(st, b)
	if !ok1 || !ok2 {
		return e.tb.False, true
	}
	return e.nodeEq(na, nb), true
}

// docStr makes a string value that carries a document (for Raw fields, string(json) conversions).
func (e *Engine) docStr(st *State, root *JNode) *StrV {
	sl := e.newDoc(st, root)
	d := e.get(st, sl.Obj).(*JDocV)
	return &StrV{N: d.Len, B: nil, Doc: d}
}

// objGet finds a member by concrete key; forks are avoided by requiring concrete keys on both sides when possible.
// Returns (node, found-term). With symbolic keys the result is an ite over members; only scalars merge, so symbolic
// keys fall back to forking in the caller.
func objIndexConcrete(n *JNode, key string) (int, bool, bool) {
	allConc := true
	for i, k := range n.Keys {
		c, ok := k.Concrete()
		if !ok {
			allConc = false
			continue
		}
		if c == key {
			return i, true, true
		}
	}
	return -1, false, allConc
}

// objLookup resolves key in object n, forking on symbolic member names.
type objHit struct {
	st  *State
	idx int // -1: absent
}

func (e *Engine) objLookup(st *State, n *JNode, key string) []objHit {
	if i, found, allConc := objIndexConcrete(n, key); found || allConc {
		if !found {
			i = -1
		}
		return []objHit{{st, i}}
	}
	var res []objHit
	cur := st
	kk := e.StrConst(key)
	for i, k := range n.Keys {
		c := e.strEq(k, kk)
		t, f := e.branch(cur, c)
		if t != nil {
			res = append(res, objHit{t, i})
		}
		if f == nil {
			return res
		}
		cur = f
	}
	return append(res, objHit{cur, -1})
}
