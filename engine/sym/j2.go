package sym

type j2State struct{}

func newJ2State() *j2State { return &j2State{} }

// j2BytesEqual: structural equality if both slices are J2 documents.
func (e *Engine) j2BytesEqual(st *State, a, b *SliceV) (*Term, bool) { return nil, false }
