package sym

import (
	"fmt"
	"go/types"
)

// LogEntry records one nondeterministic input of the harness.
type LogEntry struct {
	Name string
	Kind string // "bool","u8","i64","u64","bytes","string","choice","config"
	T    []*Term
	Len  *Term // for string/bytes: length term
	Strs []string
}

// Expect is an active known-finding region for panics.
type Expect struct {
	ID   string
	Cond *Term
}

// State is one symbolic machine state (heap + path condition); registers live in Path.
type State struct {
	heap    map[int]Value
	pc      []*Term
	log     []LogEntry
	expects []Expect
	aux     map[string]Value
	depth   int
	model   map[string]uint64 // an assignment satisfying pc (nil if unknown); never mutated in place
}

func (e *Engine) newState() *State {
	return &State{heap: map[int]Value{}, aux: map[string]Value{}}
}

func (s *State) fork() *State {
	n := &State{heap: make(map[int]Value, len(s.heap)+8), pc: s.pc[:len(s.pc):len(s.pc)], log: s.log[:len(s.log):len(s.log)],
		expects: s.expects[:len(s.expects):len(s.expects)], aux: s.aux, depth: s.depth, model: s.model}
	for k, v := range s.heap {
		n.heap[k] = v
	}
	return n
}

func (s *State) setAux(k string, v Value) {
	n := make(map[string]Value, len(s.aux)+1)
	for a, b := range s.aux {
		n[a] = b
	}
	n[k] = v
	s.aux = n
}

func (s *State) assume(c *Term) {
	if c.IsTrue() {
		return
	}
	// split conjunctions to keep prefix sharing and caching effective
	if c.Op == OpAnd {
		s.assume(c.Args[0])
		s.assume(c.Args[1])
		return
	}
	for _, p := range s.pc {
		if p == c {
			return
		}
	}
	s.model = nil // callers that know a model of the extended pc set it afterwards
	s.pc = append(s.pc[:len(s.pc):len(s.pc)], c)
}

func (e *Engine) alloc(s *State, v Value) int {
	e.nextObj++
	id := e.nextObj
	s.heap[id] = v
	e.stats.Allocs++
	return id
}

func (e *Engine) get(s *State, id int) Value {
	if v, ok := s.heap[id]; ok {
		return v
	}
	if v, ok := e.base[id]; ok {
		return v
	}
	panic(e.abort("dangling object id %d", id))
}

func getPath(v Value, path []int) Value {
	for _, i := range path {
		switch x := v.(type) {
		case *StructV:
			v = x.F[i]
		case *ArrayV:
			v = x.E[i]
		default:
			panic(fmt.Sprintf("getPath: cannot index %T", v))
		}
	}
	return v
}

func setPath(v Value, path []int, nv Value) Value {
	if len(path) == 0 {
		return nv
	}
	i := path[0]
	switch x := v.(type) {
	case *StructV:
		f := make([]Value, len(x.F))
		copy(f, x.F)
		f[i] = setPath(x.F[i], path[1:], nv)
		return &StructV{F: f}
	case *ArrayV:
		el := make([]Value, len(x.E))
		copy(el, x.E)
		el[i] = setPath(x.E[i], path[1:], nv)
		return &ArrayV{E: el}
	}
	panic(fmt.Sprintf("setPath: cannot index %T", v))
}

// load reads through a pointer. Symbolic element pointers yield an ite-chain (must be mergeable).
func (e *Engine) load(s *State, p *PtrV) Value {
	if e.cfg.Races && e.curGo != 0 {
		e.raceAccess(s, p, false)
	}
	root := e.get(s, p.Obj)
	if p.Sym == nil {
		return getPath(root, p.Path)
	}
	arr := getPath(root, p.Path).(*ArrayV)
	n := p.SymN
	if n > len(arr.E) {
		n = len(arr.E)
	}
	if n == 0 {
		panic(e.abort("load through symbolic pointer into empty array"))
	}
	res := arr.E[n-1]
	for i := n - 2; i >= 0; i-- {
		c := e.tb.Eq(p.Sym, e.tb.Int64(int64(i)))
		m, ok := e.iteValue(c, arr.E[i], res)
		if !ok {
			panic(e.abort("load through symbolic index: elements not mergeable (%T)", arr.E[i]))
		}
		res = m
	}
	return res
}

func (e *Engine) store(s *State, p *PtrV, v Value) {
	if e.cfg.Races && e.curGo != 0 {
		e.raceAccess(s, p, true)
	}
	root := e.get(s, p.Obj)
	if p.Sym == nil {
		s.heap[p.Obj] = setPath(root, p.Path, v)
		return
	}
	arr := getPath(root, p.Path).(*ArrayV)
	n := p.SymN
	if n > len(arr.E) {
		n = len(arr.E)
	}
	el := make([]Value, len(arr.E))
	copy(el, arr.E)
	for i := 0; i < n; i++ {
		c := e.tb.Eq(p.Sym, e.tb.Int64(int64(i)))
		m, ok := e.iteValue(c, v, arr.E[i])
		if !ok {
			panic(e.abort("store through symbolic index: elements not mergeable (%T)", v))
		}
		el[i] = m
	}
	s.heap[p.Obj] = setPath(root, p.Path, &ArrayV{E: el})
}

// iteValue builds ite(c, a, b) structurally; ok=false if the values cannot be merged.
// mergeCtx carries the renaming of freshly allocated objects while two states are merged: an object that exists
// only in state B may be identified with an object that exists only in state A when both are reached at the same
// position of the values being merged.
type mergeCtx struct {
	a, b    *State
	rename  map[int]int // B id -> A id
	reverse map[int]int // A id -> B id
	queue   [][2]int
	lenient bool // merging contents of unified fresh objects: strings of different length may merge
}

func (e *Engine) freshIn(s, other *State, id int) bool {
	if _, ok := s.heap[id]; !ok {
		return false
	}
	if _, ok := other.heap[id]; ok {
		return false
	}
	_, inBase := e.base[id]
	return !inBase
}

// unify records that B's object y corresponds to A's object x; false if inconsistent.
func (e *Engine) unify(ctx *mergeCtx, x, y int) bool {
	if ctx == nil || x == 0 || y == 0 {
		return false
	}
	if r, ok := ctx.rename[y]; ok {
		return r == x
	}
	if _, ok := ctx.reverse[x]; ok {
		return false
	}
	if !e.freshIn(ctx.a, ctx.b, x) || !e.freshIn(ctx.b, ctx.a, y) {
		return false
	}
	ctx.rename[y] = x
	ctx.reverse[x] = y
	ctx.queue = append(ctx.queue, [2]int{x, y})
	return true
}

func (e *Engine) iteValue(c *Term, a, b Value) (Value, bool) { return e.iteValueCtx(nil, c, a, b) }

func (e *Engine) iteValueCtx(ctx *mergeCtx, c *Term, a, b Value) (Value, bool) {
	if c.IsTrue() {
		return a, true
	}
	if c.IsFalse() {
		return b, true
	}
	if a == b {
		return a, true
	}
	switch x := a.(type) {
	case nil:
		return nil, b == nil
	case *Term:
		y, ok := b.(*Term)
		if !ok || x.W != y.W {
			return nil, false
		}
		return e.tb.Ite(c, x, y), true
	case FloatV:
		y, ok := b.(FloatV)
		return a, ok && x == y
	case *OpaqueFloatV:
		_, ok := b.(*OpaqueFloatV)
		return a, ok
	case *StrV:
		y, ok := b.(*StrV)
		if !ok {
			return nil, false
		}
		n := len(x.B)
		if len(y.B) > n {
			n = len(y.B)
		}
		if !e.cfg.SymbolicLen && x.N != y.N && !(ctx != nil && ctx.lenient) {
			return nil, false
		}
		if n > e.cfg.MaxStrMerge {
			if x.N == y.N && len(x.B) == len(y.B) {
				same := true
				for i := range x.B {
					if x.B[i] != y.B[i] {
						same = false
						break
					}
				}
				if same {
					return a, true
				}
			}
			return nil, false
		}
		bs := make([]*Term, n)
		zero := e.tb.Const(8, 0)
		for i := 0; i < n; i++ {
			xa, ya := zero, zero
			if i < len(x.B) {
				xa = x.B[i]
			}
			if i < len(y.B) {
				ya = y.B[i]
			}
			bs[i] = e.tb.Ite(c, xa, ya)
		}
		return &StrV{N: e.tb.Ite(c, x.N, y.N), B: bs}, true
	case *StructV:
		y, ok := b.(*StructV)
		if !ok || len(x.F) != len(y.F) {
			return nil, false
		}
		f := make([]Value, len(x.F))
		for i := range x.F {
			m, ok := e.iteValueCtx(ctx, c, x.F[i], y.F[i])
			if !ok {
				return nil, false
			}
			f[i] = m
		}
		return &StructV{F: f}, true
	case *ArrayV:
		y, ok := b.(*ArrayV)
		if !ok || len(x.E) != len(y.E) {
			return nil, false
		}
		el := make([]Value, len(x.E))
		for i := range x.E {
			m, ok := e.iteValueCtx(ctx, c, x.E[i], y.E[i])
			if !ok {
				return nil, false
			}
			el[i] = m
		}
		return &ArrayV{E: el}, true
	case *PtrV:
		y, ok := b.(*PtrV)
		if !ok || x.Sym != y.Sym || x.SymN != y.SymN || len(x.Path) != len(y.Path) {
			return nil, false
		}
		if x.Obj != y.Obj && !e.unify(ctx, x.Obj, y.Obj) {
			return nil, false
		}
		for i := range x.Path {
			if x.Path[i] != y.Path[i] {
				return nil, false
			}
		}
		return a, true
	case *SliceV:
		y, ok := b.(*SliceV)
		if !ok || x.Off != y.Off || x.Cap != y.Cap || len(x.Path) != len(y.Path) {
			return nil, false
		}
		if x.Obj != y.Obj && !e.unify(ctx, x.Obj, y.Obj) {
			return nil, false
		}
		for i := range x.Path {
			if x.Path[i] != y.Path[i] {
				return nil, false
			}
		}
		if x.Obj == 0 {
			return a, true
		}
		if !e.cfg.SymbolicLen && x.N != y.N && !(ctx != nil && ctx.lenient) {
			return nil, false
		}
		return &SliceV{Obj: x.Obj, Path: x.Path, Off: x.Off, N: e.tb.Ite(c, x.N, y.N), Cap: x.Cap}, true
	case *MapV:
		y, ok := b.(*MapV)
		return a, ok && x.Obj == y.Obj
	case *IterV:
		y, ok := b.(*IterV)
		return a, ok && x.Obj == y.Obj
	case *IfaceV:
		y, ok := b.(*IfaceV)
		if !ok {
			return nil, false
		}
		if x.T == nil || y.T == nil {
			return a, x.T == nil && y.T == nil
		}
		if !types.Identical(x.T, y.T) {
			return nil, false
		}
		m, ok := e.iteValueCtx(ctx, c, x.V, y.V)
		if !ok {
			return nil, false
		}
		return &IfaceV{T: x.T, V: m}, true
	case *FuncV:
		y, ok := b.(*FuncV)
		if !ok || x.Fn != y.Fn || x.Builtin != y.Builtin || len(x.Bindings) != len(y.Bindings) {
			return nil, false
		}
		for i := range x.Bindings {
			if _, ok := e.iteValueCtx(ctx, c, x.Bindings[i], y.Bindings[i]); !ok {
				return nil, false
			}
			if !sameValue(x.Bindings[i], y.Bindings[i]) {
				return nil, false
			}
		}
		return a, true
	case *TupleV:
		y, ok := b.(*TupleV)
		if !ok || len(x.E) != len(y.E) {
			return nil, false
		}
		t := make([]Value, len(x.E))
		for i := range x.E {
			m, ok := e.iteValueCtx(ctx, c, x.E[i], y.E[i])
			if !ok {
				return nil, false
			}
			t[i] = m
		}
		return &TupleV{E: t}, true
	case *MapObj:
		return nil, false
	case *IterObj:
		y, ok := b.(*IterObj)
		if !ok || x.Pos != y.Pos || x.IsStr != y.IsStr || len(x.Keys) != len(y.Keys) {
			return nil, false
		}
		if x.IsStr {
			if x.Str != y.Str {
				return nil, false
			}
			return a, true
		}
		for i := range x.Keys {
			if !sameValue(x.Keys[i], y.Keys[i]) || !sameValue(x.Vals[i], y.Vals[i]) {
				return nil, false
			}
		}
		return a, true
	}
	return nil, false
}

// sameValue is a conservative structural identity test.
func sameValue(a, b Value) bool {
	if a == b {
		return true
	}
	switch x := a.(type) {
	case *Term:
		return false
	case FloatV:
		y, ok := b.(FloatV)
		return ok && x == y
	case *StrV:
		y, ok := b.(*StrV)
		if !ok || x.N != y.N || len(x.B) != len(y.B) {
			return false
		}
		for i := range x.B {
			if x.B[i] != y.B[i] {
				return false
			}
		}
		return true
	case *StructV:
		y, ok := b.(*StructV)
		if !ok || len(x.F) != len(y.F) {
			return false
		}
		for i := range x.F {
			if !sameValue(x.F[i], y.F[i]) {
				return false
			}
		}
		return true
	case *ArrayV:
		y, ok := b.(*ArrayV)
		if !ok || len(x.E) != len(y.E) {
			return false
		}
		for i := range x.E {
			if !sameValue(x.E[i], y.E[i]) {
				return false
			}
		}
		return true
	case *PtrV:
		y, ok := b.(*PtrV)
		if !ok || x.Obj != y.Obj || x.Sym != y.Sym || len(x.Path) != len(y.Path) {
			return false
		}
		for i := range x.Path {
			if x.Path[i] != y.Path[i] {
				return false
			}
		}
		return true
	case *SliceV:
		y, ok := b.(*SliceV)
		if !ok || x.Obj != y.Obj || x.Off != y.Off || x.Cap != y.Cap || x.N != y.N || len(x.Path) != len(y.Path) {
			return false
		}
		for i := range x.Path {
			if x.Path[i] != y.Path[i] {
				return false
			}
		}
		return true
	case *MapV:
		y, ok := b.(*MapV)
		return ok && x.Obj == y.Obj
	case *IterV:
		y, ok := b.(*IterV)
		return ok && x.Obj == y.Obj
	case *IfaceV:
		y, ok := b.(*IfaceV)
		if !ok {
			return false
		}
		if x.T == nil || y.T == nil {
			return x.T == nil && y.T == nil
		}
		return types.Identical(x.T, y.T) && sameValue(x.V, y.V)
	case *FuncV:
		y, ok := b.(*FuncV)
		if !ok || x.Fn != y.Fn || x.Builtin != y.Builtin || len(x.Bindings) != len(y.Bindings) {
			return false
		}
		for i := range x.Bindings {
			if !sameValue(x.Bindings[i], y.Bindings[i]) {
				return false
			}
		}
		return true
	case *TupleV:
		y, ok := b.(*TupleV)
		if !ok || len(x.E) != len(y.E) {
			return false
		}
		for i := range x.E {
			if !sameValue(x.E[i], y.E[i]) {
				return false
			}
		}
		return true
	}
	return false
}

// commonPrefix returns the length of the shared prefix of two path conditions.
func commonPrefix(a, b []*Term) int {
	n := len(a)
	if len(b) < n {
		n = len(b)
	}
	i := 0
	for i < n && a[i] == b[i] {
		i++
	}
	return i
}

// mergeStates tries to merge b into a (both derived from a common ancestor; path conditions mutually exclusive).
// extraA/extraB are additional values (registers, results) to merge pairwise. Returns merged state+values or ok=false.
func (e *Engine) mergeStates(a, b *State, extraA, extraB []Value) (*State, []Value, bool) {
	if len(a.log) != len(b.log) || len(a.expects) != len(b.expects) || len(extraA) != len(extraB) {
		return nil, nil, false
	}
	for i := range a.log {
		if a.log[i].Name != b.log[i].Name || len(a.log[i].T) != len(b.log[i].T) || a.log[i].Len != b.log[i].Len {
			return nil, nil, false
		}
		for j := range a.log[i].T {
			if a.log[i].T[j] != b.log[i].T[j] {
				return nil, nil, false
			}
		}
	}
	for i := range a.expects {
		if a.expects[i] != b.expects[i] {
			return nil, nil, false
		}
	}
	if !sameAux(a.aux, b.aux) {
		return nil, nil, false
	}
	k := commonPrefix(a.pc, b.pc)
	ga := e.tb.AndN(a.pc[k:]...)
	gb := e.tb.AndN(b.pc[k:]...)
	// heap
	var diffs []int
	for id, va := range a.heap {
		vb, ok := b.heap[id]
		if !ok {
			if vbase, ok2 := e.base[id]; ok2 {
				vb = vbase
			} else {
				continue // allocated only in a
			}
		}
		if va != vb {
			diffs = append(diffs, id)
		}
	}
	for id, vb := range b.heap {
		if _, ok := a.heap[id]; ok {
			continue
		}
		if vbase, ok2 := e.base[id]; ok2 && vbase != vb {
			diffs = append(diffs, id)
		}
	}
	ctx := &mergeCtx{a: a, b: b, rename: map[int]int{}, reverse: map[int]int{}}
	merged := make(map[int]Value, len(diffs))
	for _, id := range diffs {
		va, oka := a.heap[id]
		if !oka {
			va = e.base[id]
		}
		vb, okb := b.heap[id]
		if !okb {
			vb = e.base[id]
		}
		m, ok := e.iteValueCtx(ctx, ga, va, vb)
		if !ok {
			return nil, nil, false
		}
		merged[id] = m
	}
	extra := make([]Value, len(extraA))
	for i := range extraA {
		m, ok := e.iteValueCtx(ctx, ga, extraA[i], extraB[i])
		if !ok {
			return nil, nil, false
		}
		extra[i] = m
	}
	// contents of unified fresh objects
	ctx.lenient = true
	for qi := 0; qi < len(ctx.queue); qi++ {
		x, y := ctx.queue[qi][0], ctx.queue[qi][1]
		m, ok := e.iteValueCtx(ctx, ga, a.heap[x], b.heap[y])
		if !ok {
			return nil, nil, false
		}
		merged[x] = m
	}
	n := a.fork()
	for id, vb := range b.heap {
		if _, ok := n.heap[id]; !ok {
			n.heap[id] = vb
		}
	}
	for id, m := range merged {
		n.heap[id] = m
	}
	n.pc = append(a.pc[:k:k], e.tb.Or(ga, gb))
	if n.pc[k].IsTrue() {
		n.pc = n.pc[:k]
	}
	e.stats.Merges++
	return n, extra, true
}

func sameAux(a, b map[string]Value) bool {
	if len(a) != len(b) {
		return false
	}
	for k, v := range a {
		w, ok := b[k]
		if !ok || !sameValue(v, w) {
			return false
		}
	}
	return true
}
