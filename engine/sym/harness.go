package sym

import (
	"fmt"
	"os"
	"strconv"
	"time"

	"golang.org/x/tools/go/ssa"
)

type Intrinsic func(e *Engine, st *State, args []Value, fn *ssa.Function) []Outcome

var intrinsics = map[string]Intrinsic{}

// vpAPI maps harness API function names (any package) to their engine semantics.
var vpAPI = map[string]Intrinsic{}

func init() {
	vpAPI["vpNondetBool"] = func(e *Engine, st *State, args []Value, fn *ssa.Function) []Outcome {
		name := e.mustConcStr(args[0])
		v := e.tb.Fresh(name, 0)
		st.log = append(st.log[:len(st.log):len(st.log)], LogEntry{Name: name, Kind: "bool", T: []*Term{v}})
		return one(st, v)
	}
	vpAPI["vpNondetU8"] = func(e *Engine, st *State, args []Value, fn *ssa.Function) []Outcome {
		name := e.mustConcStr(args[0])
		v := e.tb.Fresh(name, 8)
		st.log = append(st.log[:len(st.log):len(st.log)], LogEntry{Name: name, Kind: "u8", T: []*Term{v}})
		return one(st, v)
	}
	vpAPI["vpNondetI64"] = func(e *Engine, st *State, args []Value, fn *ssa.Function) []Outcome {
		name := e.mustConcStr(args[0])
		v := e.tb.Fresh(name, 64)
		st.log = append(st.log[:len(st.log):len(st.log)], LogEntry{Name: name, Kind: "i64", T: []*Term{v}})
		return one(st, v)
	}
	vpAPI["vpNondetU64"] = func(e *Engine, st *State, args []Value, fn *ssa.Function) []Outcome {
		name := e.mustConcStr(args[0])
		v := e.tb.Fresh(name, 64)
		st.log = append(st.log[:len(st.log):len(st.log)], LogEntry{Name: name, Kind: "u64", T: []*Term{v}})
		return one(st, v)
	}
	// vpNondetBits(name, bits) uint64 -- a value below 2^bits (zero-extended narrow variable: the range is structural)
	vpAPI["vpNondetBits"] = func(e *Engine, st *State, args []Value, fn *ssa.Function) []Outcome {
		name := e.mustConcStr(args[0])
		bits := e.mustConcInt(args[1])
		if bits < 1 || bits > 64 {
			panic(e.abort("vpNondetBits: bad width %d", bits))
		}
		v := e.tb.Fresh(name, bits)
		st.log = append(st.log[:len(st.log):len(st.log)], LogEntry{Name: name, Kind: "u64", T: []*Term{v}})
		return one(st, e.tb.ZExt(v, 64))
	}
	// vpNondetInt(name, lo, hi) int  -- lo <= v <= hi
	vpAPI["vpNondetInt"] = func(e *Engine, st *State, args []Value, fn *ssa.Function) []Outcome {
		name := e.mustConcStr(args[0])
		lo, hi := args[1].(*Term), args[2].(*Term)
		if lo.IsConst() && hi.IsConst() && hi.SVal() >= lo.SVal() && uint64(hi.SVal()-lo.SVal()) < 1<<40 {
			// structural range: lo + zero-extended narrow variable (so the value range is visible to the simplifier)
			span := uint64(hi.SVal() - lo.SVal())
			bits := 1
			for (uint64(1)<<uint(bits))-1 < span {
				bits++
			}
			nv := e.tb.Fresh(name, bits)
			st.log = append(st.log[:len(st.log):len(st.log)], LogEntry{Name: name, Kind: "offset", T: []*Term{nv}, Strs: []string{strconv.FormatInt(lo.SVal(), 10)}})
			if (uint64(1)<<uint(bits))-1 != span {
				st.assume(e.tb.Cmp(OpULe, nv, e.tb.Const(bits, span)))
			}
			return one(st, e.tb.Bin(OpAdd, e.tb.ZExt(nv, 64), lo))
		}
		v := e.tb.Fresh(name, 64)
		st.log = append(st.log[:len(st.log):len(st.log)], LogEntry{Name: name, Kind: "i64", T: []*Term{v}})
		st.assume(e.tb.Cmp(OpSLe, lo, v))
		st.assume(e.tb.Cmp(OpSLe, v, hi))
		if e.solver.Check(st.pc) == Unsat {
			return nil
		}
		return one(st, v)
	}
	// vpNondetBytes(name, n) []byte -- exactly n symbolic bytes
	vpAPI["vpNondetBytes"] = func(e *Engine, st *State, args []Value, fn *ssa.Function) []Outcome {
		name := e.mustConcStr(args[0])
		n := e.mustConcInt(args[1])
		s := e.freshStr(st, name, n, true, "bytes")
		return one(st, e.newByteSlice(st, s))
	}
	// vpNondetString(name, max) string -- length 0..max
	vpAPI["vpNondetString"] = func(e *Engine, st *State, args []Value, fn *ssa.Function) []Outcome {
		name := e.mustConcStr(args[0])
		n := e.mustConcInt(args[1])
		s := e.freshStr(st, name, n, false, "string")
		if e.cfg.Merge && e.cfg.SymbolicLen {
			return one(st, s)
		}
		var outs []Outcome
		for _, cs := range e.concStr(st, s) {
			outs = append(outs, Outcome{st: cs.st, ret: cs.s})
		}
		return outs
	}
	// vpNondetStringN(name, n) string -- exactly n bytes
	vpAPI["vpNondetStringN"] = func(e *Engine, st *State, args []Value, fn *ssa.Function) []Outcome {
		name := e.mustConcStr(args[0])
		n := e.mustConcInt(args[1])
		return one(st, e.freshStr(st, name, n, true, "string"))
	}
	// vpChoice(name, options...) string
	vpAPI["vpChoice"] = func(e *Engine, st *State, args []Value, fn *ssa.Function) []Outcome {
		name := e.mustConcStr(args[0])
		opts := args[1].(*SliceV)
		n := int(opts.N.Val)
		if n == 0 {
			panic(e.abort("vpChoice without options"))
		}
		var strs []string
		for i := 0; i < n; i++ {
			strs = append(strs, e.mustConcStr(e.sliceElem(st, opts, i)))
		}
		sel := e.tb.Fresh(name, 8)
		st.log = append(st.log[:len(st.log):len(st.log)], LogEntry{Name: name, Kind: "choice", T: []*Term{sel}, Strs: strs})
		var outs []Outcome
		for i, s := range strs {
			ns := st
			if i < n-1 {
				ns = st.fork()
			}
			ns.assume(e.tb.Eq(sel, e.tb.Const(8, uint64(i))))
			outs = append(outs, Outcome{st: ns, ret: e.StrConst(s)})
		}
		return outs
	}
	// vpConfig(name) string -- concrete configuration value chosen by the driver
	vpAPI["vpConfig"] = func(e *Engine, st *State, args []Value, fn *ssa.Function) []Outcome {
		name := e.mustConcStr(args[0])
		v, ok := e.config[name]
		if !ok {
			panic(e.abort("vpConfig(%q): no value supplied", name))
		}
		found := false
		for _, le := range st.log {
			if le.Kind == "config" && le.Name == name {
				found = true
			}
		}
		if !found {
			st.log = append(st.log[:len(st.log):len(st.log)], LogEntry{Name: name, Kind: "config", Strs: []string{v}})
		}
		return one(st, e.StrConst(v))
	}
	vpAPI["vpConfigInt"] = func(e *Engine, st *State, args []Value, fn *ssa.Function) []Outcome {
		outs := vpAPI["vpConfig"](e, st, args, fn)
		n, err := strconv.Atoi(e.mustConcStr(outs[0].ret))
		if err != nil {
			panic(e.abort("vpConfigInt: %v", err))
		}
		return one(st, e.tb.Int64(int64(n)))
	}
	vpAPI["vpAssume"] = func(e *Engine, st *State, args []Value, fn *ssa.Function) []Outcome {
		c := args[0].(*Term)
		if c.IsFalse() {
			return nil
		}
		if c.IsTrue() {
			return one(st, nil)
		}
		st.assume(c)
		if e.solver.Check(st.pc) == Unsat {
			return nil
		}
		return one(st, nil)
	}
	vpAPI["vpAssert"] = func(e *Engine, st *State, args []Value, fn *ssa.Function) []Outcome {
		label := e.mustConcStr(args[0])
		return e.assert(st, label, args[1].(*Term), "", nil)
	}
	// vpAssertKF(label, cond, kfID, inRegion)
	vpAPI["vpAssertKF"] = func(e *Engine, st *State, args []Value, fn *ssa.Function) []Outcome {
		label := e.mustConcStr(args[0])
		return e.assert(st, label, args[1].(*Term), e.mustConcStr(args[2]), args[3].(*Term))
	}
	vpAPI["vpReach"] = func(e *Engine, st *State, args []Value, fn *ssa.Function) []Outcome {
		label := e.mustConcStr(args[0])
		c := args[1].(*Term)
		if e.rep.ReachLabels == nil {
			e.rep.ReachLabels = map[string]bool{}
			e.rep.Reached = map[string]Inputs{}
		}
		if _, ok := e.rep.ReachLabels[label]; !ok {
			e.rep.ReachLabels[label] = false
		}
		if !e.rep.ReachLabels[label] && !c.IsFalse() {
			in, r := e.modelInputs(st, c)
			if r == Sat {
				e.rep.ReachLabels[label] = true
				e.rep.Reached[label] = in
			}
		}
		return one(st, nil)
	}
	// vpExpectPanic(kfID, inRegion): panics raised while the region holds are the known finding kfID
	vpAPI["vpExpectPanic"] = func(e *Engine, st *State, args []Value, fn *ssa.Function) []Outcome {
		id := e.mustConcStr(args[0])
		st.expects = append(st.expects[:len(st.expects):len(st.expects)], Expect{ID: id, Cond: args[1].(*Term)})
		return one(st, nil)
	}
	vpAPI["vpMapOrderReset"] = func(e *Engine, st *State, args []Value, fn *ssa.Function) []Outcome {
		delete2(st, "maporder.mode")
		return one(st, nil)
	}
	vpAPI["vpEndExpect"] = func(e *Engine, st *State, args []Value, fn *ssa.Function) []Outcome {
		st.expects = nil
		return one(st, nil)
	}
	// vpStub(target, fn)
	vpAPI["vpStub"] = func(e *Engine, st *State, args []Value, fn *ssa.Function) []Outcome {
		target := e.mustConcStr(args[0])
		iv := args[1].(*IfaceV)
		fv := iv.V.(*FuncV)
		if fv.Fn == nil {
			panic(e.abort("vpStub: not a function"))
		}
		if len(fv.Bindings) > 0 {
			panic(e.abort("vpStub: closures with bindings not supported"))
		}
		e.stubs[target] = fv.Fn
		return one(st, nil)
	}
	vpAPI["vpUnstub"] = func(e *Engine, st *State, args []Value, fn *ssa.Function) []Outcome {
		delete(e.stubs, e.mustConcStr(args[0]))
		return one(st, nil)
	}
	// vpSymbolic() bool: true under the engine, false natively
	vpAPI["vpSymbolic"] = func(e *Engine, st *State, args []Value, fn *ssa.Function) []Outcome {
		return one(st, e.tb.True)
	}
	// vpObserve(label, value): recorded for comparison with the native replay (strings and ints)
	vpAPI["vpObserve"] = func(e *Engine, st *State, args []Value, fn *ssa.Function) []Outcome {
		if e.progress {
			label := e.mustConcStr(args[0])
			for _, r := range e.renderValue(st.fork(), 'v', args[1]) {
				fmt.Fprintf(os.Stderr, "[observe] %s = %s\n", label, showValue(r.s))
			}
		}
		return one(st, nil)
	}
}

func (e *Engine) mustConcStr(v Value) string {
	s, ok := v.(*StrV)
	if !ok {
		panic(e.abort("expected string, got %T", v))
	}
	c, ok := s.Concrete()
	if !ok {
		panic(e.abort("expected concrete string"))
	}
	return c
}

func (e *Engine) mustConcInt(v Value) int {
	t, ok := v.(*Term)
	if !ok || !t.IsConst() {
		panic(e.abort("expected concrete int"))
	}
	return int(t.SVal())
}

// freshStr makes a symbolic string of capacity n (exact length if exact).
func (e *Engine) freshStr(st *State, name string, n int, exact bool, kind string) *StrV {
	b := make([]*Term, n)
	for i := range b {
		b[i] = e.tb.Fresh(fmt.Sprintf("%s[%d]", name, i), 8)
	}
	le := LogEntry{Name: name, Kind: kind, T: b}
	s := &StrV{B: b}
	if exact {
		s.N = e.tb.Int64(int64(n))
	} else {
		s.N = e.tb.Fresh(name+".len", 64)
		st.assume(e.tb.Cmp(OpULe, s.N, e.tb.Int64(int64(n))))
		le.Len = s.N
	}
	st.log = append(st.log[:len(st.log):len(st.log)], le)
	return s
}

// assert checks an obligation; inside a known-finding region a failure is reported as that finding.
func (e *Engine) assert(st *State, label string, c *Term, kf string, region *Term) []Outcome {
	e.rep.Obligations++
	if c.IsTrue() {
		e.rep.Discharged++
		return one(st, nil)
	}
	nc := e.tb.Not(c)
	ok := true
	if kf != "" && !region.IsFalse() {
		in, r := e.modelInputs(st, nc, region)
		switch r {
		case Sat:
			e.rep.addKnown(kf, Violation{Kind: "assert", Label: label, Inputs: in})
		case Unknown:
			e.rep.addInconclusive("assertion %s (region %s): solver unknown", label, kf)
			ok = false
		}
		nc = e.tb.And(nc, e.tb.Not(region))
	}
	in, r := e.modelInputs(st, nc)
	switch r {
	case Sat:
		e.rep.addViolation(Violation{Kind: "assert", Label: label, Inputs: in})
		ok = false
	case Unknown:
		e.rep.addInconclusive("assertion %s: solver unknown", label)
		ok = false
	}
	if ok {
		e.rep.Discharged++
	}
	t, _ := e.branch(st, c)
	if t == nil {
		return nil
	}
	return one(t, nil)
}

// handlePanic classifies a panic that reached the harness top level.
func (e *Engine) handlePanic(o Outcome) {
	e.rep.PathsPanicked++
	if e.cfg.PanicsAssume {
		return
	}
	e.rep.Obligations++
	msg := e.panicMessage(o)
	st := o.st
	outside := e.tb.True
	okAll := true
	for _, ex := range st.expects {
		if ex.Cond.IsFalse() {
			continue
		}
		in, r := e.modelInputs(st, ex.Cond)
		switch r {
		case Sat:
			e.rep.addKnown(ex.ID, Violation{Kind: "panic", Label: "panic", Message: msg, Inputs: in})
		case Unknown:
			e.rep.addInconclusive("panic in region %s: solver unknown", ex.ID)
			okAll = false
		}
		outside = e.tb.And(outside, e.tb.Not(ex.Cond))
	}
	in, r := e.modelInputs(st, outside)
	switch r {
	case Sat:
		e.rep.addViolation(Violation{Kind: "panic", Label: "panic", Message: msg, Inputs: in})
		okAll = false
	case Unknown:
		e.rep.addInconclusive("panic %q: solver unknown", msg)
		okAll = false
	}
	if okAll {
		e.rep.Discharged++
	}
}

func (e *Engine) panicMessage(o Outcome) string {
	switch v := o.pv.(type) {
	case *StrV:
		if s, ok := v.Concrete(); ok {
			return s
		}
		return "<symbolic panic message>"
	case *IfaceV:
		if v.T == nil {
			return "panic(nil)"
		}
		if s, ok := v.V.(*StrV); ok {
			if c, ok := s.Concrete(); ok {
				return c
			}
		}
		// error values: try Error()
		if fnm := e.prog.LookupMethod(v.T, nil, "Error"); fnm != nil {
			func() {
				defer func() { recover() }()
			}()
			return "panic(" + v.T.String() + ")"
		}
		return "panic(" + v.T.String() + ")"
	}
	return "panic"
}

// RunResult is what one harness run returns to the driver.
type RunResult struct {
	Harness    string            `json:"harness"`
	Config     map[string]string `json:"config,omitempty"`
	Report     *Report           `json:"report"`
	Aborted    string            `json:"aborted,omitempty"`
	AbortStack []string          `json:"abort_stack,omitempty"`
	Stats      Stats             `json:"stats"`
	Queries    int               `json:"queries"`
	CacheHits  int               `json:"cache_hits"`
	External   int               `json:"external_queries"`
	Unknowns   int               `json:"unknowns"`
	SolverS    float64           `json:"solver_s"`
	WallS      float64           `json:"wall_s"`
	Functions  []string          `json:"functions_encoded"`
	Terms      int               `json:"terms"`
}

// RunHarness executes one harness function symbolically.
func (e *Engine) RunHarness(fn *ssa.Function, config map[string]string) (res *RunResult) {
	t0 := time.Now()
	e.config = config
	if e.cfg.TimeoutS > 0 {
		e.deadline = t0.Add(time.Duration(e.cfg.TimeoutS) * time.Second)
	}
	res = &RunResult{Harness: fn.Name(), Config: config, Report: e.rep}
	defer func() {
		if r := recover(); r != nil {
			if a, ok := r.(*abortErr); ok {
				res.Aborted = a.msg
				res.AbortStack = a.stack
				e.rep.addInconclusive("aborted: %s", a.msg)
			} else {
				panic(r)
			}
		}
		res.Stats = e.stats
		res.Queries = e.solver.NQueries
		res.CacheHits = e.solver.NCacheHit
		res.External = e.solver.NExternal
		res.Unknowns = e.solver.NUnknown
		res.SolverS = e.solver.SolverTime.Seconds()
		res.WallS = time.Since(t0).Seconds()
		res.Terms = e.tb.next
		for f := range e.stats.Functions {
			res.Functions = append(res.Functions, f)
		}
	}()
	st := e.newState()
	outs := e.execFunction(fn, nil, nil, st)
	for _, o := range outs {
		if o.panicked {
			e.handlePanic(o)
			continue
		}
		// goroutines still pending when the harness returns run now (their panics count)
		if len(e.pendingGo(o.st)) > 0 {
			for _, d := range e.drainGoroutines(o.st) {
				if d.panicked {
					e.handlePanic(d)
				}
			}
		}
		e.rep.PathsCompleted++
	}
	e.stats.Paths = len(outs)
	return res
}
