package sym

import (
	"fmt"
	"math"
	"regexp"
	"strconv"
	"sync"

	"golang.org/x/tools/go/ssa"
)

type cryptoState struct{}

func newCryptoState() *cryptoState { return &cryptoState{} }

func reg(name string, f Intrinsic) { intrinsics[name] = f }

func identity1(e *Engine, st *State, args []Value, fn *ssa.Function) []Outcome {
	return one(st, args[0])
}

func noop(e *Engine, st *State, args []Value, fn *ssa.Function) []Outcome { return one(st, nil) }

func init() {
	reg("internal/abi.NoEscape", identity1)
	reg("internal/abi.Escape", identity1)
	reg("runtime.KeepAlive", noop)
	reg("internal/race.Acquire", noop)
	reg("internal/race.Release", noop)
	reg("internal/race.ReleaseMerge", noop)
	reg("internal/race.Disable", noop)
	reg("internal/race.Enable", noop)
	reg("internal/race.ReadRange", noop)
	reg("internal/race.WriteRange", noop)
	reg("(*strings.Builder).copyCheck", noop)
	reg("(*sync.Mutex).Lock", lockIntrinsic("lock"))
	reg("(*sync.Mutex).Unlock", lockIntrinsic("unlock"))
	reg("(*sync.RWMutex).Lock", lockIntrinsic("lock"))
	reg("(*sync.RWMutex).Unlock", lockIntrinsic("unlock"))
	reg("(*sync.RWMutex).RLock", lockIntrinsic("rlock"))
	reg("(*sync.RWMutex).RUnlock", lockIntrinsic("runlock"))
	reg("(*sync.Pool).Get", func(e *Engine, st *State, args []Value, fn *ssa.Function) []Outcome {
		// empty pool: fall back to New if set
		p := args[0].(*PtrV)
		pool := e.load(st, p).(*StructV)
		newFn := pool.F[len(pool.F)-1].(*FuncV)
		if !newFn.IsNil() {
			return e.callValue(st, newFn, nil)
		}
		return one(st, &IfaceV{})
	})
	reg("(*sync.Pool).Put", noop)
	// util.RandomString(n): one fixed representative of the documented alphabet (bound: the random part of v1 event IDs
	// is not varied; distinct calls give distinct strings)
	reg("github.com/matrix-org/util.RandomString", func(e *Engine, st *State, args []Value, fn *ssa.Function) []Outcome {
		n := e.mustConcInt(args[0])
		e.cryptoCounter++
		s := strconv.Itoa(e.cryptoCounter)
		for len(s) < n {
			s = "R" + s
		}
		return one(st, e.StrConst(s[len(s)-n:]))
	})
	reg("(*sync.Once).Do", func(e *Engine, st *State, args []Value, fn *ssa.Function) []Outcome {
		p := args[0].(*PtrV)
		key := "once:" + strconv.Itoa(p.Obj) + pathKey(p.Path)
		if _, done := st.aux[key]; done {
			return one(st, nil)
		}
		st.setAux(key, e.tb.True)
		return e.callValue(st, args[1], nil)
	})

	// internal/bytealg
	reg("internal/bytealg.IndexByteString", func(e *Engine, st *State, args []Value, fn *ssa.Function) []Outcome {
		return one(st, e.indexByte(args[0].(*StrV), args[1].(*Term)))
	})
	reg("internal/bytealg.IndexByte", func(e *Engine, st *State, args []Value, fn *ssa.Function) []Outcome {
		return one(st, e.indexByte(e.sliceToStr(st, args[0].(*SliceV)), args[1].(*Term)))
	})
	reg("internal/bytealg.CountString", func(e *Engine, st *State, args []Value, fn *ssa.Function) []Outcome {
		return one(st, e.countByte(args[0].(*StrV), args[1].(*Term)))
	})
	reg("internal/bytealg.Count", func(e *Engine, st *State, args []Value, fn *ssa.Function) []Outcome {
		return one(st, e.countByte(e.sliceToStr(st, args[0].(*SliceV)), args[1].(*Term)))
	})
	reg("internal/bytealg.Equal", func(e *Engine, st *State, args []Value, fn *ssa.Function) []Outcome {
		return one(st, e.strEq(e.sliceToStr(st, args[0].(*SliceV)), e.sliceToStr(st, args[1].(*SliceV))))
	})
	reg("bytes.Equal", func(e *Engine, st *State, args []Value, fn *ssa.Function) []Outcome {
		a, b := args[0].(*SliceV), args[1].(*SliceV)
		if r, ok := e.j2BytesEqual(st, a, b); ok {
			return one(st, r)
		}
		return one(st, e.strEq(e.sliceToStr(st, a), e.sliceToStr(st, b)))
	})
	reg("internal/bytealg.Compare", func(e *Engine, st *State, args []Value, fn *ssa.Function) []Outcome {
		return one(st, e.strCompare(e.sliceToStr(st, args[0].(*SliceV)), e.sliceToStr(st, args[1].(*SliceV))))
	})
	reg("internal/bytealg.CompareString", func(e *Engine, st *State, args []Value, fn *ssa.Function) []Outcome {
		return one(st, e.strCompare(args[0].(*StrV), args[1].(*StrV)))
	})
	reg("strings.Compare", func(e *Engine, st *State, args []Value, fn *ssa.Function) []Outcome {
		return one(st, e.strCompare(args[0].(*StrV), args[1].(*StrV)))
	})
	reg("runtime.cmpstring", func(e *Engine, st *State, args []Value, fn *ssa.Function) []Outcome {
		return one(st, e.strCompare(args[0].(*StrV), args[1].(*StrV)))
	})
	reg("internal/bytealg.IndexString", func(e *Engine, st *State, args []Value, fn *ssa.Function) []Outcome {
		return e.indexString(st, args[0].(*StrV), args[1].(*StrV))
	})
	reg("internal/bytealg.Index", func(e *Engine, st *State, args []Value, fn *ssa.Function) []Outcome {
		return e.indexString(st, e.sliceToStr(st, args[0].(*SliceV)), e.sliceToStr(st, args[1].(*SliceV)))
	})
	reg("strings.Index", func(e *Engine, st *State, args []Value, fn *ssa.Function) []Outcome {
		return e.indexString(st, args[0].(*StrV), args[1].(*StrV))
	})
	reg("bytes.Index", func(e *Engine, st *State, args []Value, fn *ssa.Function) []Outcome {
		return e.indexString(st, e.sliceToStr(st, args[0].(*SliceV)), e.sliceToStr(st, args[1].(*SliceV)))
	})
	reg("internal/bytealg.MakeNoZero", func(e *Engine, st *State, args []Value, fn *ssa.Function) []Outcome {
		n := e.mustConcInt(args[0])
		el := make([]Value, n)
		for i := range el {
			el[i] = e.tb.Const(8, 0)
		}
		id := e.alloc(st, &ArrayV{E: el})
		return one(st, &SliceV{Obj: id, N: e.tb.Int64(int64(n)), Cap: n})
	})
	reg("internal/stringslite.Index", func(e *Engine, st *State, args []Value, fn *ssa.Function) []Outcome {
		return e.indexString(st, args[0].(*StrV), args[1].(*StrV))
	})
	reg("strings.Clone", identity1)
	reg("internal/stringslite.Clone", identity1)
	// unique.Make[T](v) Handle[T]: canonical pointer per distinct value (forks on symbolic equality)
	reg("unique.Make", func(e *Engine, st *State, args []Value, fn *ssa.Function) []Outcome {
		v := args[0]
		var outs []Outcome
		cur := st
		for _, ent := range e.uniqueTab {
			if !sameShape(ent.val, v) {
				continue
			}
			c := e.valuesEqual(ent.val, v)
			t, f := e.branch(cur, c)
			if t != nil {
				outs = append(outs, Outcome{st: t, ret: &StructV{F: []Value{&PtrV{Obj: ent.obj}}}})
			}
			if f == nil {
				return outs
			}
			cur = f
		}
		// canonical objects live in the base heap so that every state sees them
		e.nextObj++
		id := e.nextObj
		e.base[id] = v
		e.uniqueTab = append(e.uniqueTab, uniqueEnt{val: v, obj: id})
		outs = append(outs, Outcome{st: cur, ret: &StructV{F: []Value{&PtrV{Obj: id}}}})
		return outs
	})
}

func init() {
	f1 := func(f func(float64) float64) Intrinsic {
		return func(e *Engine, st *State, args []Value, fn *ssa.Function) []Outcome {
			x, ok := args[0].(FloatV)
			if !ok {
				panic(e.abort("%s on symbolic float", fn.Name()))
			}
			return one(st, FloatV(f(float64(x))))
		}
	}
	reg("math.Floor", f1(math.Floor))
	reg("math.Ceil", f1(math.Ceil))
	reg("math.Trunc", f1(math.Trunc))
	reg("math.Abs", f1(math.Abs))
	reg("math.Sqrt", f1(math.Sqrt))
	reg("math.Log", f1(math.Log))
	reg("math.Log2", f1(math.Log2))
	reg("math.Pow", func(e *Engine, st *State, args []Value, fn *ssa.Function) []Outcome {
		x, ok1 := args[0].(FloatV)
		y, ok2 := args[1].(FloatV)
		if !ok1 || !ok2 {
			panic(e.abort("math.Pow on symbolic float"))
		}
		return one(st, FloatV(math.Pow(float64(x), float64(y))))
	})
	reg("math.Float64bits", func(e *Engine, st *State, args []Value, fn *ssa.Function) []Outcome {
		x, ok := args[0].(FloatV)
		if !ok {
			panic(e.abort("math.Float64bits on symbolic float"))
		}
		return one(st, e.tb.Const(64, math.Float64bits(float64(x))))
	})
	reg("math.Float64frombits", func(e *Engine, st *State, args []Value, fn *ssa.Function) []Outcome {
		x := args[0].(*Term)
		if !x.IsConst() {
			panic(e.abort("math.Float64frombits on symbolic bits"))
		}
		return one(st, FloatV(math.Float64frombits(x.Val)))
	})
	reg("math.IsNaN", func(e *Engine, st *State, args []Value, fn *ssa.Function) []Outcome {
		if x, ok := args[0].(FloatV); ok {
			return one(st, e.tb.Bool(math.IsNaN(float64(x))))
		}
		return one(st, e.tb.False)
	})
	reg("math.IsInf", func(e *Engine, st *State, args []Value, fn *ssa.Function) []Outcome {
		if x, ok := args[0].(FloatV); ok {
			return one(st, e.tb.Bool(math.IsInf(float64(x), e.mustConcInt(args[1]))))
		}
		return one(st, e.tb.False)
	})
}

// regexpCache is shared by the engines of parallel jobs
var regexpCache sync.Map // string -> *regexp.Regexp

func init() {
	// regexp matching of *concrete* strings is done natively (same package, same pattern text read from the Regexp
	// value); symbolic strings go through the interpreted regexp engine
	reg("(*regexp.Regexp).MatchString", func(e *Engine, st *State, args []Value, fn *ssa.Function) []Outcome {
		s := args[1].(*StrV)
		p := args[0].(*PtrV)
		if c, ok := s.Concrete(); ok && !p.IsNil() {
			if rv, ok := e.load(st, p).(*StructV); ok && len(rv.F) > 0 {
				if ex, ok := rv.F[0].(*StrV); ok {
					if pat, ok := ex.Concrete(); ok {
						var re *regexp.Regexp
						if c, ok := regexpCache.Load(pat); ok {
							re = c.(*regexp.Regexp)
						} else {
							var err error
							re, err = regexp.Compile(pat)
							if err != nil {
								return e.mergeOutcomes(e.execFunction(fn, args, nil, st))
							}
							regexpCache.Store(pat, re)
						}
						return one(st, e.tb.Bool(re.MatchString(c)))
					}
				}
			}
		}
		return e.mergeOutcomes(e.execFunction(fn, args, nil, st))
	})
}

func pathKey(p []int) string {
	s := ""
	for _, i := range p {
		s += "." + strconv.Itoa(i)
	}
	return s
}

// Mutexes: the held state is tracked per mutex address (State.aux). Under the non-preemptive goroutine model a
// goroutine that finds a mutex held cannot wait for the holder (which is suspended beneath it), so that schedule is
// infeasible and the path is dropped (counted in stats); without any goroutine a second Lock is a self-deadlock.
func lockIntrinsic(kind string) Intrinsic {
	return func(e *Engine, st *State, args []Value, fn *ssa.Function) []Outcome {
		p := args[0].(*PtrV)
		if p.IsNil() {
			return []Outcome{e.panicOut(st, "nil mutex")}
		}
		if e.lockHook != nil {
			e.lockHook(st, kind, p)
		}
		key := fmt.Sprintf("mu:%d:%v", p.Obj, p.Path)
		held := int64(0) // >0: readers, -1: writer
		if v, ok := st.aux[key]; ok {
			held = int64(v.(*Term).Val)
		}
		blocked := func() []Outcome {
			if e.goCounter == 0 {
				return []Outcome{e.panicOut(st, "all goroutines are asleep - deadlock! (mutex locked twice)")}
			}
			e.stats.PrunedSchedules++
			return nil
		}
		switch kind {
		case "lock":
			if held != 0 {
				return blocked()
			}
			st.setAux(key, e.tb.Int64(-1))
		case "unlock":
			if held != -1 {
				return []Outcome{e.panicOut(st, "sync: unlock of unlocked mutex")}
			}
			delAux(st, key)
		case "rlock":
			if held < 0 {
				return blocked()
			}
			st.setAux(key, e.tb.Int64(held+1))
		case "runlock":
			if held <= 0 {
				return []Outcome{e.panicOut(st, "sync: RUnlock of unlocked RWMutex")}
			}
			if held == 1 {
				delAux(st, key)
			} else {
				st.setAux(key, e.tb.Int64(held-1))
			}
		}
		return one(st, nil)
	}
}

// indexByte returns the first index of c in s or -1 (64-bit term).
func (e *Engine) indexByte(s *StrV, c *Term) *Term {
	t := e.tb
	res := t.Int64(-1)
	for k := len(s.B) - 1; k >= 0; k-- {
		hit := t.Eq(s.B[k], c)
		if !s.N.IsConst() {
			hit = t.And(hit, t.Cmp(OpULt, t.Int64(int64(k)), s.N))
		} else if k >= int(s.N.Val) {
			continue
		}
		res = t.Ite(hit, t.Int64(int64(k)), res)
	}
	return res
}

func (e *Engine) countByte(s *StrV, c *Term) *Term {
	t := e.tb
	res := t.Int64(0)
	for k := 0; k < len(s.B); k++ {
		hit := t.Eq(s.B[k], c)
		if !s.N.IsConst() {
			hit = t.And(hit, t.Cmp(OpULt, t.Int64(int64(k)), s.N))
		} else if k >= int(s.N.Val) {
			continue
		}
		res = t.Bin(OpAdd, res, t.Ite(hit, t.Int64(1), t.Int64(0)))
	}
	return res
}

// strCompare returns -1/0/+1 as a 64-bit term.
func (e *Engine) strCompare(a, b *StrV) *Term {
	t := e.tb
	return t.Ite(e.strLess(a, b), t.Int64(-1), t.Ite(e.strEq(a, b), t.Int64(0), t.Int64(1)))
}

// indexString returns the first index of sep in s, or -1.
func (e *Engine) indexString(st *State, s, sep *StrV) []Outcome {
	t := e.tb
	var outs []Outcome
	for _, cp := range e.concStr(st, sep) {
		m, _ := cp.s.ConcreteLen()
		if m == 0 {
			outs = append(outs, Outcome{st: cp.st, ret: t.Int64(0)})
			continue
		}
		res := t.Int64(-1)
		for k := len(s.B) - m; k >= 0; k-- {
			hit := t.Cmp(OpULe, t.Int64(int64(k+m)), s.N)
			for j := 0; j < m; j++ {
				hit = t.And(hit, t.Eq(s.B[k+j], cp.s.B[j]))
			}
			res = t.Ite(hit, t.Int64(int64(k)), res)
		}
		outs = append(outs, Outcome{st: cp.st, ret: res})
	}
	return outs
}

type uniqueEnt struct {
	val Value
	obj int
}

// sameShape reports whether two values have the same Go representation kind (cheap type proxy).
func sameShape(a, b Value) bool {
	switch x := a.(type) {
	case *StructV:
		y, ok := b.(*StructV)
		if !ok || len(x.F) != len(y.F) {
			return false
		}
		for i := range x.F {
			if !sameShape(x.F[i], y.F[i]) {
				return false
			}
		}
		return true
	case *Term:
		y, ok := b.(*Term)
		return ok && x.W == y.W
	case *StrV:
		_, ok := b.(*StrV)
		return ok
	}
	return false
}
