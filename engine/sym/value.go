package sym

import (
	"fmt"
	"go/types"
	"strings"

	"golang.org/x/tools/go/ssa"
)

// Value is a symbolic Go value. Concrete kinds:
//
//	*Term      bool / integer scalars (W=0 bool)
//	*StrV      string: symbolic length N (64-bit term) over byte terms B (len(B) = capacity)
//	FloatV     concrete float64
//	*StructV   struct (immutable)
//	*ArrayV    array (immutable)
//	*PtrV      pointer (nil => Obj==0)
//	*SliceV    slice
//	*MapV      map reference (nil => Obj==0)
//	*IfaceV    interface value (T==nil => nil interface)
//	*FuncV     function / closure / bound method (nil => Fn==nil && Builtin=="")
//	*TupleV    multiple results
//	*IterV     range iterator (reference to heap state)
//	*ChanV     channel (minimal)
//	*JSONV     not a Go value by itself; payload of a J2-backed byte array object
type Value interface{}

type FloatV float64

type StrV struct {
	N *Term   // length, 64-bit
	B []*Term // bytes (8-bit terms); indexes >= N are don't-care
	Doc *JDocV // non-nil: the string is the serialisation of a J2 document (B is then empty)
}

type StructV struct{ F []Value }
type ArrayV struct{ E []Value }

// PtrV addresses a location inside heap object Obj, following Path (field / element indexes).
// If Sym != nil the last path element is symbolic: element index Sym (64-bit term) in [0, SymN).
type PtrV struct {
	Obj  int
	Path []int
	Sym  *Term
	SymN int
}

type SliceV struct {
	Obj  int   // backing object; 0 => nil slice
	Path []int // path to the ArrayV inside the object
	Off  int
	N    *Term // length, 64-bit
	Cap  int   // capacity (elements from Off)
}

type MapV struct{ Obj int }

type IfaceV struct {
	T types.Type
	V Value
}

type FuncV struct {
	Fn       *ssa.Function
	Bindings []Value
	Builtin  string  // intrinsic implemented natively (bound builtin)
	Recv     Value   // for bound intrinsic methods
	Harness  *string // vpStub indirection
}

type TupleV struct{ E []Value }

type IterV struct{ Obj int }

type ChanV struct{ Obj int }

// MapObj is the heap payload of a map: insertion-ordered entries.
type MapObj struct {
	Keys []Value
	Vals []Value
}

// IterObj is the heap payload of a range iterator.
type IterObj struct {
	IsStr bool
	Str   *StrV
	Keys  []Value
	Vals  []Value
	Pos   int
}

func (p *PtrV) IsNil() bool   { return p.Obj == 0 }
func (s *SliceV) IsNil() bool { return s.Obj == 0 }
func (m *MapV) IsNil() bool   { return m.Obj == 0 }
func (f *FuncV) IsNil() bool  { return f.Fn == nil && f.Builtin == "" }

func (s *StrV) ConcreteLen() (int, bool) {
	if s.N.IsConst() {
		return int(s.N.Val), true
	}
	return 0, false
}

// Concrete returns the Go string if length and all bytes are constant.
func (s *StrV) Concrete() (string, bool) {
	n, ok := s.ConcreteLen()
	if !ok {
		return "", false
	}
	b := make([]byte, n)
	for i := 0; i < n; i++ {
		if !s.B[i].IsConst() {
			return "", false
		}
		b[i] = byte(s.B[i].Val)
	}
	return string(b), true
}

func (e *Engine) StrConst(s string) *StrV {
	b := make([]*Term, len(s))
	for i := 0; i < len(s); i++ {
		b[i] = e.tb.Const(8, uint64(s[i]))
	}
	return &StrV{N: e.tb.Int64(int64(len(s))), B: b}
}

func pathAppend(p []int, i int) []int {
	r := make([]int, len(p)+1)
	copy(r, p)
	r[len(p)] = i
	return r
}

// showValue renders a value for diagnostics.
func showValue(v Value) string {
	switch x := v.(type) {
	case nil:
		return "<nil>"
	case *Term:
		return x.String()
	case *StrV:
		if s, ok := x.Concrete(); ok {
			return fmt.Sprintf("%q", s)
		}
		return fmt.Sprintf("str(len=%v,cap=%d)", x.N, len(x.B))
	case FloatV:
		return fmt.Sprint(float64(x))
	case *StructV:
		var sb strings.Builder
		sb.WriteString("{")
		for i, f := range x.F {
			if i > 0 {
				sb.WriteString(", ")
			}
			sb.WriteString(showValue(f))
		}
		sb.WriteString("}")
		return sb.String()
	case *ArrayV:
		return fmt.Sprintf("array[%d]", len(x.E))
	case *PtrV:
		if x.IsNil() {
			return "nilptr"
		}
		return fmt.Sprintf("&obj%d%v", x.Obj, x.Path)
	case *SliceV:
		if x.IsNil() {
			return "nilslice"
		}
		return fmt.Sprintf("slice(obj%d%v+%d,len=%v,cap=%d)", x.Obj, x.Path, x.Off, x.N, x.Cap)
	case *MapV:
		return fmt.Sprintf("map(obj%d)", x.Obj)
	case *IfaceV:
		if x.T == nil {
			return "nil-iface"
		}
		return fmt.Sprintf("iface(%s: %s)", x.T, showValue(x.V))
	case *FuncV:
		if x.Fn != nil {
			return "func " + x.Fn.String()
		}
		return "func builtin " + x.Builtin
	case *TupleV:
		var parts []string
		for _, e := range x.E {
			parts = append(parts, showValue(e))
		}
		return "(" + strings.Join(parts, ", ") + ")"
	}
	return fmt.Sprintf("%T", v)
}
