#!/usr/bin/env python3
"""Regenerates MANIFEST.json from manifest_src.json (claimed checks) + properties.jsonl."""
import json
src = json.load(open('/verif/manifest_src.json'))
props = [json.loads(l) for l in open('/verif/properties.jsonl')]
baseline = json.load(open('/root/.vp/BASELINE.json'))
checks = []
na = []
for p in props:
    pid = p['id']
    c = src['claimed'].get(pid)
    if c is None:
        na.append({"property_id": pid, "reason": src['not_applicable'].get(pid, "no check built yet")})
        continue
    checks.append({
        "property_id": pid,
        "quick_cmd": f"./check {pid} --tier quick",
        "thorough_cmd": f"./check {pid} --tier thorough",
        "evidence_file": f"/verif/evidence/{pid}.json",
        "replay_cmd_template": f"./check {pid} --replay {{path}}",
        "engine": "gosym",
        "level_claimed": {"category": "model_checking", "text": c['text'], "design_ref": c.get('design_ref', 'DESIGN.md section 6')},
        "level_note": c['note'],
        "technique": c.get('technique', "bounded symbolic execution of the go/ssa form of the real code into QF_BV; verdict by z3 (incremental) with z3/cvc5 portfolio; counterexamples replayed natively"),
    })
m = {
    "version": 1,
    "setup_cmd": "cd /verif/engine && GOFLAGS=-mod=vendor GOPROXY=off GOSUMDB=off GOTOOLCHAIN=local go build -mod=vendor -o /verif/bin/gosym ./cmd/gosym",
    "hooks": {
        "guard": "verif",
        "enable": "harness files under /verif/harness (//go:build verif) are injected into the packages of /repo by go/packages Overlay (symbolic run) and go test -overlay (native replay) with -tags verif; no source change in /repo",
        "baseline_off_cmd": baseline['cmd'],
        "source_commits": [],
        "add_only": True,
    },
    "engines": [{"name": "gosym", "path": "/verif/engine", "serves_properties": [c['property_id'] for c in checks],
                 "kind_free_text": "symbolic executor for go/ssa written for this task: forking + state merging, QF_BV terms, z3/cvc5"}],
    "checks": checks,
    "not_applicable": na,
    "notes": src.get('notes', ''),
}
json.dump(m, open('/verif/MANIFEST.json', 'w'), indent=1)
print("claimed:", [c['property_id'] for c in checks])
