#!/usr/bin/env python3
"""kf_fixed.py <KF-id> : marks a known finding as fixed by the HEAD commit of /repo"""
import json, sys, subprocess
kid = sys.argv[1]
c = subprocess.check_output(['git', '-C', '/repo', 'log', '--format=%h', '-1']).decode().strip()
out = []
for l in open('/verif/known_findings.jsonl').read().splitlines():
    d = json.loads(l)
    if d.get('id') == kid:
        d['status'] = 'fixed'; d['commit'] = c
    out.append(json.dumps(d))
open('/verif/known_findings.jsonl', 'w').write("\n".join(out) + "\n")
print(kid, 'fixed by', c)
