#!/bin/bash
# usage: seedtest.sh <seed-dir> <property> [check args]   -- applies the seeded patch to /repo, runs the check, reverts
set -u
SD=$1; PID=$2; shift 2
cd /repo || exit 2
if ! git diff --quiet; then echo "/repo dirty"; exit 2; fi
git apply "$SD/patch.diff" || { echo "patch does not apply"; exit 2; }
cd /verif && timeout 3000 ./check "$PID" "$@" > /tmp/seedtest_$PID.log 2>&1; rc=$?
cd /repo && git checkout -- . 
echo "check exit=$rc"; grep -c "^VIOLATION" /tmp/seedtest_$PID.log; grep "^VIOLATION\|^  harness\|SUMMARY\|INCONCLUSIVE" /tmp/seedtest_$PID.log | cut -c1-260 | head -12
